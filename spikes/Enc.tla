---- MODULE Enc ----
EXTENDS Integers, Sequences, FiniteSets, TLC, Json, IOUtils
J == JsonDeserialize(IOEnv.TRACE_FILE)
ToSet(s) == {s[i] : i \in DOMAIN s}
N(id) == <<J.hdr.nodes[id][1], J.hdr.nodes[id][2]>>
DataOf(e) == [n \in {N(id) : id \in DOMAIN e.post.data} |->
                e.post.data[CHOOSE id \in DOMAIN e.post.data : N(id) = n]]
EdgesOf(e) == {<<N(x[1]), N(x[2])>> : x \in ToSet(e.post.tg)}
ASSUME PrintT(<<"data1", DataOf(J.ev[1])>>)
ASSUME PrintT(<<"edges1", EdgesOf(J.ev[1])>>)
ASSUME PrintT(<<"data2", DataOf(J.ev[2]), DOMAIN J.ev[2].post.data>>)
ASSUME PrintT(<<"inputs2", {N(id) : id \in ToSet(J.ev[2].post.inputs)}>>)
ASSUME PrintT(<<"edges2", EdgesOf(J.ev[2])>>)
ASSUME PrintT(<<"flags", J.hdr.flags, J.hdr.flags.a = TRUE>>)
ASSUME PrintT(<<"emptyobj", J.ev[1].post.empty, J.ev[1].post.empty = <<>> >>)
VARIABLE x
Init == x = 0
Next == x' = x
====
