---- MODULE EvalSpike ----
\* Feasibility spike: small-step executor + dependency graph + invalidation,
\* checked against a denotational oracle.  Throwaway.
EXTENDS Integers, Sequences, FiniteSets, TLC

CONSTANTS MaxHist,        \* bound on number of top-level operations
          FixUncached     \* TRUE: model the repaired invalidation for uncached cells

Cells  == {"a", "b", "c"}
SpaceOf == [a |-> "T", b |-> "S", c |-> "S"]
Keys   == {0, 1}
RefIds == {<<"S","r">>, <<"T","q">>}
Vals   == {1, 2}

\* ---- formula library ---------------------------------------------------
K(v)        == [t |-> "const", v |-> v]
Call(c, am) == [t |-> "call", c |-> c, am |-> am]
Ref(s, n)   == [t |-> "ref", r |-> <<s, n>>]       \* read by name (own space)
Attr(s, n)  == [t |-> "attr", r |-> <<s, n>>]      \* read by attribute path
Raise       == [t |-> "raise"]

FLib == [ f1 |-> <<K(1)>>,
          f2 |-> <<K(1), Ref("T","q")>>,           \* for a (in T): reads q by name
          f3 |-> <<K(10), Call("a","same")>>,      \* b/c call a
          f4 |-> <<K(10), Call("a","same"), Ref("S","r")>>,
          f5 |-> <<K(20), Attr("T","q")>>,         \* reads T.q by attribute
          f6 |-> <<K(100), Call("b","same"), Call("a","dec")>>,
          f7 |-> <<K(100), Call("b","same"), Raise>> ]
Allowed == [a |-> {"f1","f2"}, b |-> {"f3","f4","f5"}, c |-> {"f6","f7","f3"}]

ArgMap(am, k) == IF am = "same" THEN k ELSE IF k > 0 THEN k - 1 ELSE 0

VARIABLES formula, cached, ref,      \* definitions
          data, inputs, tgn, tge, rg, \* cache + graphs
          stack, refstack, mode, rolled, result, nops

vars == <<formula, cached, ref, data, inputs, tgn, tge, rg, stack, refstack, mode, rolled, result, nops>>

Node(c, k) == <<c, k>>
ObjNode(c) == <<c>>
Nodes == {Node(c, k) : c \in Cells, k \in Keys}

\* ---- oracle ---------------------------------------------------------------
RECURSIVE Denote(_, _), DenOps(_, _, _, _)
DenOps(c, k, ops, i) ==
    IF i > Len(ops) THEN 0
    ELSE LET op == ops[i] IN
         LET rest == DenOps(c, k, ops, i + 1) IN
         IF rest = (-1) THEN (-1)
         ELSE CASE op.t = "const" -> op.v + rest
                [] op.t = "call"  -> LET d == Denote(op.c, ArgMap(op.am, k)) IN
                                       IF d = (-1) THEN (-1) ELSE d + rest
                [] op.t = "ref"   -> ref[op.r] + rest
                [] op.t = "attr"  -> ref[op.r] + rest
                [] op.t = "raise" -> (-1)
Denote(c, k) == IF Node(c, k) \in inputs THEN data[Node(c, k)]
                ELSE DenOps(c, k, FLib[formula[c]], 1)

NoStale == mode = "idle" =>
             \A n \in DOMAIN data : n \in inputs \/ data[n] = Denote(n[1], n[2])
GraphEqCache == mode = "idle" => {n \in tgn : Len(n) = 2} = DOMAIN data
ResultOK == (mode = "idle" /\ result # <<>>) =>
              result[2] = Denote(result[1][1], result[1][2])

\* ---- graph helpers ----------------------------------------------------------
RECURSIVE Desc(_, _)
Desc(front, seen) ==
    LET nxt == {e[2] : e \in {e \in tge : e[1] \in front}} \ seen IN
    IF nxt = {} THEN seen ELSE Desc(nxt, seen \cup nxt)
WithDescs(ns) == Desc(ns, ns)

Restrict(f, S) == [x \in (DOMAIN f) \cap S |-> f[x]]

\* remove nodes (and everything computed from them) from cache and graphs
ClearNodes(ns) ==
    LET gone == WithDescs(ns \cap tgn) IN
    /\ data'   = Restrict(data, DOMAIN data \ gone)
    /\ inputs' = inputs \ gone
    /\ tgn'    = tgn \ gone
    /\ tge'    = {e \in tge : e[1] \notin gone /\ e[2] \notin gone}
    /\ rg'     = {e \in rg : e[2] \notin gone}

\* ---- executor ------------------------------------------------------------------
Range(s) == {s[i] : i \in DOMAIN s}
Top == stack[Len(stack)]
\* index of nearest cached frame at or below position i (0 if none)
RECURSIVE NearestCached(_)
NearestCached(i) == IF i = 0 THEN 0
                    ELSE IF cached[stack[i].n[1]] THEN i ELSE NearestCached(i - 1)

Push(n) == stack' = Append(stack, [n |-> n, pc |-> 1, acc |-> 0])

TopCall(c, k) ==
    /\ mode = "idle" /\ nops < MaxHist
    /\ nops' = nops + 1
    /\ IF cached[c] /\ Node(c, k) \in DOMAIN data
       THEN /\ result' = <<Node(c, k), data[Node(c, k)]>>
            /\ UNCHANGED <<formula, cached, ref, data, inputs, tgn, tge, rg, stack, refstack, mode, rolled>>
       ELSE /\ Push(Node(c, k)) /\ mode' = "run" /\ result' = <<>> /\ rolled' = <<>>
            /\ UNCHANGED <<formula, cached, ref, data, inputs, tgn, tge, rg, refstack>>

\* the top frame finished: store, pop, link
Return ==
    LET f == Top  n == f.n  c == n[1]  v == f.acc
        below == SubSeq(stack, 1, Len(stack) - 1)
        pred == NearestCached(Len(stack) - 1)
        me == IF cached[c] THEN n ELSE ObjNode(c)
        myrefs == {e[2] : e \in {x \in Range(refstack) : x[1] = Len(stack)}}
    IN
    /\ data' = IF cached[c] THEN [x \in DOMAIN data \cup {n} |-> IF x = n THEN v ELSE data[x]] ELSE data
    /\ IF pred > 0
       THEN /\ tge' = tge \cup {<<me, stack[pred].n>>}
            /\ tgn' = tgn \cup {me, stack[pred].n}
       ELSE /\ tge' = tge
            /\ tgn' = IF cached[c] THEN tgn \cup {n} ELSE tgn
    /\ IF cached[c] \/ ~FixUncached
       THEN /\ rg' = rg \cup {<<r, n>> : r \in myrefs}
            /\ refstack' = SelectSeq(refstack, LAMBDA x : x[1] # Len(stack))
       ELSE \* repaired: hand the pending refs to the caller
            /\ rg' = rg
            /\ refstack' = [i \in 1..Len(refstack) |->
                               IF refstack[i][1] = Len(stack)
                               THEN <<Len(stack) - 1, refstack[i][2]>> ELSE refstack[i]]
    /\ IF below = <<>>
       THEN /\ stack' = <<>> /\ mode' = "idle" /\ result' = <<n, v>>
            /\ IF ~cached[c] /\ FixUncached THEN TRUE ELSE TRUE
       ELSE /\ stack' = [below EXCEPT ![Len(below)] =
                            [@ EXCEPT !.acc = @ + v, !.pc = @ + 1]]
            /\ mode' = "run" /\ result' = <<>>
    /\ UNCHANGED <<formula, cached, ref, inputs, rolled, nops>>

Step ==
    /\ mode = "run"
    /\ LET f == Top  ops == FLib[formula[f.n[1]]] IN
       IF f.pc > Len(ops) THEN Return
       ELSE LET op == ops[f.pc] IN
         CASE op.t = "const" ->
                /\ stack' = [stack EXCEPT ![Len(stack)] = [@ EXCEPT !.acc = @ + op.v, !.pc = @ + 1]]
                /\ UNCHANGED <<formula, cached, ref, data, inputs, tgn, tge, rg, refstack, mode, rolled, result, nops>>
           [] op.t = "ref" ->
                /\ stack' = [stack EXCEPT ![Len(stack)] = [@ EXCEPT !.acc = @ + ref[op.r], !.pc = @ + 1]]
                /\ UNCHANGED <<formula, cached, ref, data, inputs, tgn, tge, rg, refstack, mode, rolled, result, nops>>
           [] op.t = "attr" ->
                /\ stack' = [stack EXCEPT ![Len(stack)] = [@ EXCEPT !.acc = @ + ref[op.r], !.pc = @ + 1]]
                /\ refstack' = Append(refstack, <<Len(stack), op.r>>)
                /\ UNCHANGED <<formula, cached, ref, data, inputs, tgn, tge, rg, mode, rolled, result, nops>>
           [] op.t = "call" ->
                LET m == Node(op.c, ArgMap(op.am, f.n[2])) IN
                IF cached[op.c] /\ m \in DOMAIN data
                THEN LET pred == NearestCached(Len(stack)) IN
                     /\ stack' = [stack EXCEPT ![Len(stack)] = [@ EXCEPT !.acc = @ + data[m], !.pc = @ + 1]]
                     /\ IF pred > 0 THEN /\ tge' = tge \cup {<<m, stack[pred].n>>}
                                         /\ tgn' = tgn \cup {m, stack[pred].n}
                        ELSE UNCHANGED <<tge, tgn>>
                     /\ UNCHANGED <<formula, cached, ref, data, inputs, rg, refstack, mode, rolled, result, nops>>
                ELSE /\ Push(m)
                     /\ UNCHANGED <<formula, cached, ref, data, inputs, tgn, tge, rg, refstack, mode, rolled, result, nops>>
           [] op.t = "raise" ->
                /\ mode' = "unwind"
                /\ UNCHANGED <<formula, cached, ref, data, inputs, tgn, tge, rg, stack, refstack, rolled, result, nops>>

Unwind ==
    /\ mode = "unwind"
    /\ LET n == Top.n IN
       /\ stack' = SubSeq(stack, 1, Len(stack) - 1)
       /\ rolled' = Append(rolled, n)
       /\ tgn' = tgn \ {n}
       /\ tge' = {e \in tge : e[1] # n /\ e[2] # n}
       /\ refstack' = SelectSeq(refstack, LAMBDA x : x[1] # Len(stack))
       /\ IF Len(stack) = 1 THEN mode' = "idle" /\ result' = <<n, (-1)>> ELSE mode' = "unwind" /\ result' = <<>>
    /\ UNCHANGED <<formula, cached, ref, data, inputs, rg, nops>>

\* ---- edits ---------------------------------------------------------------------
Idle == mode = "idle" /\ nops < MaxHist /\ nops' = nops + 1 /\ result' = <<>>

SetValue(c, k, v) ==
    /\ Idle /\ cached[c]
    /\ LET n == Node(c, k)  gone == WithDescs({n} \cap tgn) IN
       /\ data'   = [x \in (DOMAIN data \ gone) \cup {n} |-> IF x = n THEN v ELSE data[x]]
       /\ inputs' = (inputs \ gone) \cup {n}
       /\ tgn'    = (tgn \ gone) \cup {n}
       /\ tge'    = {e \in tge : e[1] \notin gone /\ e[2] \notin gone}
       /\ rg'     = {e \in rg : e[2] \notin gone}
    /\ UNCHANGED <<formula, cached, ref, stack, refstack, mode, rolled>>

ClearAt(c, k) ==
    /\ Idle /\ Node(c, k) \in DOMAIN data
    /\ ClearNodes({Node(c, k)})
    /\ UNCHANGED <<formula, cached, ref, stack, refstack, mode, rolled>>

\* namespace of space s changed: every cells of s drops its calculated values
NsNodes(s) == {n \in DOMAIN data : SpaceOf[n[1]] = s /\ n \notin inputs}
             \cup (IF FixUncached THEN {ObjNode(c) : c \in {c \in Cells : SpaceOf[c] = s /\ ~cached[c]}} ELSE {})

SetRef(r, v) ==
    /\ Idle /\ ref[r] # v
    /\ ref' = [ref EXCEPT ![r] = v]
    /\ ClearNodes(NsNodes(r[1]) \cup {e[2] : e \in {x \in rg : x[1] = r}})
    /\ UNCHANGED <<formula, cached, stack, refstack, mode, rolled>>

ObjNodes(c) == {n \in tgn : n[1] = c}
SetFormula(c, f) ==
    /\ Idle /\ f \in Allowed[c] /\ f # formula[c]
    /\ formula' = [formula EXCEPT ![c] = f]
    /\ ClearNodes(ObjNodes(c))
    /\ UNCHANGED <<cached, ref, stack, refstack, mode, rolled>>

SetCached(c, b) ==
    /\ Idle /\ cached[c] # b
    /\ cached' = [cached EXCEPT ![c] = b]
    /\ ClearNodes(ObjNodes(c))
    /\ UNCHANGED <<formula, ref, stack, refstack, mode, rolled>>

Init ==
    /\ formula \in [Cells -> UNION {Allowed[c] : c \in Cells}]
    /\ \A c \in Cells : formula[c] \in Allowed[c]
    /\ cached \in [Cells -> BOOLEAN]
    /\ ref = [r \in RefIds |-> 1]
    /\ data = <<>> /\ inputs = {} /\ tgn = {} /\ tge = {} /\ rg = {}
    /\ stack = <<>> /\ refstack = <<>> /\ mode = "idle" /\ rolled = <<>> /\ result = <<>> /\ nops = 0

Next ==
    \/ \E c \in Cells, k \in Keys : TopCall(c, k)
    \/ Step \/ Unwind
    \/ \E c \in Cells, k \in Keys, v \in {5} : SetValue(c, k, v)
    \/ \E c \in Cells, k \in Keys : ClearAt(c, k)
    \/ \E r \in RefIds, v \in Vals : SetRef(r, v)
    \/ \E c \in Cells, f \in {"f1","f2","f3","f4","f5","f6","f7"} : SetFormula(c, f)
    \/ \E c \in Cells, b \in BOOLEAN : SetCached(c, b)

Spec == Init /\ [][Next]_vars
====
