CONSTANT Cells = {"a","b","c","d"}
INIT Init
NEXT Next
INVARIANT Inv
CONSTRAINT BoundDump
