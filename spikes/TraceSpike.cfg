CONSTANT Cells = {"a","b","c","d"}
INIT TInit
NEXT TNext
INVARIANT Inv
CONSTRAINT Progress
POSTCONDITION Accepted
CHECK_DEADLOCK FALSE
