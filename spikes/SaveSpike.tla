---- MODULE SaveSpike ----
\* Feasibility spike for C14: backup rotation + write at file-operation
\* granularity with a failure possible at every operation. Throwaway.
EXTENDS Integers, Sequences, FiniteSets, TLC
CONSTANTS MaxSaves, NFiles, CleanupOnFail   \* CleanupOnFail: model of the candidate repair

Slots == 0..3                       \* 0 = <path>, n = <path>_BAKn
Absent == [gen |-> 0, ok |-> FALSE, zip |-> FALSE]

VARIABLES slot,       \* [Slots -> [gen, ok, zip]]
          gen,        \* generation being written (count of save attempts)
          lastGood,   \* generation of the most recent completely written save
          pc,         \* "idle" | "rot" | "dirwrite" | "ziptmp"
          todo,       \* remaining rotation operations, as a sequence of <<kind, from, to>>
          written,    \* files written so far in the current save
          fmt
vars == <<slot, gen, lastGood, pc, todo, written, fmt>>

Exists(s) == slot[s].gen # 0

\* _increment_backups(nth=0): the operations it will perform, in order
RECURSIVE RotOps(_)
RotOps(n) ==
    IF ~Exists(n) THEN <<>>
    ELSE IF n = 3 THEN << <<"delete", 3, 3>> >>
    ELSE RotOps(n + 1) \o << <<"rename", n, n + 1>> >>

Begin(f) ==
    /\ pc = "idle" /\ gen < MaxSaves
    /\ gen' = gen + 1 /\ fmt' = f /\ written' = 0
    /\ todo' = RotOps(0)
    /\ pc' = "rot"
    /\ UNCHANGED <<slot, lastGood>>

Abort == /\ pc' = "idle" /\ todo' = <<>> /\ UNCHANGED <<gen, lastGood, fmt>>

RotStep ==
    /\ pc = "rot" /\ todo # <<>>
    /\ LET op == Head(todo) IN
       \/ /\ slot' = IF op[1] = "delete" THEN [slot EXCEPT ![op[2]] = Absent]
                     ELSE [slot EXCEPT ![op[3]] = slot[op[2]], ![op[2]] = Absent]
          /\ todo' = Tail(todo) /\ UNCHANGED <<gen, lastGood, pc, written, fmt>>
       \/ /\ Abort /\ UNCHANGED <<slot, written>>                  \* this operation failed

RotDone ==
    /\ pc = "rot" /\ todo = <<>>
    /\ pc' = IF fmt = "dir" THEN "dirwrite" ELSE "ziptmp"
    /\ UNCHANGED <<slot, gen, lastGood, todo, written, fmt>>

\* directory format: mkdir, then NFiles opens; the last one completes the save
DirStep ==
    /\ pc = "dirwrite"
    /\ \/ /\ written' = written + 1
          /\ slot' = [slot EXCEPT ![0] = [gen |-> gen, ok |-> (written + 1 = NFiles + 1), zip |-> FALSE]]
          /\ IF written + 1 = NFiles + 1
             THEN pc' = "idle" /\ lastGood' = gen
             ELSE pc' = pc /\ lastGood' = lastGood
          /\ UNCHANGED <<gen, todo, fmt>>
       \/ /\ Abort /\ UNCHANGED written                             \* mkdir/open failed
          /\ slot' = IF CleanupOnFail THEN [slot EXCEPT ![0] = Absent] ELSE slot

\* zip format: everything happens in a temporary directory, then one move
ZipStep ==
    /\ pc = "ziptmp"
    /\ \/ /\ written < NFiles + 1 /\ written' = written + 1
          /\ UNCHANGED <<slot, gen, lastGood, pc, todo, fmt>>
       \/ /\ written = NFiles + 1                                   \* shutil.move
          /\ slot' = [slot EXCEPT ![0] = [gen |-> gen, ok |-> TRUE, zip |-> TRUE]]
          /\ pc' = "idle" /\ lastGood' = gen /\ UNCHANGED <<gen, todo, written, fmt>>
       \/ /\ Abort /\ UNCHANGED <<slot, written>>

Init == /\ slot = [s \in Slots |-> Absent] /\ gen = 0 /\ lastGood = 0
        /\ pc = "idle" /\ todo = <<>> /\ written = 0 /\ fmt = "dir"
Next == (\E f \in {"dir", "zip"} : Begin(f)) \/ RotStep \/ RotDone \/ DirStep \/ ZipStep
Spec == Init /\ [][Next]_vars

Good(s, g) == slot[s].gen = g /\ slot[s].ok
LastGoodSafe == (pc = "idle" /\ lastGood # 0) => Good(0, lastGood) \/ Good(1, lastGood)
NoPartialZip == \A s \in Slots : slot[s].zip => slot[s].ok
\* complete generations appear newest first
GenerationsOrdered == pc = "idle" =>
    \A s, t \in Slots : (s < t /\ Exists(s) /\ Exists(t)) => slot[s].gen > slot[t].gen
====
