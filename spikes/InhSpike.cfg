CONSTANTS MaxHist = 5
INIT Init
NEXT Next
INVARIANT WellFormed
INVARIANT DerivedEqRederive
CHECK_DEADLOCK FALSE
