CONSTANTS MaxHist = 3
          FixUncached = TRUE
INIT Init
NEXT Next
INVARIANT NoStale
INVARIANT GraphEqCache
INVARIANT ResultOK
CHECK_DEADLOCK FALSE
