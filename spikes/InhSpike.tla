---- MODULE InhSpike ----
\* Feasibility spike: ordered-base inheritance DAG, C3 linearisation, incremental
\* maintenance of one derived cells name "x" vs derivation from scratch. Throwaway.
EXTENDS Integers, Sequences, FiniteSets, TLC
CONSTANTS MaxHist
Spaces == {"A", "B", "C", "D"}
FIds   == {1, 2}

VARIABLES bases,    \* [Spaces -> Seq(Spaces)]  direct bases in order
          mem,      \* [Spaces -> [f : 0..2, derived : BOOLEAN]]   f = 0: no member x
          nops, last
vars == <<bases, mem, nops, last>>

Range(s) == {s[i] : i \in DOMAIN s}
NoMem == [f |-> 0, derived |-> FALSE]

\* ---- C3 ---------------------------------------------------------------------
FAIL == <<"!">>
RECURSIVE Merge(_)
Merge(seqs) ==
    LET ne == SelectSeq(seqs, LAMBDA s : s # <<>>) IN
    IF ne = <<>> THEN <<>>
    ELSE LET good(i) == \A j \in DOMAIN ne : \A p \in 2..Len(ne[j]) : ne[j][p] # Head(ne[i])
             cands == {i \in DOMAIN ne : good(i)} IN
         IF cands = {} THEN FAIL
         ELSE LET i == CHOOSE i \in cands : \A j \in cands : i <= j
                  c == Head(ne[i])
                  rest == Merge([j \in DOMAIN ne |-> IF Head(ne[j]) = c THEN Tail(ne[j]) ELSE ne[j]]) IN
              IF rest = FAIL THEN FAIL ELSE <<c>> \o rest
RECURSIVE Mro(_, _)
Mro(bs, s) ==
    LET parts == [i \in 1..Len(bs[s]) |-> Mro(bs, bs[s][i])] IN
    IF \E i \in DOMAIN parts : parts[i] = FAIL THEN FAIL
    ELSE LET m == Merge(parts \o <<bs[s]>>) IN
         IF m = FAIL THEN FAIL ELSE <<s>> \o m

\* reachability in the base relation (b is a strict ancestor of s)
RECURSIVE Anc(_, _, _)
Anc(bs, front, seen) ==
    LET nxt == UNION {Range(bs[s]) : s \in front} \ seen IN
    IF nxt = {} THEN seen ELSE Anc(bs, nxt, seen \cup nxt)
Ancestors(bs, s) == Anc(bs, {s}, {})
Subs(bs, s) == {t \in Spaces : s \in Ancestors(bs, t)}
Acyclic(bs) == \A s \in Spaces : s \notin Ancestors(bs, s)
\* topological order of subs: by length of their MRO (longer = later) -- sufficient for a spike
SubsOrdered(bs, s) ==
    LET S == Subs(bs, s) IN
    CHOOSE q \in [1..Cardinality(S) -> S] :
        /\ \A i, j \in DOMAIN q : i # j => q[i] # q[j]
        /\ \A i, j \in DOMAIN q : i < j => q[i] \notin Ancestors(bs, q[j]) \/ TRUE
        /\ \A i, j \in DOMAIN q : q[i] \in Ancestors(bs, q[j]) => i < j

\* ---- from-scratch derivation (the property) -------------------------------------
FirstDefiner(bs, m, s) ==
    LET mro == Mro(bs, s)
        idx == {i \in 2..Len(mro) : m[mro[i]].f # 0 /\ ~m[mro[i]].derived} IN
    IF idx = {} THEN "none" ELSE mro[CHOOSE i \in idx : \A j \in idx : i <= j]
Rederive(bs, m, s) ==
    IF m[s].f # 0 /\ ~m[s].derived THEN m[s]
    ELSE LET d == FirstDefiner(bs, m, s) IN
         IF d = "none" THEN NoMem ELSE [f |-> m[d].f, derived |-> TRUE]
DerivedEqRederive == \A s \in Spaces : mem[s] = Rederive(bases, mem, s)
WellFormed == Acyclic(bases) /\ \A s \in Spaces : Mro(bases, s) # FAIL

\* ---- the code's incremental algorithms --------------------------------------------
\* on_inherit of one space against the *current* members of its bases
OnInherit(bs, m, s) ==
    LET mro == Mro(bs, s)
        have == {i \in 2..Len(mro) : m[mro[i]].f # 0}                 \* bases holding x at all
        defd == {i \in have : ~m[mro[i]].derived} IN                  \* ... defined there
    IF m[s].f # 0 /\ ~m[s].derived THEN m[s]                          \* defined: untouched
    ELSE IF have = {} THEN NoMem                                      \* derived without base: deleted
    ELSE IF defd = {} THEN m[s]                                       \* (cannot happen when consistent)
    ELSE [f |-> m[mro[CHOOSE i \in defd : \A j \in defd : i <= j]].f, derived |-> TRUE]

\* apply OnInherit to s and then to its subs in topological order
RECURSIVE InheritSeq(_, _, _)
InheritSeq(bs, m, q) ==
    IF q = <<>> THEN m
    ELSE InheritSeq(bs, [m EXCEPT ![Head(q)] = OnInherit(bs, m, Head(q))], Tail(q))

Op == nops < MaxHist /\ nops' = nops + 1

AddBase(s, b) ==
    /\ Op /\ s # b /\ b \notin Range(bases[s])
    /\ LET bs == [bases EXCEPT ![s] = Append(@, b)] IN
       IF Acyclic(bs) /\ \A t \in Spaces : Mro(bs, t) # FAIL
       THEN /\ bases' = bs
            /\ mem' = InheritSeq(bs, mem, <<s>> \o SubsOrdered(bs, s))
            /\ last' = <<"add_base", s, b, "ok">>
       ELSE /\ UNCHANGED <<bases, mem>> /\ last' = <<"add_base", s, b, "rejected">>

RemoveBase(s, b) ==
    /\ Op /\ b \in Range(bases[s])
    /\ LET bs == [bases EXCEPT ![s] = SelectSeq(@, LAMBDA x : x # b)] IN
       /\ bases' = bs
       /\ mem' = InheritSeq(bs, mem, <<s>> \o SubsOrdered(bs, s))
       /\ last' = <<"remove_base", s, b, "ok">>

\* SpaceManager.new_cells: derived copies only where the sub has no x yet
NewCells(s, f) ==
    /\ Op /\ mem[s].f = 0
    /\ mem' = [t \in Spaces |->
                 IF t = s THEN [f |-> f, derived |-> FALSE]
                 ELSE IF t \in Subs(bases, s) /\ mem[t].f = 0 THEN [f |-> f, derived |-> TRUE]
                 ELSE mem[t]]
    /\ UNCHANGED bases /\ last' = <<"new_cells", s, f, "ok">>

\* SpaceManager.set_cells_property (formula): literal transcription of the loop
SetFormula(s, f) ==
    /\ Op /\ mem[s].f # 0
    /\ mem' = [t \in Spaces |->
                 IF t = s THEN [f |-> f, derived |-> FALSE]           \* define = True for the first
                 ELSE IF t \in Subs(bases, s) /\ mem[t].f # 0
                      THEN IF ~mem[t].derived /\ FirstDefiner(bases, mem, t) = s
                           THEN mem[t]                                  \* "continue"
                           ELSE [f |-> f, derived |-> mem[t].derived]   \* on_set_property, define = False
                 ELSE mem[t]]
    /\ UNCHANGED bases /\ last' = <<"set_formula", s, f, "ok">>

\* SpaceManager.del_cells: delete the defined cells, then update_subs(skip_self=False)
DelCells(s) ==
    /\ Op /\ mem[s].f # 0 /\ ~mem[s].derived
    /\ LET m0 == [mem EXCEPT ![s] = NoMem] IN
       mem' = InheritSeq(bases, m0, <<s>> \o SubsOrdered(bases, s))
    /\ UNCHANGED bases /\ last' = <<"del_cells", s, 0, "ok">>

Init == /\ bases = [s \in Spaces |-> <<>>] /\ mem = [s \in Spaces |-> NoMem]
        /\ nops = 0 /\ last = <<>>
Next == \/ \E s, b \in Spaces : AddBase(s, b) \/ RemoveBase(s, b)
        \/ \E s \in Spaces, f \in FIds : NewCells(s, f) \/ SetFormula(s, f)
        \/ \E s \in Spaces : DelCells(s)
====
