---- MODULE Spike2 ----
EXTENDS Spike
Dump == PrintT(<<"MBT", ToJson([hist |-> hist, data |-> data])>>)
BoundDump == Bound /\ Dump
====
