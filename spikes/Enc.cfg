INIT Init
NEXT Next
