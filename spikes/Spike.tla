---- MODULE Spike ----
EXTENDS Naturals, Sequences, FiniteSets, TLC, Json, IOUtils
CONSTANT Cells
VARIABLES data, hist
\* formula: cell -> sequence of callees (lower cells only)
Formulas == [a |-> <<>>, b |-> <<"a">>, c |-> <<"a","b">>, d |-> <<"c","b">>]
Const == [a |-> 1, b |-> 2, c |-> 3, d |-> 4]
RECURSIVE Denote(_)
SumSeq(s, i) == 0
RECURSIVE SumCalls(_, _)
SumCalls(s, i) == IF i > Len(s) THEN 0 ELSE Denote(s[i]) + SumCalls(s, i+1)
Denote(c) == Const[c] + SumCalls(Formulas[c], 1)
Init == data = [c \in {} |-> 0] /\ hist = <<>>
Eval(c) == /\ c \notin DOMAIN data
           /\ data' = [x \in DOMAIN data \cup {c} |-> IF x = c THEN Denote(c) ELSE data[x]]
           /\ hist' = Append(hist, c)
Clear(c) == /\ c \in DOMAIN data
            /\ data' = [x \in DOMAIN data \ {c} |-> data[x]]
            /\ hist' = Append(hist, c)
Next == \E c \in Cells : Eval(c) \/ Clear(c)
Spec == Init /\ [][Next]_<<data,hist>>
Inv == \A c \in DOMAIN data : data[c] = Denote(c)
Bound == Len(hist) <= 5
====
