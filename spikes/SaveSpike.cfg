CONSTANTS MaxSaves = 5
          NFiles = 3
          CleanupOnFail = FALSE
INIT Init
NEXT Next
INVARIANT NoPartialZip
INVARIANT GenerationsOrdered
INVARIANT LastGoodSafe
CHECK_DEADLOCK FALSE
