---- MODULE TraceSpike ----
EXTENDS Spike, TLCExt
Traces == JsonDeserialize(IOEnv.TRACE_FILE)
VARIABLES tid, l
TInit == Init /\ tid \in 1..Len(Traces) /\ l = 1 /\ TLCSet(tid, 1)
Ev == Traces[tid][l]
AsFun(r) == r   \* records deserialised from JSON objects are functions on strings
Match(d) == /\ DOMAIN d = DOMAIN Ev.data
            /\ \A k \in DOMAIN d : d[k] = Ev.data[k]
TNext == /\ l <= Len(Traces[tid])
         /\ \/ (Ev.op = "eval" /\ Eval(Ev.c))
            \/ (Ev.op = "clear" /\ Clear(Ev.c))
         /\ Match(data')
         /\ l' = l + 1 /\ tid' = tid
TSpec == TInit /\ [][TNext]_<<data,hist,tid,l>>
Progress == IF l > TLCGet(tid) THEN TLCSet(tid, l) ELSE TRUE
Accepted == \A t \in 1..Len(Traces) :
    IF TLCGet(t) = Len(Traces[t]) + 1 THEN TRUE
    ELSE PrintT(<<"REJECTED", t, "matched", TLCGet(t) - 1, "of", Len(Traces[t])>>) /\ FALSE
====
