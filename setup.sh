#!/bin/sh
# Nothing to build: specs are interpreted by TLC, harness is plain Python run by /venv/bin/python against /repo.
set -e
command -v tlc >/dev/null
command -v java >/dev/null
test -x /venv/bin/python
/venv/bin/python -c "import modelx, networkx" 
mkdir -p /verif/evidence /verif/replays
echo setup-ok
