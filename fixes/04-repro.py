import sys
import modelx as mx
ok = True
def check(label, got, exp):
    global ok
    if got != exp:
        ok = False; print("FAIL %s: got %r expected %r" % (label, got, exp))

m = mx.new_model()
T = m.new_space("T")
T.r = 1
T.new_cells("u", formula=lambda: r * 10)        # reads reference by name
T.new_cells("u1", formula=lambda x: r * x)
T.u.is_cached = False
T.u1.is_cached = False
S = m.new_space("S")
S.Tref = T
S.new_cells("c", formula=lambda: Tref.u() + 1)
S.new_cells("c2", formula=lambda: _model.T.u1(3) + c())
S.new_cells("indep", formula=lambda: 5)
check("initial", (S.c(), S.c2(), S.indep()), (11, 14, 5))
T.r = 2
check("c not recomputed eagerly but invalidated", dict(S.c), {})
check("after T.r = 2", (S.c(), S.c2()), (21, 27))
check("unrelated value kept", len(S.indep), 1)
del T.r
T.r = 3
check("after del/re-create", (S.c(), S.c2()), (31, 40))
m._impl._check_sanity()
for cells in (T.u, T.u1, S.c, S.c2):
    cells._impl.check_sanity()
print("PASS" if ok else "FAIL"); sys.exit(0 if ok else 1)
