import sys, types
import pandas as pd
import modelx as mx
ok = True
def check(label, got, exp):
    global ok
    if got != exp:
        ok = False; print("FAIL %s: got %r expected %r" % (label, got, exp))

m = mx.new_model()
S = m.new_space("S")
S.new_cells("c", formula=lambda: 1)
S.new_cells("c2", formula=lambda: 2)
S.new_cells("nonscalar", formula=lambda x: x)
S.new_space("Child")
S.existing = 1
df = pd.DataFrame({"a": [1, 2]})
import tempfile, os
_d = tempfile.mkdtemp()
mod = os.path.join(_d, "mymod.py")
open(mod, "w").write("VALUE = 1\n")
iom = mx.core.mxsys.iomanager
def nspecs():
    return sum(len(io_.specs) for io_ in iom.get_ios(m).values())

for label, call in [
    ("new_pandas on scalar cells", lambda: S.new_pandas("c", "c.xlsx", df, file_type="excel")),
    ("new_pandas on non-scalar cells", lambda: S.new_pandas("nonscalar", "n.xlsx", df, file_type="excel")),
    ("new_pandas on child space", lambda: S.new_pandas("Child", "ch.xlsx", df, file_type="excel")),
    ("new_module on scalar cells", lambda: S.new_module("c2", "c2.py", mod)),
    ("new_pandas on model space name", lambda: m.new_pandas("S", "s.xlsx", df, file_type="excel")),
]:
    try:
        call()
        print("FAIL %s: accepted" % label); ok = False
    except (KeyError, ValueError):
        pass
    check(label + ": no spec left", nspecs(), 0)
check("cells values untouched", (len(S.c), len(S.c2)), (0, 0))
check("cells still compute", (S.c(), S.c2()), (1, 2))

# legitimate creations keep working: new name, and replacing an existing reference
S.new_pandas("fresh", "f.xlsx", df, file_type="excel")
S.new_pandas("existing", "e.xlsx", df.copy(), file_type="excel")
m.new_pandas("mdf", "m.xlsx", df.copy(), file_type="excel")
check("legit refs", (S.fresh is df, isinstance(S.existing, pd.DataFrame), isinstance(m.mdf, pd.DataFrame)), (True, True, True))
check("legit specs", nspecs(), 3)
m._impl._check_sanity()
print("PASS" if ok else "FAIL"); sys.exit(0 if ok else 1)
