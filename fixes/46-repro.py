import modelx as mx
m = mx.new_model()
m.g = 30
S = m.new_space("S"); T = m.new_space("T"); W = T.new_space("W")
@mx.defcells(space=S)
def c0(i):
    try:
        return 100 + _model.T.W.g
    except Exception:
        return 901
print(S.c0(0))          # 130
del m.T
v = S.c0(0)
print(v)
assert v == 901, "FAIL: stale value %r served after the space on the path was deleted" % v
print("PASS")
