import modelx as mx
m = mx.new_model("M")
B = m.new_space("B"); D = m.new_space("D"); C = m.new_space("C", bases=B)
B.o = 1
try:
    B.set_ref("o", D, "relative")
    print("FAIL: accepted; C.o =", C.o); raise SystemExit(1)
except ValueError as e:
    print("rejected:", e)
assert B.o == 1 and C.o == 1
# legitimate: sub overriding the name does not block the change
C.o = 5
B.set_ref("o", B, "relative"); assert C.o == 5
print("PASS")
