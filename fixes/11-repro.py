import sys
import modelx as mx
from modelx.core.errors import NoneReturnedError
m = mx.new_model()
s = m.new_space("S")
a = s.new_cells("a", formula=lambda x: 2 * x)
b = s.new_cells("b", formula=lambda x: a(x) + 1)
a[1] = 10
assert b(1) == 11
ok = True
try:
    a[1] = None
    print("FAIL: assignment of None accepted"); ok = False
except NoneReturnedError:
    pass
state = (dict(a), dict(b), set(a._impl.input_keys))
if state != ({1: 10}, {1: 11}, {(1,)}):
    ok = False
    print("FAIL: rejected assignment changed state:", state)
# allow_none=True still accepts None and clears dependents
a.allow_none = True
a[1] = None
ok = ok and dict(a) == {1: None} and dict(b) == {}
m._impl._check_sanity()
print("PASS" if ok else "FAIL"); sys.exit(0 if ok else 1)
