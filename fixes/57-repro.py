"""57: S.x = v with a child space x and a model-level reference x."""
import sys
import modelx as mx
print(mx.__file__)
ok = True

def kinds(space, name):
    res = []
    if name in space.cells:
        res.append("cells")
    if name in space._impl.own_refs:
        res.append("ref")
    if name in space.spaces:
        res.append("space")
    return res

# control: no model-level x -> refused
m0 = mx.new_model("M57a")
S0 = m0.new_space("S")
S0.new_space("x")
try:
    S0.x = 3
    print("control (no model-level x): accepted"); ok = False
except ValueError:
    print("control (no model-level x): refused")

m = mx.new_model("M57")
S = m.new_space("S")
X = S.new_space("x")
A = m.new_space("A")
B = m.new_space("B", bases=A)
B.new_space("x")
m.x = 1
try:
    S.x = 3
    print("S.x = 3 accepted; S has", kinds(S, "x"))
    ok = False
except ValueError as e:
    print("S.x = 3 refused:", repr(e))
if kinds(S, "x") != ["space"] or S.spaces["x"] is not X:
    print("bad state", kinds(S, "x")); ok = False

# the same through a base space: B(A), B has the child space x
try:
    A.x = 3
    print("A.x = 3 accepted; B has", kinds(B, "x")); ok = False
except ValueError:
    print("A.x = 3 (sub has a child space x) refused")
if kinds(B, "x") != ["space"] or kinds(A, "x"):
    print("bad state", kinds(A, "x"), kinds(B, "x")); ok = False

# set_ref goes the same way
try:
    S.set_ref("x", 3, "auto")
    print("set_ref accepted"); ok = False
except ValueError:
    print("set_ref refused")

# controls: overriding a model-level reference in a space without such a member
T = m.new_space("T")
if T.x != 1:
    ok = False
T.x = 3
if T.x != 3 or m.x != 1 or kinds(T, "x") != ["ref"]:
    print("control override model-level ref wrong"); ok = False
T.x = 4        # change
if T.x != 4:
    ok = False
# control: scalar cells assignment still sets the value
U = m.new_space("U")
U.new_cells("c", formula=lambda: 1)
U.c = 10
if U.c() != 10 or kinds(U, "c") != ["cells"]:
    print("control cells assignment wrong"); ok = False
# control: plain new reference, derived in the sub space
A.w = 2
if B.w != 2:
    ok = False

print("PASS" if ok else "FAIL")
sys.exit(0 if ok else 1)
