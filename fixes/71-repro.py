"""An input value is discarded by an unrelated reference change.

c1(1) read S.rb by attribute access (edge rb -> c1(1) in the reference graph) and called
c0(1), which read S.ra by attribute access.  Changing S.ra clears c0(1) and its dependent
c1(1), but leaves c1(1) in the reference graph.  c1(1) is then given an input value;
changing S.rb -- which no longer has anything to do with it -- discards the input."""
import modelx as mx
m = mx.new_model()
S = m.new_space("S"); U = S.new_space("U")
S.ra = 1
S.rb = 2
@mx.defcells(space=U)
def c0(i):
    return _model.S.ra
@mx.defcells(space=U)
def c1(i):
    return c0(i) + _model.S.rb
assert c1(1) == 3
S.ra = 10                 # clears c0(1) and c1(1)
assert dict(c1) == {}
c1[1] = 600               # input
S.rb = 20                 # nothing computed depends on rb now
print(dict(c1))
assert dict(c1) == {1: 600}, "input value lost"
print("ok")
