import sys
import modelx as mx
ok = True
def snapshot(m):
    return {s.fullname: (list(s.cells), sorted(s._impl.own_refs),
                         [b.fullname for b in s.bases])
            for s in m.spaces.values()}

m = mx.new_model()
X = m.new_space("X")
X.new_cells("foo", formula=lambda: 1)
A = m.new_space("A")
A.new_cells("a1", formula=lambda: 1)
A.v = 10
A.relref(r=X.foo)             # relative reference to an object outside A
B = m.new_space("B")
B.new_cells("own", formula=lambda: 2)
C = m.new_space("C", bases=B)     # descendant of B must stay unchanged as well
before = snapshot(m)
try:
    B.add_bases(A)
    print("FAIL: add_bases unexpectedly accepted"); ok = False
except ValueError as e:
    print("add_bases raised:", e)
after = snapshot(m)
if before != after:
    ok = False
    print("FAIL: failed add_bases changed the model:\n  before %s\n  after  %s" % (before["Model1.B"] if "Model1.B" in before else before, after.get("Model1.B", after)))
try:
    m._impl._check_sanity()
except AssertionError as e:
    ok = False; print("FAIL: sanity check", e)

# legitimate relative references are still derived
m2 = mx.new_model()
A = m2.new_space("A")
A.new_cells("a1", formula=lambda: 1)
A.relref(q=A.a1)                  # inside A: can be made relative in subs
X = m2.new_space("X"); X.new_cells("foo", formula=lambda: 1)
A.absref(p=X.foo)                 # absolute reference to the outside is fine
A.z = X.foo                       # auto reference to the outside is fine
B = m2.new_space("B")
B.r = 5
C = m2.new_space("C", bases=B)
try:
    B.add_bases(A)
    if not (B.q is B.a1 and C.q is C.a1 and B.p is X.foo and C.z is X.foo and C.r == 5):
        ok = False; print("FAIL: derived references wrong")
except Exception as e:
    ok = False; print("FAIL: legit add_bases rejected:", type(e).__name__, e)
m2._impl._check_sanity()
print("PASS" if ok else "FAIL"); sys.exit(0 if ok else 1)
