"""64: an ItemSpace built from a base given by the formula survives the deletion of that base."""
import sys
import modelx as mx
from modelx.core.errors import DeletedObjectError
print(mx.__file__)
ok = True

def is_dead(what, func):
    global ok
    try:
        v = func()
        print(what, "still evaluates ->", v)
        ok = False
    except DeletedObjectError:
        print(what, "raises DeletedObjectError")

m = mx.new_model("M64")
O = m.new_space("O")
O.new_cells("foo", formula=lambda x: x * i)
T = m.new_space("T")
T.formula = lambda i: {"base": _model.O}
t1 = T[1]
foo = t1.foo
if t1.foo(3) != 3:
    print("setup wrong"); ok = False

del m.O
print("after del m.O: T.itemspaces keys =", [k for k in T._impl.param_spaces])
is_dead("t1.foo(3)", lambda: t1.foo(3))
is_dead("t1.foo(4) (not yet calculated)", lambda: t1.foo(4))
is_dead("cells handle foo(3)", lambda: foo(3))
if T._impl.param_spaces:
    print("T keeps the instance built from the deleted space"); ok = False
try:
    T[1]
    print("T[1] is built again from a deleted space"); ok = False
except Exception as e:
    print("T[1] now raises", type(e).__name__)

# the base has a child space (its deletion changes the namespace of the base)
m1 = mx.new_model("M64a")
O = m1.new_space("O")
OC = O.new_space("C")
OC.new_cells("bar", formula=lambda: i + 1)
T1 = m1.new_space("T1", formula=lambda i: {"base": _model.O})
tc = T1[1].C
if tc.bar() != 2:
    ok = False
del m1.O
is_dead("T1[1].C.bar() (base with a child space)", lambda: tc.bar())

# base is a child space deleted together with its parent
m2 = mx.new_model("M64b")
A = m2.new_space("A")
B = A.new_space("B")
B.new_cells("foo", formula=lambda: i)
T2 = m2.new_space("T2", formula=lambda i: {"base": _model.A.B})
u = T2[7]
if u.foo() != 7:
    ok = False
del m2.A
is_dead("u.foo() after del of the parent of the base", lambda: u.foo())

# a value computed from such an instance is discarded
m3 = mx.new_model("M64c")
O3 = m3.new_space("O3")
O3.new_cells("foo", formula=lambda: i)
T3 = m3.new_space("T3", formula=lambda i: {"base": _model.O3})
R = m3.new_space("R"); R.T3 = T3
R.new_cells("read", formula=lambda: T3[1].foo())
if R.read() != 1:
    ok = False
del m3.O3
try:
    v = R.read(); print("R.read() still gives", v); ok = False
except Exception as e:
    print("R.read() raises", type(e).__name__)

# controls: instances built from another base are kept; re-created base works
m4 = mx.new_model("M64d")
O1 = m4.new_space("O1"); O1.new_cells("foo", formula=lambda: i)
O2 = m4.new_space("O2")
calls = []
O2.calls = calls
O2.new_cells("foo", formula=lambda: calls.append(i) or i * 2)
T4 = m4.new_space("T4", formula=lambda i: {"base": _model.O1 if i < 10 else _model.O2})
a, b = T4[1], T4[11]
if (a.foo(), b.foo()) != (1, 22):
    ok = False
del m4.O1
is_dead("a.foo()", lambda: a.foo())
if b.foo() != 22 or calls != [11] or T4[11] is not b:
    print("control: instance built from another base was harmed", calls); ok = False
O1b = m4.new_space("O1"); O1b.new_cells("foo", formula=lambda: i * 5)
if T4[1].foo() != 5:
    print("control: instance from the re-created base wrong"); ok = False
# plain parametrised space deletes as before
P = m4.new_space("P", formula=lambda k: None)
P.new_cells("c", formula=lambda: k)
p1 = P[1]; p1.c()
del m4.P
is_dead("p1.c()", lambda: p1.c())

print("PASS" if ok else "FAIL")
sys.exit(0 if ok else 1)
