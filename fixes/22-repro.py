# C14 repro: a transient OSError while modelx re-opens the temporary zip archive for appending
# is swallowed (zipfile falls back to mode "w+b" = truncate): Model.zip() returns normally but the
# archive at the destination has lost its first entries and cannot be read back.
import sys, os, tempfile, modelx as mx
n = {"i": 0, "on": False}
def hook(ev, args):
    if n["on"] and ev == "open" and str(args[0]).endswith("/m.zip") and args[1] == "r+":
        n["i"] += 1
        if n["i"] == 3:                      # the third append (any but the first loses data)
            raise OSError(5, "injected transient I/O error")
sys.addaudithook(hook)
d = tempfile.mkdtemp(); p = os.path.join(d, "m.zip")
m = mx.new_model("M"); m.new_space("S").new_cells("a", lambda x: x)
m.zip(p)                                     # good save
n["on"] = True; m.zip(p); n["on"] = False   # returns WITHOUT raising
import zipfile; print("entries at path :", zipfile.ZipFile(p).namelist())
print("entries at _BAK1:", zipfile.ZipFile(p + "_BAK1").namelist())
try: mx.read_model(p, name="R")
except Exception as e: print("read_model(path) fails:", type(e).__name__, e)
