"""56: refs passed to new_space do not take part in the name-conflict test."""
import sys
import modelx as mx
print(mx.__file__)
ok = True

def kinds(space, name):
    res = []
    if name in space.cells:
        res.append("cells")
    if name in space._impl.own_refs:
        res.append("ref")
    if name in space.spaces:
        res.append("space")
    return res

m = mx.new_model("M56")
B = m.new_space("B")
B.new_cells("z", formula=lambda: 1)
try:
    E = m.new_space("E", bases=B, refs={"z": 7})
    print("new_space(bases=B, refs={'z': 7}) accepted; E has", kinds(E, "z"))
    ok = False
except (NameError, ValueError) as e:
    print("refused:", type(e).__name__, e)
if "E" in m.spaces and ok:
    print("E left behind in the model"); ok = False

# cells z in an indirect base
C = m.new_space("C", bases=B)
try:
    F = m.new_space("F", bases=C, refs={"z": 7})
    print("indirect base: accepted", kinds(F, "z")); ok = False
except (NameError, ValueError):
    print("indirect base: refused")
if "F" in m.spaces and ok:
    print("F left behind"); ok = False

# control: existing check cells-vs-refs of the bases
R = m.new_space("R")
R.z = 3
try:
    m.new_space("G", bases=[B, R])
    print("control bases conflict: accepted"); ok = False
except NameError:
    print("control bases conflict refused")

# controls: refs w/o conflict; refs overriding a base reference
H = m.new_space("H", bases=B, refs={"w": 7})
if H.w != 7 or H.z() != 1 or kinds(H, "z") != ["cells"]:
    print("control no conflict wrong"); ok = False
I = m.new_space("I", bases=R, refs={"z": 9})
if I.z != 9 or R.z != 3 or kinds(I, "z") != ["ref"]:
    print("control ref override wrong", I.z); ok = False
J = m.new_space("J", refs={"z": 1})
K = m.new_space("K", bases=B)
K2 = K.new_space("Child", refs={"z": 5})     # child of a space with cells z: separate namespace
if K2.z != 5:
    print("control child wrong"); ok = False
if m.new_space("L", bases=B).z() != 1:
    print("control refs=None wrong"); ok = False

print("PASS" if ok else "FAIL")
sys.exit(0 if ok else 1)
