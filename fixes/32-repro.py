import modelx as mx, tempfile, os
ok = True
m = mx.new_model("M")
A = m.new_space("A"); B = m.new_space("B", bases=A); B.r = 2
C = m.new_space("C", bases=A); D = m.new_space("D", bases=B)
try:
    A.r = 1
except ValueError as e:
    print("rejected:", e); ok = False
else:
    got = (A.r, B.r, C.r, D.r)
    if got != (1, 2, 1, 2): ok = False; print("values", got)
    for fmt in ("dir", "zip"):
        p = os.path.join(tempfile.mkdtemp(), "m" + (".zip" if fmt == "zip" else ""))
        (m.zip if fmt == "zip" else m.write)(p)
        try:
            r = mx.read_model(p, name="R" + fmt)
            if (r.A.r, r.B.r, r.C.r, r.D.r) != (1, 2, 1, 2): ok = False; print(fmt, "read values differ")
        except Exception as e:
            ok = False; print(fmt, "unreadable:", type(e).__name__, e)
# still rejected: a sub uses the name for a cells, even when an earlier sub overrides the ref
m2 = mx.new_model("M2"); A2 = m2.new_space("A"); B2 = m2.new_space("B", bases=A2); B2.q = 1
C2 = m2.new_space("C", bases=A2); C2.new_cells("q", "lambda: 1")
try:
    A2.q = 5; ok = False; print("accepted although C uses q for a cells")
except ValueError:
    pass
# a sub deriving the name from another base: MRO decides
m3 = mx.new_model("M3"); X = m3.new_space("X"); Y = m3.new_space("Y"); Y.r = 7
Z1 = m3.new_space("Z1", bases=[X, Y]); Z2 = m3.new_space("Z2", bases=[Y, X])
X.r = 3
if (Z1.r, Z2.r) != (3, 7): ok = False; print("multi-base", (Z1.r, Z2.r))
print("PASS" if ok else "FAIL"); raise SystemExit(0 if ok else 1)
