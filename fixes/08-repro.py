import sys
import modelx as mx
ok = True
def check(label, got, exp):
    global ok
    if got != exp:
        ok = False; print("FAIL %s: got %r expected %r" % (label, got, exp))

# --- change_ref: sibling created after an overriding sibling
m = mx.new_model()
A = m.new_space("A"); A.r = 1
B = m.new_space("B", bases=A); B.r = 2          # override, created before C
E = m.new_space("E", bases=B)                   # derives r from B
C = m.new_space("C", bases=A)                   # derives r from A
A.r = 3
check("change_ref: C follows A", C.r, 3)
check("change_ref: B keeps override", B.r, 2)
check("change_ref: E follows B", E.r, 2)
B.r = 4
check("change_ref: E follows B after B changes", (E.r, C.r, A.r), (4, 3, 3))
m._impl._check_sanity(); m.close()

# --- diamond: subs after the overriding sub follow their own first defined base
m = mx.new_model()
A = m.new_space("A"); A.r = 1
B = m.new_space("B", bases=A); B.r = 2
C = m.new_space("C", bases=A)
D = m.new_space("D", bases=[B, C])
D2 = m.new_space("D2", bases=[C, B])
F = m.new_space("F", bases=C)
A.r = 3
check("diamond", (B.r, C.r, D.r, D2.r, F.r), (2, 3, 2, 2, 3))
m._impl._check_sanity(); m.close()

# --- references to modelx objects (auto/relative handling) still propagate
m = mx.new_model()
A = m.new_space("A")
A.new_cells("foo", formula=lambda: 1)
A.new_cells("bar", formula=lambda: 2)
A.r = A.foo
B = m.new_space("B", bases=A); B.r = B.bar
C = m.new_space("C", bases=A)
check("interface ref before", C.r is C.foo, True)
A.r = A.bar
check("interface ref: C relative to A.bar", C.r is C.bar, True)
check("interface ref: B keeps override", B.r is B.bar, True)
m._impl._check_sanity(); m.close()
print("PASS" if ok else "FAIL"); sys.exit(0 if ok else 1)
