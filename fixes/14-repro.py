import sys
import modelx as mx
m = mx.new_model()
s = m.new_space("S")
u = s.new_cells("u", formula=lambda: 1)
u.is_cached = False
c = s.new_cells("c", formula=lambda: u() + 1)
assert c() == 2
try:
    ok = u._impl.check_sanity() and c._impl.check_sanity()
except IndexError as e:
    print("FAIL: check_sanity raised IndexError:", e); sys.exit(1)
print("PASS" if ok else "FAIL"); sys.exit(0 if ok else 1)
