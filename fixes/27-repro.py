import sys, os, tempfile
os.chdir(tempfile.mkdtemp())
import modelx as mx, pandas as pd
from modelx.core.system import mxsys

fails = []
def check(cond, msg):
    if not cond:
        fails.append(msg)

def in_ios(spec):
    return any(spec in io.specs.values() for io in mxsys.iomanager.ios.values())

for order in (('x', 'y'), ('y', 'x')):
    m = mx.new_model(); A = m.new_space('A')
    df = pd.DataFrame({'a': [1, 2]}); df2 = pd.DataFrame({'a': [3]})
    A.new_pandas('x', 'a.csv', df, file_type='csv')
    spec = m.get_spec(df)
    A.y = df2
    m.update_pandas(df, df2)
    check(A.x is df2 and A.y is df2, "%s: x/y not bound to df2" % (order,))
    check(spec.value is df2, "%s: spec value not df2" % (order,))
    refs = m._impl.refmgr._valid_to_refs.get(id(df2), [])
    check(sorted(r.name for r in refs) == ['x', 'y'],
          "%s: refs registered for df2: %r" % (order, [r.name for r in refs]))
    check(id(df) not in m._impl.refmgr._valid_to_refs, "%s: df still registered" % (order,))

    try:
        delattr(A, order[0])
    except Exception as e:
        check(False, "%s: del A.%s raised %r" % (order, order[0], e))
    check(m.iospecs == [spec] and in_ios(spec),
          "%s: spec deleted while A.%s still bound to its value" % (order, order[1]))
    try:
        delattr(A, order[1])
    except Exception as e:
        check(False, "%s: del A.%s raised %r" % (order, order[1], e))
    check(order[1] not in A.refs, "%s: A.%s still exists" % (order, order[1]))
    check(m.iospecs == [] and not in_ios(spec), "%s: spec left after deleting both" % (order,))
    m._impl.refmgr._check_sanity()
    m.close()

# update in place (no new value) still works
m = mx.new_model(); A = m.new_space('A')
df = pd.DataFrame({'a': [1, 2]})
A.new_pandas('x', 'a.csv', df, file_type='csv'); A.y = df
m.update_pandas(df)
refs = m._impl.refmgr._valid_to_refs.get(id(df), [])
check(sorted(r.name for r in refs) == ['x', 'y'], "in-place: refs %r" % [r.name for r in refs])
del A.x
check(len(m.iospecs) == 1, "in-place: spec lost")
del A.y
check(m.iospecs == [], "in-place: spec left")
m.close()
check(len(mxsys.iomanager.ios) == 0, "ios left: %r" % list(mxsys.iomanager.ios))

if fails:
    print("FAIL"); [print("  -", f) for f in fails]; sys.exit(1)
print("PASS")
