import sys, traceback
import modelx as mx
from modelx.core.formula import replace_docstring
m = mx.new_model(); s = m.new_space(); s.G = 7
ok = True

def check(label, fn):
    global ok
    try:
        r = fn()
        if r is not True:
            ok = False
            print("FAIL", label, "->", repr(r))
    except Exception as e:
        ok = False
        print("FAIL", label, "->", type(e).__name__, e)

def t1():
    c = s.new_cells("k4", formula="def k4(x): return x")
    c.doc = "text"
    return (c.doc == "text" and c(3) == 3) or (c.doc, c(3))
check("one-line body, doc=", t1)

def t2():
    c = s.new_cells("k5", formula="def k5(x): return x + G")
    c.set_doc("line1\nline2\n", insert_indents=True)
    return (c.doc is not None and c.doc.startswith("line1") and c(3) == 10) or (c.doc,)
check("one-line body, set_doc insert_indents", t2)

def t3():
    c = s.new_cells("k6", formula="def k6(x): y = x; return y * 2")
    c.doc = "multi\n  line doc"
    return (c.doc == "multi\n  line doc" and c(3) == 6) or (c.doc,)
check("one-line body with two stmts", t3)

def t4():
    # replacing an existing docstring on a one-line body still works
    c = s.new_cells("k7", formula='def k7(x): """old"""; return x')
    c.doc = "new"
    c.doc = "newer"
    return (c.doc == "newer" and c(3) == 3) or (c.doc,)
check("one-line body with docstring", t4)

def t5():
    # direct helper: result compiles and has doc
    src = replace_docstring("def q(x): return x\n", "d")
    ns = {}; exec(src, ns)
    return (ns["q"].__doc__ == "d" and ns["q"](5) == 5) or src
check("replace_docstring direct", t5)

def t6():
    # set twice (second time replaces the just-inserted docstring)
    c = s.new_cells("k8", formula="def k8(x): return x")
    c.doc = "a"; c.doc = "b"
    return (c.doc == "b" and c(1) == 1 and c.formula.source.count('"""') == 2) or c.formula.source
check("set twice", t6)

print("PASS" if ok else "FAIL")
sys.exit(0 if ok else 1)
