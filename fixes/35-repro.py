import modelx as mx
ok = True
for how in ("delete", "rename", "delete_child"):
    m = mx.new_model("M"); A = m.new_space("A"); K = A.new_space("K"); A.r = 3; K.q = 4
    C = m.new_space("C"); C.new_cells("y", "lambda: _model.A.r + _model.A.K.q")
    assert C.y() == 7
    if how == "delete": del m.A
    elif how == "rename": A.rename("E")
    else: del A.K
    try:
        v = C.y(); ok = False; print(how, "stale value served:", v)
    except Exception as e:
        pass
    m.close()
print("PASS" if ok else "FAIL"); raise SystemExit(0 if ok else 1)
