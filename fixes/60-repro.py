"""60: changing the formula of a parametrised child space keeps stale Outer[a].Inner."""
import sys
import modelx as mx
print(mx.__file__)
ok = True

m = mx.new_model("M60")
Outer = m.new_space("Outer", formula=lambda a: None)
Inner = Outer.new_space("Inner", formula=lambda k: None)
Inner.new_cells("foo", formula=lambda: k * 10)
Outer.new_cells("bar", formula=lambda: a)

inst = Outer[1]
if inst.Inner.parameters != ("k",) or inst.Inner[2].foo() != 20 or inst.bar() != 1:
    print("setup wrong"); ok = False

Inner.formula = lambda k, extra=0: None
print("after Inner.formula = lambda k, extra=0: Inner.parameters =", Inner.parameters,
      " Outer[1].Inner.parameters =", Outer[1].Inner.parameters)
if Outer[1].Inner.parameters != ("k", "extra"):
    print("Outer[1].Inner keeps the old parameter list"); ok = False
try:
    v = Outer[1].Inner[2, 3].foo()
    print("Outer[1].Inner[2, 3].foo() =", v)
    if v != 20:
        ok = False
except TypeError as e:
    print("Outer[1].Inner[2, 3] raises TypeError:", e); ok = False
if Outer[1].bar() != 1:
    ok = False

# parameters setter and deleter go the same way
Inner.parameters = ("k", "j")
if Outer[1].Inner.parameters != ("k", "j"):
    print("stale after parameters setter:", Outer[1].Inner.parameters); ok = False
try:
    Outer[1].Inner[1, 2]
except TypeError as e:
    print("Outer[1].Inner[1, 2] raises TypeError:", e); ok = False
del Inner.formula
print("after del Inner.formula: Outer[1].Inner.parameters =", Outer[1].Inner.parameters)
if Inner.parameters is not None or Outer[1].Inner.parameters is not None:
    print("stale after del formula"); ok = False
Inner.formula = lambda k: None           # from no formula
if Outer[1].Inner.parameters != ("k",) or Outer[1].Inner[4].foo() != 40:
    print("stale after setting a formula on a space without one"); ok = False

# an instance built from another space by a formula returning a base
m2 = mx.new_model("M60b")
Tmpl = m2.new_space("Tmpl")
TIn = Tmpl.new_space("In", formula=lambda k: None)
P = m2.new_space("P", formula=lambda a: {"base": Tmpl})
P.Tmpl = Tmpl
if P[1].In.parameters != ("k",):
    ok = False
TIn.formula = lambda k, z=0: None
if P[1].In.parameters != ("k", "z"):
    print("stale instance built from a base given by the formula:", P[1].In.parameters); ok = False

# controls
m3 = mx.new_model("M60c")
O = m3.new_space("O", formula=lambda a: None)
O.new_cells("bar", formula=lambda: a)
x = O[1]; x.bar()
O.formula = lambda a, b=0: None          # own formula: instances are discarded (as before)
if O[1, 2].bar() != 1 or O.parameters != ("a", "b"):
    print("control own formula wrong"); ok = False
Q = m3.new_space("Q", formula=lambda a: None)   # unrelated parametrised space keeps its instances
calls = []
Q.calls = calls
Q.new_cells("c", formula=lambda: calls.append(a) or a)
Q[5].c()
OIn = O.new_space("In", formula=lambda k: None)
OIn.formula = lambda k, e=1: None
Q[5].c()
if calls != [5]:
    print("control: unrelated instance was rebuilt", calls); ok = False
# creating spaces with a formula still works (the formula is not inherited)
D = m3.new_space("D", bases=O, formula=lambda a: None)
if D.parameters != ("a",) or D[1].bar() != 1:
    print("control derived wrong"); ok = False

print("PASS" if ok else "FAIL")
sys.exit(0 if ok else 1)
