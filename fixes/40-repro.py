import sys, os, tempfile, importlib, textwrap, inspect
import modelx as mx
m = mx.new_model(); s = m.new_space(); s.G = 7
ok = True

def check(label, fn):
    global ok
    try:
        r = fn()
        if r is not True:
            ok = False
            print("FAIL", label, "->", repr(r))
    except Exception as e:
        ok = False
        print("FAIL", label, "->", type(e).__name__, e)

moddir = tempfile.mkdtemp()
with open(os.path.join(moddir, "ded40mod.py"), "w") as f:
    f.write('''
if True:
    def f(x):
        a = 1
# note
        return x + a

class C:
    @staticmethod
    def g(x):
        a = 2
# note in class

  # another, indented less than the def
        return x + a + G

def outer():
    def h(x,
  y=1):
        b = (x,
  y)
#c
        return sum(b)
    return h

if True:
    # comment above, same indentation
    def plain(x):
        """doc"""
        # comment
        y = x    

        return y + G

def top(x):
    # c
    return x
''')
sys.path.insert(0, moddir)
mod = importlib.import_module("ded40mod")

def t1():
    c = s.new_cells("k1", formula=mod.f)
    return (c(2) == 3 and c.formula.source.startswith("def k1(x):\n    a = 1\n# note\n    return")) or c.formula.source
check("function object, def in if-block with column-0 comment", t1)

def t2():
    c = s.new_cells("k2", formula=inspect.getsource(mod.f))
    return (c(2) == 3) or c.formula.source
check("text, def in if-block with column-0 comment", t2)

def t3():
    c = s.new_cells("k3", formula=mod.C.g)
    return (c(2) == 11) or c.formula.source
check("static method with decorator, comments indented less", t3)

def t4():
    c = s.new_cells("k4", formula=mod.outer())
    return (c(2) == 3 and c(2, 5) == 7) or c.formula.source
check("nested function, bracket continuation lines indented less", t4)

def t5():
    # ordinary inputs: identical to the result of textwrap.dedent
    r = True
    for fn in (mod.plain, mod.top):
        src = inspect.getsource(fn)
        c = s.new_cells(formula=fn)
        exp = textwrap.dedent(src)
        if c.formula.source != exp:
            r = (c.formula.source, exp)
    return r
check("ordinary inputs byte-identical to textwrap.dedent", t5)

def t6():
    # source written to and read back from a model file
    p = os.path.join(tempfile.mkdtemp(), "m")
    m.write(p)
    m2 = mx.read_model(p, name="m40read")
    s2 = m2.spaces[s.name]
    return (s2.k1(2) == 3 and s2.k3(2) == 11 and s2.k4(2, 5) == 7
            and s2.k1.formula.source == s.k1.formula.source) or s2.k1.formula.source
check("write/read", t6)

def t7():
    # text with leading blank line and comment before an indented def
    c = s.new_cells("k7", formula="\n        # more indented comment\n    def k7(x):\n        return x\n# zero\n")
    d = s.new_cells("k8", formula="    lambda x: (x +\n G)")
    return (c(1) == 1 and d(1) == 8) or (c.formula.source, d.formula.source)
check("text variants", t7)

print("PASS" if ok else "FAIL")
sys.exit(0 if ok else 1)
