import sys
import modelx as mx
ok = True
def check(label, got, exp):
    global ok
    if got != exp:
        ok = False; print("FAIL %s: got %r expected %r" % (label, got, exp))

m = mx.new_model()
m.g = 1                                        # model-level reference
S = m.new_space("S")
Sub = m.new_space("Sub", bases=S)              # sub space gets derived refs of S
X = m.new_space("X")                           # reader lives in an unrelated space
X.new_cells("reader", formula=lambda: _model.S.g * 10)
X.new_cells("subreader", formula=lambda: _model.Sub.g * 10)
X.new_cells("top", formula=lambda: reader() + subreader())
check("initial", (X.reader(), X.subreader(), X.top()), (10, 10, 20))
S.g = 5                                        # shadows the model-level g in S and Sub
check("after shadowing", (X.reader(), X.subreader(), X.top()), (50, 50, 100))
S.g = 6                                        # plain change of the space-level ref
check("after change", (X.reader(), X.subreader(), X.top()), (60, 60, 120))
del S.g                                        # un-shadow: model-level g visible again
check("after deleting the shadowing ref", (X.reader(), X.subreader(), X.top()), (10, 10, 20))
m.g = 2
check("after changing the model-level ref", (X.reader(), X.subreader(), X.top()), (20, 20, 40))

# shadowing references that arrive by inheritance
m2 = mx.new_model()
m2.g = 1
S = m2.new_space("S"); S.g = 5
Sub = m2.new_space("Sub")
X = m2.new_space("X")
X.new_cells("subreader", formula=lambda: _model.Sub.g * 10)
check("inherit: initial", X.subreader(), 10)
Sub.add_bases(S)
check("inherit: after add_bases", X.subreader(), 50)
Sub.remove_bases(S)
check("inherit: after remove_bases", X.subreader(), 10)
m2._impl._check_sanity()
m._impl._check_sanity()
print("PASS" if ok else "FAIL"); sys.exit(0 if ok else 1)
