import sys
import modelx as mx
ok = True
def check(label, got, exp):
    global ok
    if got != exp:
        ok = False; print("FAIL %s: got %r expected %r" % (label, got, exp))

m = mx.new_model()
A1 = m.new_space("A1")
A2 = m.new_space("A2")
A2.new_cells("x", formula=lambda: 2)
D = m.new_space("D", bases=[A1, A2])          # MRO: D, A1, A2
DD = m.new_space("DD", bases=D)               # derives via D
O = m.new_space("O", bases=[A1, A2])
O.x.formula = lambda: 99                      # override stays
R = m.new_space("R", bases=[A2, A1])          # MRO: R, A2, A1 -> keeps A2's
check("before", [s.x() for s in (D, DD, O, R)], [2, 2, 99, 2])
A1.new_cells("x", formula=lambda: 1)
check("after A1.new_cells", [s.x() for s in (A1, A2, D, DD, O, R)], [1, 2, 1, 1, 99, 2])
check("bases of D.x", [b.parent.name for b in D.x._impl.bases], ["A1", "A2"])
check("flags", [s.x._is_derived() for s in (D, DD, O, R)], [True, True, False, True])
# consistent with what a fresh derivation gives
D3 = m.new_space("D3", bases=[A1, A2])
check("fresh sub", D3.x(), 1)
# later changes of A1.x reach D, changes of A2.x do not
A1.x.formula = lambda: 11
A2.x.formula = lambda: 22
check("follow A1", [s.x() for s in (D, DD, O, R)], [11, 11, 99, 22])
m._impl._check_sanity(); m.close()
print("PASS" if ok else "FAIL"); sys.exit(0 if ok else 1)
