import sys
import modelx as mx

fails = []

def build():
    m = mx.new_model()
    A = m.new_space('A'); A.new_cells('foo', formula=lambda i: 'A')
    B = m.new_space('B'); B.new_cells('foo', formula=lambda i: 'B')
    A.set_ref('r', A.foo, refmode='auto')
    B.set_ref('r', B.foo, refmode='absolute')
    return m, A, B

def mode(space, name='r'):
    return mx.get_object(space.fullname + '.' + name, as_proxy=True).refmode

# Variant 1: add B, remove A  -> D.r derives from B.r ('absolute')
m, A, B = build()
D = m.new_space('D', bases=A)
assert mode(D) == 'auto' and D.r is D.foo
D.add_bases(B)
D.remove_bases(A)
if mode(D) != 'absolute':
    fails.append("v1: derived refmode is %r, base's is 'absolute'" % mode(D))
if D.r is not B.foo:
    fails.append("v1: D.r is %r, expected absolute B.foo" % D.r)
m._impl._check_sanity()

# Variant 2: the other direction: 'absolute' first, then 'auto'
m, A, B = build()
D = m.new_space('D', bases=B)
assert mode(D) == 'absolute' and D.r is B.foo
D.add_bases(A)
D.remove_bases(B)
if mode(D) != 'auto':
    fails.append("v2: derived refmode is %r, base's is 'auto'" % mode(D))
if D.r is not D.foo:
    fails.append("v2: D.r is %r, expected relative D.foo" % D.r)

# Variant 3: deleting the preceding defining reference
m, A, B = build()
D = m.new_space('D', bases=[A, B])
assert mode(D) == 'auto' and D.r is D.foo
del A.r
if mode(D) != 'absolute':
    fails.append("v3: derived refmode is %r, base's is 'absolute'" % mode(D))
if D.r is not B.foo:
    fails.append("v3: D.r is %r, expected absolute B.foo" % D.r)

# Variant 4: sub of sub follows as well
m, A, B = build()
D = m.new_space('D', bases=[A, B])
E = m.new_space('E', bases=D)
del A.r
if mode(E) != 'absolute' or E.r is not B.foo:
    fails.append("v4: E.r mode %r value %r" % (mode(E), E.r))

# Variant 5: add_bases pre-check uses the mode of the base reference:
#            a 'relative' base reference out of scope is rejected by add_bases
#            before anything changes, also when the sub holds a derived
#            reference of another mode under that name
m = mx.new_model()
O = m.new_space('O'); O.new_cells('baz', formula=lambda i: 1)
A = m.new_space('A'); A.new_cells('foo', formula=lambda i: 'A')
A.set_ref('r', A.foo, refmode='auto')
X = m.new_space('X')
X.set_ref('r', O.baz, refmode='relative')   # cannot be relative in a sub
M = m.new_space('M'); M.new_cells('mm', formula=lambda i: 1)
D = m.new_space('D', bases=[M, A])
def snap():
    return [(s.name, list(s.cells), [k for k in s.refs if k == 'r'],
             [b.name for b in s.bases]) for s in (M, D)] + [D.r, mode(D)]
before = snap()
try:
    M.add_bases(X)      # D's MRO becomes D, M, X, A: X.r precedes A.r
    fails.append("v5: add_bases did not reject relative reference")
except ValueError:
    pass
if snap() != before:
    fails.append("v5: rejected add_bases changed spaces: %s -> %s" % (before, snap()))
m._impl._check_sanity()

# Variant 6: regression guard - defined ref in sub keeps its own mode
m, A, B = build()
D = m.new_space('D', bases=A)
D.set_ref('r', B.foo, refmode='absolute')
D.add_bases(B)
if mode(D) != 'absolute' or D.r is not B.foo:
    fails.append("v6: defined ref changed")
A.set_ref('r', A.foo, refmode='relative')
if mode(D) != 'absolute' or D.r is not B.foo:
    fails.append("v6: defined ref changed (2)")

if fails:
    print("FAIL")
    for f in fails:
        print("  ", f)
    sys.exit(1)
print("PASS")
