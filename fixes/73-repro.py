"""A model that was written cannot be read back.

B.o refers to the cells A.K.x; the model also has a model-level reference named K.  The
reader restores B.o from the path ("A", "K", "x") with getattr() steps
(System.get_object_from_idtuple); `A.K` by attribute access is the model-level reference
(it hides the child space in A's namespace), so the next step fails with
AttributeError: 'int' object has no attribute 'x'."""
import modelx as mx, tempfile, os
m = mx.new_model("M")
A = m.new_space("A"); K = A.new_space("K")
K.new_cells("x", formula=lambda: 1)
B = m.new_space("B")
B.o = K.x
m.K = 60
d = tempfile.mkdtemp()
mx.write_model(m, os.path.join(d, "m"))
m.close()
m2 = mx.read_model(os.path.join(d, "m"))
assert m2.B.o is m2.A.named_spaces["K"].x
print("ok")
