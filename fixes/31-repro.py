import modelx as mx, tempfile, os
ok = True
docs = ["plain", 'ends with a quote"', 'has \\ backslash and """ triple', "two lines\n    second", 'x""', '\\', 'a\\"b', "tab\tand 'single'"]
for fmt in ("dir", "zip"):
    for doc in docs:
        for m_ in list(mx.get_models().values()): m_.close()
        m = mx.new_model("M"); m.doc = doc; S = m.new_space("S"); S.doc = doc
        c = S.new_cells("f", "lambda x: x"); c.doc = doc
        p = os.path.join(tempfile.mkdtemp(), "m" + (".zip" if fmt == "zip" else ""))
        try:
            (m.zip if fmt == "zip" else m.write)(p); r = mx.read_model(p, name="R")
            if not (r.doc == doc and r.S.doc == doc and r.S.f.doc == doc):
                ok = False; print("DIFF", fmt, repr(doc), repr(r.doc), repr(r.S.doc), repr(r.S.f.doc))
        except Exception as e:
            ok = False; print("ERROR", fmt, repr(doc), type(e).__name__, e)
print("PASS" if ok else "FAIL"); raise SystemExit(0 if ok else 1)
