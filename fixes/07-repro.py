import sys
import modelx as mx
ok = True
def check(label, got, exp):
    global ok
    if got != exp:
        ok = False; print("FAIL %s: got %r expected %r" % (label, got, exp))

def val(s):
    return s.x()

# chain A <- B(overrides x) <- C(derives x from B), plus sibling S(A) after B
m = mx.new_model()
A = m.new_space("A")
A.new_cells("x", formula=lambda: 1)
B = m.new_space("B", bases=A)
B.x.formula = lambda: 2
C = m.new_space("C", bases=B)
S = m.new_space("S", bases=A)
check("before", [val(s) for s in (A, B, C, S)], [1, 2, 2, 1])
A.x.formula = lambda: 10
check("chain: formula", [val(s) for s in (A, B, C, S)], [10, 2, 2, 10])
check("chain: defined flags", [s.x._is_defined() for s in (A, B, C, S)], [True, True, False, False])
A.x.is_cached = False
check("chain: cached flag", [s.x.is_cached for s in (A, B, C, S)], [False, True, True, False])
B.x.formula = lambda: 20
check("chain: change override", [val(s) for s in (A, B, C, S)], [10, 20, 20, 10])
m._impl._check_sanity(); m.close()

# diamond: D(B, C2): B overrides x, C2 derives from A -> D.x follows B
m = mx.new_model()
A = m.new_space("A")
A.new_cells("x", formula=lambda: 1)
B = m.new_space("B", bases=A)
B.x.formula = lambda: 2
C2 = m.new_space("C2", bases=A)
D = m.new_space("D", bases=[B, C2])
D2 = m.new_space("D2", bases=[C2, B])
check("diamond before", [val(s) for s in (A, B, C2, D, D2)], [1, 2, 1, 2, 2])
A.x.formula = lambda: 10
check("diamond: formula", [val(s) for s in (A, B, C2, D, D2)], [10, 2, 10, 2, 2])
# setting the formula of a derived cells defines it and its subs follow it
C2.x.formula = lambda: 30
E = m.new_space("E", bases=C2)
A.x.formula = lambda: 11
check("define derived", [val(s) for s in (A, B, C2, D, D2, E)], [11, 2, 30, 2, 30, 30])
m._impl._check_sanity(); m.close()
# two levels of overrides: A <- B(override) <- C(override)
m = mx.new_model()
A = m.new_space("A")
A.new_cells("x", formula=lambda: 1)
B = m.new_space("B", bases=A)
B.x.formula = lambda: 2
C = m.new_space("C", bases=B)
C.x.formula = lambda: 3
A.x.formula = lambda: 10
check("double override", [val(s) for s in (A, B, C)], [10, 2, 3])
m._impl._check_sanity(); m.close()
print("PASS" if ok else "FAIL"); sys.exit(0 if ok else 1)
