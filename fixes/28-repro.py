import sys, os, tempfile
os.chdir(tempfile.mkdtemp())
import modelx as mx, pandas as pd
from modelx.core.system import mxsys

fails = []
def check(cond, msg):
    if not cond:
        fails.append(msg)

def in_ios(spec):
    return any(spec in io.specs.values() for io in mxsys.iomanager.ios.values())

def scenario(label, func):
    try:
        func()
    except Exception as e:
        import traceback; traceback.print_exc()
        fails.append("%s: unexpected %r" % (label, e))
    for m in list(mx.get_models().values()):
        try:
            m.close()
        except Exception as e:
            fails.append("%s: close raised %r" % (label, e))
            mxsys.models.pop(m.name, None)
    if len(mxsys.iomanager.ios):
        fails.append("%s: ios left after close: %r" % (label, list(mxsys.iomanager.ios)))
        mxsys.iomanager.ios.clear(); mxsys.iomanager.ios.inverse.clear()

def basic():
    m = mx.new_model(); A = m.new_space('A')
    df = pd.DataFrame({'a': [1, 2]})
    A.new_pandas('x', 'a.csv', df, file_type='csv')
    spec = m.get_spec(df)
    del m.A
    check(m.iospecs == [], "basic: m.iospecs still %r" % m.iospecs)
    check(not in_ios(spec), "basic: spec still in iomanager.ios")
    check(id(df) not in m._impl.refmgr._valid_to_refs, "basic: df still registered")
    try:
        m.update_pandas(df)
    except ValueError:
        pass        # value not referenced
    except Exception as e:
        check(False, "basic: update_pandas raised %r" % e)
    else:
        check(False, "basic: update_pandas of unreferenced value accepted")
    # path is free again
    B = m.new_space('B')
    B.new_pandas('x', 'a.csv', df, file_type='csv')
    check(len(m.iospecs) == 1, "basic: cannot reuse path/value")
    m._impl.refmgr._check_sanity()

def nested_and_shared():
    m = mx.new_model(); A = m.new_space('A'); C = A.new_space('C'); D = C.new_space('D')
    K = m.new_space('K')
    df = pd.DataFrame({'a': [1, 2]}); df2 = pd.DataFrame({'a': [3]}); df3 = pd.DataFrame({'a': [4]})
    A.new_pandas('x', 'a.csv', df, file_type='csv')
    D.new_pandas('y', 'b.csv', df2, file_type='csv')     # in grand child
    C.new_pandas('z', 'c.csv', df3, file_type='csv')
    K.z = df3                                              # df3 also bound outside of A
    m.w = df2; del m.w
    A.p = 1; C.q = "s"; D.r = [1, 2]                       # values without spec
    plain = D.r
    s1, s2, s3 = m.get_spec(df), m.get_spec(df2), m.get_spec(df3)
    del m.A
    check(m.iospecs == [s3], "nested: m.iospecs is %r" % m.iospecs)
    check(not in_ios(s1) and not in_ios(s2) and in_ios(s3), "nested: ios wrong %r" % list(mxsys.iomanager.ios))
    reg = m._impl.refmgr._valid_to_refs
    check(set(reg) == {id(df3)}, "nested: registered values %r" % [r[0].name for r in reg.values()])
    check([r.name for r in reg.get(id(df3), [])] == ['z']
          and reg[id(df3)][0].parent is K._impl, "nested: df3 refs wrong")
    m.update_pandas(df3)       # still works for the remaining ref
    del K.z
    check(m.iospecs == [], "nested: spec left after last ref deleted")
    m._impl.refmgr._check_sanity()

def child_space_and_inheritance():
    m = mx.new_model(); A = m.new_space('A'); C = A.new_space('C')
    S = m.new_space('S', bases=A)                          # S.x derived
    df = pd.DataFrame({'a': [1, 2]}); df2 = pd.DataFrame({'a': [3]})
    A.new_pandas('x', 'a.csv', df, file_type='csv')
    C.new_pandas('y', 'b.csv', df2, file_type='csv')
    check(S.x is df, "inherit: derived ref missing")
    s1, s2 = m.get_spec(df), m.get_spec(df2)
    del A.C                                                # via UserSpace.__delattr__
    check(m.iospecs == [s1], "inherit: after del A.C iospecs %r" % m.iospecs)
    check(S.x is df, "inherit: S.x lost")
    del m.spaces['A']                                      # via SpaceView.__delitem__
    check(m.iospecs == [], "inherit: after del A iospecs %r" % m.iospecs)
    check('x' not in S.refs, "inherit: S.x still exists")
    m._impl._check_sanity()

def sub_keeps_own_definition():
    m = mx.new_model(); A = m.new_space('A'); S = m.new_space('S', bases=A)
    df = pd.DataFrame({'a': [1, 2]})
    A.new_pandas('x', 'a.csv', df, file_type='csv')
    S.x = df                                               # overridden in sub with same value
    spec = m.get_spec(df)
    del m.A
    check(m.iospecs == [spec] and S.x is df, "override: spec lost though S.x bound")
    del m.S
    check(m.iospecs == [], "override: spec left")

scenario("basic", basic)
scenario("nested", nested_and_shared)
scenario("inherit", child_space_and_inheritance)
scenario("override", sub_keeps_own_definition)

if fails:
    print("FAIL"); [print("  -", f) for f in fails]; sys.exit(1)
print("PASS")
