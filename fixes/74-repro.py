"""An instance of a parametrised space stays as it was when its child's base space gains a base.

g is a model-level reference; B.g = 4 shadows it.  P has the child space P.C whose cells z
reads g.  P[1] exists.  P.C.add_bases(B) gives P.C the derived reference g = 4 -- but
P[1].C (a copy made before) keeps reading the model-level g."""
import modelx as mx
m = mx.new_model()
m.g = 70
B = m.new_space("B"); B.g = 4
P = m.new_space("P", formula=lambda i: None)
C = P.new_space("C")
C.new_cells("z", formula=lambda: g)
assert P[1].C.z() == 70
C.add_bases(B)
assert C.z() == 4
print(P[1].C.z())
assert P[1].C.z() == 4, "the instance still sees the model-level g"
print("ok")
