import modelx as mx
m = mx.new_model("M"); P = m.new_space("P", formula="lambda p: None"); C = P.new_space("C")
C.new_cells("z", "lambda: p"); P.new_cells("x", "lambda: p")
assert P[1].C.z() == 1 and P[1].x() == 1
hz, hx, hi = P[1].C.z, P[1].x, P[1]
del C.z
ok = "z" not in P[1].C.cells
del P.x
ok = ok and "x" not in P[1].cells
for h in (hz, hx):
    try:
        h(); ok = False
    except mx.core.errors.DeletedObjectError:
        pass
# sub space deriving from P: deleting the base cells also refreshes instances of the sub
B = m.new_space("B"); B.new_cells("y", "lambda: 7"); Q = m.new_space("Q", bases=B, formula="lambda q: None")
assert Q[1].y() == 7
del B.y
ok = ok and "y" not in Q[1].cells
print("PASS" if ok else "FAIL"); raise SystemExit(0 if ok else 1)
