# C14 repro 2: archive_dir() lists the IO-file directory with os.walk, which ignores listing
# errors: Model.zip() returns normally, the archive lacks the pandas file and cannot be read.
import sys, os, tempfile, modelx as mx, pandas as pd
st = {"on": False}
def hook(ev, args):
    if st["on"] and ev == "os.scandir" and "_temp" in str(args[0]):
        st["on"] = False; raise OSError(5, "injected transient I/O error")
sys.addaudithook(hook)
d = tempfile.mkdtemp(); p = os.path.join(d, "m.zip")
m = mx.new_model("M"); s = m.new_space("S")
s.new_pandas("df", "files/df.csv", pd.DataFrame({"u": [1, 2]}), file_type="csv")
st["on"] = True; m.zip(p)                    # returns WITHOUT raising
import zipfile; print("entries:", zipfile.ZipFile(p).namelist())
try: mx.read_model(p, name="R")
except Exception as e: print("read_model fails:", type(e).__name__, e)
