import modelx as mx
m = mx.new_model()
E = m.new_space("E", refs={"r": 2})      # a reference given at creation
ok = True
try:
    del E.r
    print("del E.r ok; 'r' in E.refs:", "r" in E.refs); ok = "r" not in E.refs
except Exception as e:
    print("del E.r raised", type(e).__name__, e, "; 'r' still there:", "r" in E.refs, "-> FAIL"); ok = False
F = m.new_space("F", refs={"r": 2})
try:
    F.r = 3                               # re-assignment of such a reference
    print("F.r = 3 ok:", F.r); ok = ok and F.r == 3
except Exception as e:
    print("F.r = 3 raised", type(e).__name__, e, "-> FAIL"); ok = False
import modelx.core.system as s_
try:
    s_.mxsys._check_sanity(); print("self-check ok")
except Exception as e:
    print("self-check failed:", type(e).__name__, "-> FAIL"); ok = False
print("PASS" if ok else "FAIL"); raise SystemExit(0 if ok else 1)
