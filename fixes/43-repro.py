import sys
import modelx as mx
from modelx.core.formula import replace_docstring
m = mx.new_model(); s = m.new_space(); s.G = 7
ok = True

DOCS = [
    'say "hi"',
    'tri"""ple',
    'back\\nslash',
    'trailing backslash\\',
    'quote then backslash "\\',
    '""""""',
    '"',
    '\\"',
    '\\"""',
    'a\\\\b',
    "single ''' quotes '",
    'multi\n    line "quoted"\n    end"',
    'tab\there \\t literal',
    '\\N{DASH} \\x41 \\u0041 \\101',
    'unicode é あ',
    'plain',
    '',
]

SRCS = {
    "block": "def %s(x):\n    return x + G\n",
    "blockdoc": 'def %s(x):\n    """old"""\n    return x + G\n',
    "oneline_doc": 'def %s(x): """old"""; return x + G\n',
}

n = 0
for kind, tmpl in SRCS.items():
    for doc in DOCS:
        n += 1
        name = "c%d" % n
        try:
            c = s.new_cells(name, formula=tmpl % name)
            c.doc = doc
            got = c.doc
            if got != doc or c(1) != 8:
                ok = False
                print("FAIL", kind, repr(doc), "-> read back", repr(got))
                continue
            # second assignment replaces the docstring written by the first
            c.doc = doc + " again"
            c.doc = doc
            if c.doc != doc or c(1) != 8:
                ok = False
                print("FAIL(2nd)", kind, repr(doc), "->", repr(c.doc))
        except Exception as e:
            ok = False
            print("FAIL", kind, repr(doc), "->", type(e).__name__, e)

# insert_indents=True still indents continuation lines, with escaping
try:
    c = s.new_cells("ind", formula="def ind(x):\n    return x\n")
    c.set_doc('first "a"\nsecond \\n b\nthird"', insert_indents=True)
    exp = 'first "a"\n    second \\n b\n    third"'
    if c.doc != exp:
        ok = False
        print("FAIL insert_indents ->", repr(c.doc))
except Exception as e:
    ok = False
    print("FAIL insert_indents ->", type(e).__name__, e)

# Formula source round trip: recreate cells from the source
try:
    c = s.new_cells("rt", formula="def rt(x):\n    return x\n")
    c.doc = 'x\\ty "q"'
    c2 = s.new_cells("rt2", formula=c.formula.source)
    if c2.doc != 'x\\ty "q"':
        ok = False
        print("FAIL source round trip ->", repr(c2.doc))
except Exception as e:
    ok = False
    print("FAIL source round trip ->", type(e).__name__, e)

print("PASS" if ok else "FAIL")
sys.exit(0 if ok else 1)
