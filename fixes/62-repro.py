"""62: instances of a deleted parametrised space keep evaluating."""
import sys
import modelx as mx
from modelx.core.errors import DeletedObjectError
print(mx.__file__)
ok = True

def is_dead(what, func):
    global ok
    try:
        v = func()
        print(what, "still evaluates ->", v)
        ok = False
    except DeletedObjectError as e:
        print(what, "raises DeletedObjectError")

m = mx.new_model("M62")
Outer = m.new_space("Outer", formula=lambda a: None)
Outer.new_cells("foo", formula=lambda x: x * a)
Child = Outer.new_space("Child", formula=lambda k: None)
Child.new_cells("bar", formula=lambda: a + k)
inst = Outer[1]
inst2 = Outer[2]
nested = inst.Child[5]
foo1 = inst.foo
if (inst.foo(1), inst2.foo(1), nested.bar()) != (1, 2, 6):
    print("setup wrong"); ok = False

del m.Outer
is_dead("Outer.foo(1)", lambda: Outer.foo(1))          # control: the space itself
is_dead("inst.foo(1)", lambda: inst.foo(1))
is_dead("inst.foo(3) (not yet calculated)", lambda: inst.foo(3))
is_dead("inst2.foo", lambda: inst2.foo(1))
is_dead("cells handle foo1(1)", lambda: foo1(1))
is_dead("nested.bar()", lambda: nested.bar())
is_dead("inst.Child", lambda: inst.Child[5].bar())

# deleting a parametrised child space
m2 = mx.new_model("M62b")
P = m2.new_space("P")
C = P.new_space("C", formula=lambda k: None)
C.new_cells("bar", formula=lambda: k)
ci = C[3]
ci.bar()
del P.C
is_dead("ci.bar() after del P.C", lambda: ci.bar())

# deleting the parent deletes the parametrised child with its instances
m3 = mx.new_model("M62c")
P = m3.new_space("P")
C = P.new_space("C", formula=lambda k: None)
C.new_cells("bar", formula=lambda: k)
ci = C[3]
ci.bar()
del m3.P
is_dead("ci.bar() after del of the parent of C", lambda: ci.bar())

# a cached value that was computed from an instance is discarded
m4 = mx.new_model("M62d")
O = m4.new_space("O", formula=lambda a: None)
O.new_cells("foo", formula=lambda: a)
R = m4.new_space("R")
R.O = O
R.new_cells("read", formula=lambda: O[1].foo())
if R.read() != 1:
    ok = False
del m4.O
try:
    v = R.read()
    print("R.read() after del m.O still gives", v); ok = False
except Exception as e:
    print("R.read() after del m.O raises", type(e).__name__)

# controls: another parametrised space is untouched; same name re-created works fresh
m5 = mx.new_model("M62e")
A = m5.new_space("A", formula=lambda a: None)
A.new_cells("foo", formula=lambda: a)
B = m5.new_space("B", formula=lambda a: None)
B.new_cells("foo", formula=lambda: a * 2)
ai, bi = A[1], B[1]
ai.foo(); bi.foo()
del m5.A
if bi.foo() != 2 or not bi._is_valid() or B[1] is not bi:
    print("control: unrelated instance harmed"); ok = False
A2 = m5.new_space("A", formula=lambda a: None)
A2.new_cells("foo", formula=lambda: a * 3)
if A2[1].foo() != 3:
    print("control: re-created space wrong"); ok = False
is_dead("old instance after re-creating A", lambda: ai.foo())

print("PASS" if ok else "FAIL")
sys.exit(0 if ok else 1)
