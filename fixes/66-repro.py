import modelx as mx
m = mx.new_model()
C = m.new_space("C"); C.r = 5
C.new_cells("y", formula="lambda i: 10 + r + i")
D = m.new_space("D", bases=C)
assert D.y(3) == 18 and dict(D.y) == {3: 18}
ok = True
try:
    del D.r                       # D.r is derived: must be refused ...
    print("del D.r accepted -> FAIL"); ok = False
except (ValueError, KeyError) as e:
    print("del D.r refused:", type(e).__name__, e)
print("values of D.y after the refused deletion:", dict(D.y))
ok = ok and dict(D.y) == {3: 18} and D.r == 5     # ... and must leave everything as it was
del C.r                            # the defined one can be deleted
ok = ok and "r" not in D.refs
print("PASS" if ok else "FAIL"); raise SystemExit(0 if ok else 1)
