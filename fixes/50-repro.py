import modelx as mx
ok = True
for how in ("remove_bases", "del_cells"):
    m = mx.new_model()
    B = m.new_space("B"); B.new_cells("x", formula="lambda i: 300 + i")
    P = m.new_space("P", bases=B) if how == "remove_bases" else m.new_space("P")
    if how == "del_cells":
        P.new_cells("x", formula="lambda i: 300 + i")
    C = P.new_space("C")
    C.oc = P.x                     # a reference to a cells of the parent space
    C.new_cells("z", formula="lambda k: 10 + oc(k)")
    assert C.z(1) == 311
    if how == "remove_bases":
        P.remove_bases(B)          # P.x (derived) disappears
    else:
        del P.x
    try:
        v = C.z(2)
        print(how, ": z(2) =", v, "-> FAIL (a deleted cells was evaluated inside a formula)"); ok = False
    except Exception:
        print(how, ":", type(mx.get_error()).__name__, "-> ok")
    m.close()
print("PASS" if ok else "FAIL"); raise SystemExit(0 if ok else 1)
