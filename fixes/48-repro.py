import modelx as mx
m = mx.new_model()
D = m.new_space("D"); C = m.new_space("C", bases=D); E = m.new_space("E", bases=C)
C.new_cells("z", formula="lambda i: 3 + i")
D.g = 2
E.z[1] = 500                 # input in a derived cells of E
C.z[2] = 600                 # input in the defined cells
print("before:", dict(E.z), dict(C.z))
del D.g                      # reference of a base space deleted
print("after del D.g:", dict(E.z), dict(C.z))
ok = dict(E.z) == {1: 500} and dict(C.z) == {2: 600}
D.h = 1
D.h = 2                      # reference of a base changed
print("after D.h change:", dict(E.z), dict(C.z))
ok = ok and dict(E.z) == {1: 500} and dict(C.z) == {2: 600}
print("PASS" if ok else "FAIL"); raise SystemExit(0 if ok else 1)
