import sys, os, tempfile
os.chdir(tempfile.mkdtemp())
import modelx as mx, pandas as pd
from modelx.core.system import mxsys

fails = []
def check(cond, msg):
    if not cond:
        fails.append(msg)

def nspecs():
    return sum(len(io.specs) for io in mxsys.iomanager.ios.values())

def main():
    m = mx.new_model(); A = m.new_space('A'); B = m.new_space('B')
    df = pd.DataFrame({'a': [1, 2]}); df2 = pd.DataFrame({'a': [3]})

    A.new_pandas('x', 'a.csv', df, file_type='csv')
    spec = m.get_spec(df)

    # second spec for the same value: same space, other space, model level
    for parent, label in ((A, 'A'), (B, 'B'), (m, 'model')):
        try:
            parent.new_pandas('y', 'b.csv', df, file_type='csv')
        except ValueError:
            pass
        except Exception as e:
            check(False, "%s: second new_pandas raised %r instead of ValueError" % (label, e))
        else:
            check(False, "%s: second new_pandas for a value that has a spec was accepted" % label)
        check('y' not in parent.refs, "%s: reference y was created" % label)
        check(nspecs() == 1 and list(mxsys.iomanager.ios) == [(m, __import__('pathlib').Path('a.csv'))],
              "%s: iomanager.ios changed: %r" % (label, list(mxsys.iomanager.ios)))
        if 'y' in parent.refs:
            delattr(parent, 'y')
    check(m.iospecs == [spec], "m.iospecs is %r" % m.iospecs)

    # plain assignment of the value to other names keeps working
    A.y = A.x
    B.z = df
    check(A.y is df and B.z is df, "plain assignment failed")
    check(m.iospecs == [spec], "m.iospecs after assignment is %r" % m.iospecs)

    # another value / another model are unaffected
    A.new_pandas('w', 'b.csv', df2, file_type='csv')
    check(len(m.iospecs) == 2, "new_pandas of another value rejected")
    m2 = mx.new_model(); m2.new_pandas('x', 'a.csv', df, file_type='csv')
    check(len(m2.iospecs) == 1 and m2.get_spec(df) is not spec, "other model cannot create its own spec")
    m2.close()

    # deleting every name releases everything
    del A.x; del A.y
    check(m.iospecs != [] and spec in m.iospecs, "spec released while B.z is bound")
    del B.z; del A.w
    check(m.iospecs == [], "specs left: %r" % m.iospecs)
    check(len(mxsys.iomanager.ios) == 0, "ios left: %r" % list(mxsys.iomanager.ios))

    # after the spec is gone the value can get a new spec
    A.new_pandas('x', 'c.csv', df, file_type='csv')
    check(len(m.iospecs) == 1, "cannot create spec after previous one was released")
    m._impl.refmgr._check_sanity()
    m.close()
    check(len(mxsys.iomanager.ios) == 0, "ios left after close: %r" % list(mxsys.iomanager.ios))



try:
    main()
except Exception as e:
    import traceback; traceback.print_exc()
    fails.append("unexpected %r" % e)

if fails:
    print("FAIL"); [print("  -", f) for f in fails]; sys.exit(1)
print("PASS")
