import modelx as mx
def build():
    m = mx.new_model()
    S = m.new_space("S"); T = m.new_space("T")
    T.new_cells("a", formula="lambda i: 3")
    T.a.is_cached = False
    S.new_cells("b", formula="lambda i: 10 + _model.T.a(i)")
    return m, S, T
ok = True
m, S, T = build()
assert S.b(0) == 13
del m.T
try:
    v = S.b(0); print("after del: b(0) =", v, "-> FAIL (stale: T.a no longer exists)"); ok = False
except Exception as e:
    print("after del:", type(mx.get_error()).__name__, "-> ok")
m.close()
m, S, T = build()
assert S.b(0) == 13
T.rename("X")
try:
    v = S.b(0); print("after rename: b(0) =", v, "-> FAIL (stale)"); ok = False
except Exception as e:
    print("after rename:", type(mx.get_error()).__name__, "-> ok")
print("PASS" if ok else "FAIL"); raise SystemExit(0 if ok else 1)
