import sys
import modelx as mx

fails = []
BAD = "def f(:"

def state(*spaces):
    out = []
    for s in spaces:
        for n, c in s.cells.items():
            out.append((s.fullname, n, c._is_derived(), c.formula.source, id(c._impl)))
    return out

# Variant 1: malformed formula on a DERIVED cells
m = mx.new_model()
B = m.new_space('B')
B.new_cells('y', formula=lambda i: 10 * i)
D = m.new_space('D', bases=B)
assert D.y._is_derived()
assert D.y(2) == 20
before = state(B, D)
try:
    D.y.formula = BAD
    fails.append("v1: no error for malformed source")
except (SyntaxError, ValueError):
    pass
if state(B, D) != before:
    fails.append("v1: state changed: %s -> %s" % (before, state(B, D)))
if not D.y._is_derived():
    fails.append("v1: derived cells became defined after rejected edit")
if 2 not in D.y:
    fails.append("v1: values cleared by rejected edit")
# still follows base
B.y.formula = lambda i: 3 * i
if D.y(2) != 6:
    fails.append("v1: D.y no longer follows base: %s" % D.y(2))

# Variant 2: malformed formula on a defined base cells with subs
m2 = mx.new_model()
B2 = m2.new_space('B')
B2.new_cells('y', formula=lambda i: 10 * i)
D2 = m2.new_space('D', bases=B2)
E2 = m2.new_space('E', bases=D2)
B2.y(1); D2.y(1); E2.y(1)
before = state(B2, D2, E2)
try:
    B2.y.formula = BAD
    fails.append("v2: no error for malformed source")
except (SyntaxError, ValueError):
    pass
if state(B2, D2, E2) != before:
    fails.append("v2: state changed")
if not (1 in B2.y and 1 in D2.y and 1 in E2.y):
    fails.append("v2: values cleared by rejected edit")

# Variant 3: other invalid sources ("neither def nor lambda")
try:
    D2.y.formula = "1 + 1"
    fails.append("v3: no error")
except (SyntaxError, ValueError):
    pass
if not D2.y._is_derived() or state(B2, D2, E2) != before:
    fails.append("v3: state changed")

# Variant 4 (regression guard): valid assignments still work & propagate
D2.y.formula = "lambda i: i + 1"
if D2.y._is_derived() or D2.y(1) != 2 or E2.y(1) != 2 or B2.y(1) != 10:
    fails.append("v4: valid assignment on derived broken")
if not E2.y._is_derived():
    fails.append("v4: E.y should remain derived")
def y(i):
    return 7 * i
B2.y.formula = y
if B2.y(1) != 7 or D2.y(1) != 2:
    fails.append("v4: valid function assignment broken")
B2.y.formula = D2.y.formula     # Formula instance
if B2.y(1) != 2:
    fails.append("v4: Formula instance assignment broken")
del D2.y.formula
try:
    ok = D2.y.formula.source == "lambda: None"
except Exception:
    ok = False
if not ok:
    fails.append("v4: del formula broken")

if fails:
    print("FAIL")
    for f in fails:
        print("  ", f)
    sys.exit(1)
print("PASS")
