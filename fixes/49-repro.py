import modelx as mx
m = mx.new_model()
R = m.new_space("R"); R.s = 6
R.new_cells("z", formula="lambda i: 3 + s")
P = m.new_space("P", formula=lambda p: None)
Q = P.new_space("Q", formula=lambda q: {"base": _model.R})
ok = True
assert P[2].Q[2].z(0) == 9
del R.s                          # the base of P[2].Q[2] loses the name `s`
try:
    v = P[2].Q[2].z(1); print("after del R.s: z(1) =", v, "-> FAIL (instance still sees `s`)"); ok = False
except Exception:
    print("after del R.s:", type(mx.get_error()).__name__, "-> ok")
R.s = 1
v = P[2].Q[2].z(1); print("after R.s = 1: z(1) =", v); ok = ok and v == 4
R.t = 7                           # a NEW reference in the base
R.z.formula = "lambda i: 3 + s + t"
v = P[2].Q[2].z(1); print("after new R.t and formula: z(1) =", v); ok = ok and v == 11
print("PASS" if ok else "FAIL"); raise SystemExit(0 if ok else 1)
