import sys
import modelx as mx
from modelx.core.errors import DeletedObjectError

fails = []

def build():
    m = mx.new_model()
    A = m.new_space('A')
    A.new_cells('x', formula=lambda i: 1)
    K = A.new_space('K')
    K.new_cells('k', formula=lambda i: 2)
    K.add_bases(A)          # child derives from its own parent
    return m, A, K

# Variant 1: delete a parent whose child has the parent as base
m, A, K = build()
assert 'x' in K.cells and K.x._is_derived()
try:
    del m.A
except Exception as e:
    fails.append("v1: del m.A raised %s: %s" % (type(e).__name__, e))
if 'A' in m.spaces:
    fails.append("v1: A still in m.spaces")
try:
    m._impl._check_sanity()
except Exception as e:
    fails.append("v1: model insane after deletion: %s %s" % (type(e).__name__, e))
for obj in (A, K):
    if obj._is_valid():
        fails.append("v1: %r still valid" % obj)

# Variant 2: a space elsewhere derives from the removed CHILD A.K
m, A, K = build()
E = m.new_space('E', bases=K)
assert set(E.cells) == {'k', 'x'}, set(E.cells)
hk, hx = E.k, E.x
try:
    del m.A
except Exception as e:
    fails.append("v2: del m.A raised %s: %s" % (type(e).__name__, e))
if 'A' in m.spaces:
    fails.append("v2: A still in m.spaces")
if set(E.cells):
    fails.append("v2: E keeps derived members of deleted bases: %s" % set(E.cells))
for h in (hk, hx):
    if h._is_valid():
        fails.append("v2: old derived handle still valid")
if E.bases:
    fails.append("v2: E still has bases %s" % E.bases)
try:
    m._impl._check_sanity()
except Exception as e:
    fails.append("v2: model insane after deletion: %s %s" % (type(e).__name__, e))

# Variant 3: a space elsewhere derives from the parent A only (regression guard)
m, A, K = build()
F = m.new_space('F', bases=A)
assert set(F.cells) == {'x'}
try:
    del m.A
except Exception as e:
    fails.append("v3: del m.A raised %s: %s" % (type(e).__name__, e))
if set(F.cells):
    fails.append("v3: F keeps derived members: %s" % set(F.cells))

# Variant 4: deleting only the child keeps the parent intact
m, A, K = build()
E = m.new_space('E', bases=K)
try:
    del A.K
except Exception as e:
    fails.append("v4: del A.K raised %s: %s" % (type(e).__name__, e))
if 'K' in A.spaces or set(A.cells) != {'x'} or set(E.cells):
    fails.append("v4: wrong state after del A.K")

# Variant 5: a space elsewhere derives from a removed child that does NOT
# derive from its parent (reachable only from the child, not from A)
m, A, K = build()
J = A.new_space('J')
J.new_cells('j', formula=lambda i: 3)
J.rj = 1
G = m.new_space('G', bases=J)
assert set(G.cells) == {'j'} and 'rj' in G.refs
hj = G.j
try:
    del m.A
except Exception as e:
    fails.append("v5: del m.A raised %s: %s" % (type(e).__name__, e))
if set(G.cells) or 'rj' in G.refs:
    fails.append("v5: G keeps derived members of deleted base: %s" % set(G.cells))
if hj._is_valid():
    fails.append("v5: old derived handle still valid")
if G.bases:
    fails.append("v5: G still has bases %s" % G.bases)
try:
    m._impl._check_sanity()
except Exception as e:
    fails.append("v5: model insane after deletion: %s %s" % (type(e).__name__, e))

if fails:
    print("FAIL")
    for f in fails:
        print("  ", f)
    sys.exit(1)
print("PASS")
