import modelx as mx
m = mx.new_model()
P = m.new_space("P", formula=lambda p: None)
C = P.new_space("C"); C.new_cells("c", formula="lambda: 10 * p")
Q = P.new_space("Q", formula=lambda q: None)
Q.set_ref("o", C, "auto")                 # a sibling inside P's tree
Q.new_cells("z", formula="lambda: o.c() + q")
ok = True
inner = P[1].Q                            # dynamic child: o is rebound into P[1]
print("P[1].Q.o is P[1].C:", inner.o is P[1].C, " z() =", inner[2].z() if False else None)
v1 = None
try:
    nested = P[1].Q[2]
    same = nested.o is P[1].C
    v = nested.z()
    print("P[1].Q[2].o is P[1].C:", same, " z() =", v)
    ok = same and v == 12
except Exception as e:
    print("P[1].Q[2].z() raised", type(mx.get_error() or e).__name__, "-> FAIL"); ok = False
# a target whose name merely starts with the name of the parametrised space is OUTSIDE its tree
m2 = mx.new_model()
P = m2.new_space("P", formula=lambda p: None)
P2 = m2.new_space("P2"); P2.new_cells("k", formula="lambda: 5")
P.set_ref("o", P2, "auto")
P.new_cells("z", formula="lambda: o.k() + p")
try:
    v = P[1].z(); print("P -> P2 (outside):", v, P[1].o is P2); ok = ok and v == 6 and P[1].o is P2
except Exception as e:
    print("P -> P2 raised", type(mx.get_error() or e).__name__, "-> FAIL"); ok = False
print("PASS" if ok else "FAIL"); raise SystemExit(0 if ok else 1)
