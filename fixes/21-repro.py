import sys, itertools
import modelx as mx

fails = []

def check(m, tag):
    try:
        m._impl._check_sanity()
    except Exception as e:
        fails.append("%s: model insane: %s %s" % (tag, type(e).__name__, e))

def members(*spaces):
    return {s.name: (list(s.cells), sorted(k for k in s.refs if k == 'r'))
            for s in spaces}

# Variant 1: del m.A with edges A->B, A->C, B->C
m = mx.new_model()
A = m.new_space('A'); A.new_cells('x', formula=lambda i: 1); A.r = 1
B = m.new_space('B', bases=A)
C = m.new_space('C', bases=[B, A])
hb, hc = B.x, C.x
try:
    del m.A
except Exception as e:
    fails.append("v1: del m.A raised %s: %s" % (type(e).__name__, e))
if 'A' in m.spaces:
    fails.append("v1: A still in m.spaces")
if members(B, C) != {'B': ([], []), 'C': ([], [])}:
    fails.append("v1: B, C keep members: %s" % members(B, C))
if hb._is_valid() or hc._is_valid():
    fails.append("v1: old derived handles still valid")
check(m, "v1")

# Variant 2: remove_bases, every creation order of the three edges
def build(order):
    m = mx.new_model()
    A = m.new_space('A'); A.new_cells('x', formula=lambda i: 1); A.r = 1
    Z = m.new_space('Z')      # A's base: removing it must not matter
    B = m.new_space('B'); C = m.new_space('C')
    edges = {'AB': (B, A), 'AC': (C, A), 'BC': (C, B)}
    for e in order:
        sub, base = edges[e]
        if e == 'AC' and 'BC' not in order[:order.index(e)]:
            # C(A) first, then B must be put before A: C(B, A)
            sub.add_bases(base)
        elif e == 'BC' and 'AC' in order[:order.index(e)]:
            sub.remove_bases(A); sub.add_bases(base); sub.add_bases(A)
        else:
            sub.add_bases(base)
    return m, A, B, C

for order in itertools.permutations(['AB', 'AC', 'BC']):
    tag = "v2[%s]" % ",".join(order)
    # B.remove_bases(A): B loses x; C(B, A) keeps x from A
    try:
        m, A, B, C = build(order)
    except Exception as e:
        fails.append("%s: build raised %s: %s" % (tag, type(e).__name__, e))
        continue
    assert members(B, C) == {'B': (['x'], ['r']), 'C': (['x'], ['r'])}, members(B, C)
    try:
        B.remove_bases(A)
    except Exception as e:
        fails.append("%s: B.remove_bases(A) raised %s: %s" % (tag, type(e).__name__, e))
    if members(B, C) != {'B': ([], []), 'C': (['x'], ['r'])}:
        fails.append("%s: after B.remove_bases(A): %s" % (tag, members(B, C)))
    check(m, tag)
    # then C.remove_bases(A): nobody has x
    try:
        C.remove_bases(A)
    except Exception as e:
        fails.append("%s: C.remove_bases(A) raised %s: %s" % (tag, type(e).__name__, e))
    if members(B, C) != {'B': ([], []), 'C': ([], [])}:
        fails.append("%s: after C.remove_bases(A): %s" % (tag, members(B, C)))
    check(m, tag)

    # del A for every creation order
    m, A, B, C = build(order)
    try:
        del m.A
    except Exception as e:
        fails.append("%s: del m.A raised %s: %s" % (tag, type(e).__name__, e))
    if 'A' in m.spaces or members(B, C) != {'B': ([], []), 'C': ([], [])}:
        fails.append("%s: after del m.A: %s" % (tag, members(B, C)))
    check(m, tag)

# Variant 3: A(P): removing A's base P; subs B(A), C(B, A) lose P's members
for order in itertools.permutations(['AB', 'AC', 'BC']):
    tag = "v3[%s]" % ",".join(order)
    m, A, B, C = build(order)
    P = m.new_space('P'); P.new_cells('p', formula=lambda i: 2); P.q = 3
    A.add_bases(P)
    assert list(C.cells) == ['x', 'p'] or set(C.cells) == {'x', 'p'}
    try:
        A.remove_bases(P)
    except Exception as e:
        fails.append("%s: A.remove_bases(P) raised %s: %s" % (tag, type(e).__name__, e))
    if [list(s.cells) for s in (A, B, C)] != [['x']] * 3 or any(
            'q' in s.refs for s in (A, B, C)):
        fails.append("%s: after A.remove_bases(P): %s" % (
            tag, [list(s.cells) for s in (A, B, C)]))
    check(m, tag)

if fails:
    print("FAIL")
    for f in fails:
        print("  ", f)
    sys.exit(1)
print("PASS")
