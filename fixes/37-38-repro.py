import modelx as mx, tempfile, sys, os, importlib
ok = True
d = tempfile.mkdtemp(); sys.path.insert(0, d)
m = mx.new_model("R1"); s = m.new_space("S"); s.r = 3
s.new_cells("bar", "lambda i: i*2")
s.new_cells("foo", "def foo(x):\n    g = lambda t: t + 1\n    return sum([g(bar(i)) for i in range(x)])")
s.new_cells("baz", "lambda x: (r) + x")
s.new_cells("qux", "def qux(x):\n    def h(t):\n        return t + r\n    return {k: h(bar(k)) for k in range(x)}[x - 1] + (bar)(1)")
exp = (s.foo(3), s.baz(2), s.qux(3))
m.export(os.path.join(d, "R1_nomx"))
try:
    pkg = importlib.import_module("R1_nomx")
    got = (pkg.mx_model.S.foo(3), pkg.mx_model.S.baz(2), pkg.mx_model.S.qux(3))
    if got != exp: ok = False; print("values", got, exp)
except Exception as e:
    ok = False; print("ERROR", type(e).__name__, e)
print("PASS" if ok else "FAIL"); raise SystemExit(0 if ok else 1)
