import modelx as mx
ok = True
for edit in ("is_cached", "formula"):
    m = mx.new_model()
    A = m.new_space("A"); A.new_cells("x", formula="lambda: 1")
    D = m.new_space("D"); D.new_cells("x", formula="lambda: 4")
    B = m.new_space("B", bases=D)            # B.x derived from D
    C = m.new_space("C", bases=[B, A, D])    # order C, B, A, D: C.x comes from A (B.x is only derived)
    assert C.x() == 1
    if edit == "is_cached":
        B.x.is_cached = False                # B.x becomes a defined override of D.x ...
    else:
        B.x.formula = "lambda: 5"
    want = B.x()                             # ... and B precedes A in C's bases
    got = C.x()
    print(edit, ": C.bases =", [b.name for b in C.bases], " C.x() =", got, " B.x() =", want,
          " C.x.formula is B's:", C.x.formula.source == B.x.formula.source)
    ok = ok and got == want
    m.close()
print("PASS" if ok else "FAIL"); raise SystemExit(0 if ok else 1)
