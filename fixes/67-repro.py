import modelx as mx, tempfile, os
m = mx.new_model("M")
A = m.new_space("A"); B = m.new_space("B"); C = m.new_space("C")
A.set_ref("o", B, "relative")        # relative reference to a sibling space (fine while nothing derives it)
C.set_ref("o", C, "relative")        # C has its own o ...
C.add_bases(A)                       # ... so deriving from A never needs to re-bind A.o inside C
assert C.o is C and A.o is B
ok = True
for fmt in ("dir", "zip"):
    d = tempfile.mkdtemp(); p = os.path.join(d, "m" + (".zip" if fmt == "zip" else ""))
    (m.zip if fmt == "zip" else m.write)(p)
    try:
        r = mx.read_model(p, name="R_" + fmt)
        good = r.C.o is r.C and r.A.o is r.B and [b.name for b in r.C.bases] == ["A"]
        print(fmt, "read back:", good); ok = ok and good
    except Exception as e:
        print(fmt, "written without error but not readable:", type(e).__name__, e); ok = False
print("PASS" if ok else "FAIL"); raise SystemExit(0 if ok else 1)
