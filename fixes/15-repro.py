import sys
import modelx as mx
from modelx.core.errors import FormulaError
m = mx.new_model()
s = m.new_space("S")
f = s.new_cells("f", formula=lambda x: None)
def outcome():
    try:
        return ("value", f(1))
    except FormulaError as e:
        return ("error", "NoneReturnedError" in str(e))
cached = outcome()
f.is_cached = False
uncached = outcome()
print("cached:", cached, "uncached:", uncached)
ok = cached == uncached == ("error", True)
# allow_none=True must still return None in both modes
f.allow_none = True
ok = ok and outcome() == ("value", None)
f.is_cached = True
ok = ok and outcome() == ("value", None)
print("PASS" if ok else "FAIL"); sys.exit(0 if ok else 1)
