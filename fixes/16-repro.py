import sys
import modelx as mx
from modelx.core.errors import DeletedObjectError

fails = []

def is_deleted(h):
    try:
        h(1)
    except DeletedObjectError:
        return True
    except Exception:
        return not h._is_valid()
    return False

def rederived(m, sub):
    """Members a fresh space with the same bases would derive"""
    tmp = m.new_space(bases=list(sub.bases))
    res = {n: (c.formula.source, True) for n, c in tmp.cells.items()}
    m._impl.updater.del_defined_space(tmp._impl)
    return res

# Variant 1: sub DEFINES z; base y renamed onto z
m = mx.new_model()
B = m.new_space('B'); B.new_cells('y', formula=lambda i: 1)
D = m.new_space('D', bases=B)
D.new_cells('z', formula=lambda i: 99)
hz, hy = D.z, D.y
try:
    B.y.rename('z')
except Exception as e:
    fails.append("v1: rename raised %s: %s" % (type(e).__name__, e))
if set(B.cells) != {'z'}:
    fails.append("v1: B.cells = %s" % set(B.cells))
if set(D.cells) != {'z'}:
    fails.append("v1: D.cells = %s" % set(D.cells))
elif D.z is not hz:
    fails.append("v1: D's own z was replaced")
elif D.z._is_derived() or D.z(1) != 99:
    fails.append("v1: D.z no longer D's definition: derived=%s value=%s" % (
        D.z._is_derived(), D.z(1)))
if not hz._is_valid():
    fails.append("v1: D's own z handle invalid")
if not is_deleted(hy):
    fails.append("v1: old derived D.y handle still alive")
try:
    m._impl._check_sanity()
except Exception as e:
    fails.append("v1: insane: %s %s" % (type(e).__name__, e))

# Variant 2: D(B, A), D.z derived from A.z; B.y renamed onto z
m = mx.new_model()
A = m.new_space('A'); A.new_cells('z', formula=lambda i: 'A')
B = m.new_space('B'); B.new_cells('y', formula=lambda i: 'B')
D = m.new_space('D', bases=[B, A])
E = m.new_space('E', bases=D)
assert D.z._is_derived() and D.z(1) == 'A'
handles = [(s, n, s.cells[n]) for s in (D, E) for n in ('y', 'z')]
try:
    B.y.rename('z')
except Exception as e:
    fails.append("v2: rename raised %s: %s" % (type(e).__name__, e))
for s in (D, E):
    if set(s.cells) != {'z'}:
        fails.append("v2: %s.cells = %s" % (s.name, set(s.cells)))
    elif not s.z._is_derived() or s.z(1) != 'B':
        fails.append("v2: %s.z derived=%s value=%s" % (
            s.name, s.z._is_derived(), s.z(1)))
for s, n, h in handles:
    alive_in_dict = any(c is h for c in s.cells.values())
    if not alive_in_dict and not is_deleted(h):
        fails.append("v2: orphan handle %s.%s still answers" % (s.name, n))
try:
    m._impl._check_sanity()
except Exception as e:
    fails.append("v2: insane: %s %s" % (type(e).__name__, e))

# Variant 3 (regression guard): plain rename, derived copies follow content-wise
m = mx.new_model()
B = m.new_space('B')
@mx.defcells(space=B)
def y(i):
    return 2 * i
B.new_cells('w', formula=lambda i: y(i) + 1)
D = m.new_space('D', bases=B)
E = m.new_space('E', bases=D)
D.y(1); D.w(1)
B.y.rename('q')
for s in (B, D, E):
    if set(s.cells) != {'q', 'w'}:
        fails.append("v3: %s.cells = %s" % (s.name, set(s.cells)))
        continue
    if not s.q.formula.source.startswith("def q"):
        fails.append("v3: %s.q source %r" % (s.name, s.q.formula.source))
    if s.q(3) != 6:
        fails.append("v3: %s.q(3) = %s" % (s.name, s.q(3)))
    if s is not B and not s.q._is_derived():
        fails.append("v3: %s.q not derived" % s.name)
    if len(s.w):
        fails.append("v3: %s.w not cleared" % s.name)
m._impl._check_sanity()

# Variant 4: the sub OVERRIDES y (defined): the override keeps its name
m = mx.new_model()
B = m.new_space('B'); B.new_cells('y', formula=lambda i: 1)
D = m.new_space('D', bases=B)
D.y.formula = lambda i: 5
hy = D.y
B.y.rename('z')
if set(D.cells) != {'y', 'z'}:
    fails.append("v4: D.cells = %s" % set(D.cells))
else:
    if D.y is not hy or D.y._is_derived() or D.y(1) != 5:
        fails.append("v4: D's override y lost")
    if not D.z._is_derived() or D.z(1) != 1:
        fails.append("v4: D.z not derived from B.z")
try:
    m._impl._check_sanity()
except Exception as e:
    fails.append("v4: insane: %s %s" % (type(e).__name__, e))

if fails:
    print("FAIL")
    for f in fails:
        print("  ", f)
    sys.exit(1)
print("PASS")
