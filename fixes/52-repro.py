import modelx as mx
m = mx.new_model()
A = m.new_space("A"); A.r = 1
B = m.new_space("B"); B.new_cells("r", formula="lambda: 2")
ok = True
try:
    E = m.new_space("E", bases=[B, A])
    both = set(E.cells) & set(E.refs)
    print("E created; names that are both cells and references:", both)
    ok = not both
except (NameError, ValueError) as e:
    print("rejected:", type(e).__name__, e)
    ok = "E" not in m.spaces
# still fine: bases without a clash
F = m.new_space("F", bases=[A]); ok = ok and F.r == 1
print("PASS" if ok else "FAIL"); raise SystemExit(0 if ok else 1)
