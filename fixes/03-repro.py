import sys, tempfile, pathlib, os
import modelx as mx
from modelx.serialize import serializer_6
ok = True
tmp = pathlib.Path(tempfile.mkdtemp())
path = tmp / "model"

m = mx.new_model("M")
s = m.new_space("S")
s.new_cells("x", formula=lambda: 42)
m.write(path)                                   # good save no. 1
s.x.formula = lambda: 43
m.write(path)                                   # good save no. 2 (latest complete copy)

orig = serializer_6.ModelWriter.write_pickledata
def failing(self):
    raise OSError("disk full (injected)")
serializer_6.ModelWriter.write_pickledata = failing

def complete_copy_at(p):
    try:
        r = mx.read_model(p, name="R")
        v = r.S.x()
        r.close()
        return v
    except Exception as e:
        return "unreadable (%s)" % type(e).__name__

for i in range(1, 5):
    s.x.formula = "lambda: %d" % (100 + i)
    try:
        m.write(path)
        print("FAIL: injected failure did not propagate"); ok = False
    except OSError:
        pass
    found = [complete_copy_at(p) for p in (path, pathlib.Path(str(path) + "_BAK1")) if p.exists()]
    listing = sorted(p.name for p in tmp.iterdir())
    if 43 not in found:
        ok = False
        print("FAIL after %d failed save(s): latest complete copy not at path/_BAK1; found %s, dir: %s"
              % (i, found, listing))
    if path.exists():
        ok = False
        print("FAIL after %d failed save(s): partial directory left at %s" % (i, path.name))

serializer_6.ModelWriter.write_pickledata = orig
s.x.formula = lambda: 44
m.write(path)                                   # saving works again
if complete_copy_at(path) != 44 or complete_copy_at(pathlib.Path(str(path) + "_BAK1")) != 43:
    ok = False; print("FAIL: state after recovery", sorted(p.name for p in tmp.iterdir()))

# zip format keeps working the same way
zpath = tmp / "model.zip"
m.zip(zpath)
serializer_6.ModelWriter.write_pickledata = failing
try:
    m.zip(zpath)
except OSError:
    pass
serializer_6.ModelWriter.write_pickledata = orig
if complete_copy_at(pathlib.Path(str(zpath) + "_BAK1")) != 44 and complete_copy_at(zpath) != 44:
    ok = False; print("FAIL: zip copy lost")
print("PASS" if ok else "FAIL"); sys.exit(0 if ok else 1)
