import sys, os, tempfile
os.chdir(tempfile.mkdtemp())
import modelx as mx, pandas as pd
from modelx.core.system import mxsys

fails = []
def check(cond, msg):
    if not cond:
        fails.append(msg)

m = mx.new_model(); A = m.new_space('A')
df = pd.DataFrame({'a': [1, 2]}); df2 = pd.DataFrame({'a': [3]})

# space-level reference
A.new_pandas('x', 'a.csv', df, file_type='csv')
spec = m.get_spec(df)
A.x = A.x
check(A.x is df, "A.x is no longer df")
check([s for s in m.iospecs if s is spec], "space ref: spec dropped from m.iospecs after A.x = A.x")
check(any(spec in io.specs.values() for io in mxsys.iomanager.ios.values()),
      "space ref: spec dropped from iomanager.ios after A.x = A.x")

# model-level reference
m.new_pandas('g', 'g.csv', df2, file_type='csv')
spec2 = m.get_spec(df2)
m.g = m.g
check(m.g is df2, "m.g is no longer df2")
check([s for s in m.iospecs if s is spec2], "model ref: spec dropped after m.g = m.g")

# rebinding to a really different value still releases the spec
m.g = 1
check(not [s for s in m.iospecs if s is spec2], "spec kept after rebinding to different value")
check(len(mxsys.iomanager.ios) == 1, "io of g.csv not released: %r" % list(mxsys.iomanager.ios))

# deletion afterwards still works and releases everything
del A.x
check(m.iospecs == [], "spec left after del A.x")
check(len(mxsys.iomanager.ios) == 0, "ios left: %r" % list(mxsys.iomanager.ios))
m._impl.refmgr._check_sanity()
m.close()

if fails:
    print("FAIL"); [print("  -", f) for f in fails]; sys.exit(1)
print("PASS")
