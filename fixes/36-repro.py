import modelx as mx
ok = True
a = mx.new_model('A'); a.close(); b = mx.new_model('A')
a.close()                                  # second close through the stale handle
ok = ok and list(mx.get_models()) == ['A'] and mx.get_models()['A'] is b
try:
    a.rename('D'); ok = False; print("stale rename accepted")
except ValueError:
    pass
ok = ok and b.name == 'A' and list(mx.get_models()) == ['A']
b.rename('B2'); ok = ok and list(mx.get_models()) == ['B2']
b.close(); ok = ok and list(mx.get_models()) == []
print("PASS" if ok else "FAIL"); raise SystemExit(0 if ok else 1)
