"""54: _can_add stops at the first sub space that has the name."""
import sys
import modelx as mx
print(mx.__file__)
ok = True

def kinds(space, name):
    res = []
    if name in space.cells:
        res.append("cells")
    if name in space._impl.own_refs:
        res.append("ref")
    if name in space.spaces:
        res.append("space")
    return res

# --- defect: cells x in B1, reference x in B2, both subs of A
m = mx.new_model("M54")
A = m.new_space("A")
B1 = m.new_space("B1", bases=A)
B2 = m.new_space("B2", bases=A)
B1.new_cells("x", formula=lambda: 1)
B2.x = 5
try:
    A.new_cells("x", formula=lambda: 2)
    print("A.new_cells('x') accepted; B2 has", kinds(B2, "x"))
    ok = False
except ValueError as e:
    print("A.new_cells('x') refused:", e)
if len(kinds(B2, "x")) != 1 or len(kinds(B1, "x")) != 1 or kinds(A, "x"):
    print("bad state", kinds(A, "x"), kinds(B1, "x"), kinds(B2, "x"))
    ok = False

# --- same in the other order (reference sub first)
m2 = mx.new_model("M54b")
A = m2.new_space("A")
B1 = m2.new_space("B1", bases=A)
B2 = m2.new_space("B2", bases=A)
B1.x = 5
B2.new_cells("x", formula=lambda: 1)
try:
    A.new_cells("x", formula=lambda: 2)
    print("order2: accepted", kinds(B1, "x"), kinds(B2, "x"))
    ok = False
except ValueError:
    print("order2: refused")

# --- defect mirrored for spaces: child space x in B2, cells x in B1
m3 = mx.new_model("M54c")
A = m3.new_space("A")
B1 = m3.new_space("B1", bases=A)
B2 = m3.new_space("B2", bases=A)
B1.new_space("x")
B2.new_cells("x", formula=lambda: 1)
try:
    A.new_space("x")
    print("space: accepted", kinds(B1, "x"), kinds(B2, "x"))
    ok = False
except ValueError:
    print("space: refused")

# --- control: same kind in every sub is fine
m4 = mx.new_model("M54d")
A = m4.new_space("A")
B1 = m4.new_space("B1", bases=A)
B2 = m4.new_space("B2", bases=A)
B1.new_cells("x", formula=lambda: 1)
B2.new_cells("x", formula=lambda: 3)
A.new_cells("x", formula=lambda: 2)
if (A.x(), B1.x(), B2.x()) != (2, 1, 3):
    print("control same-kind wrong", A.x(), B1.x(), B2.x())
    ok = False
# control: no conflict at all
A.new_cells("y", formula=lambda: 9)
if B2.y() != 9:
    ok = False
# control: a single sub with a ref refuses
B1.z = 1
try:
    A.new_cells("z")
    print("control single-sub ref: accepted"); ok = False
except ValueError:
    pass

print("PASS" if ok else "FAIL")
sys.exit(0 if ok else 1)
