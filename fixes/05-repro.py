import sys
import modelx as mx
ok = True
def check(label, got, exp):
    global ok
    if got != exp:
        ok = False; print("FAIL %s: got %r expected %r" % (label, got, exp))

m = mx.new_model()
R = m.new_space("R"); R.r = 1; R.q = 100
T = m.new_space("T")
T.new_cells("u2", formula=lambda x: _model.R.r * x)      # attribute path
T.new_cells("u", formula=lambda: u2(10) + _model.R.q)    # uncached calling uncached
T.u.is_cached = False
T.u2.is_cached = False
S = m.new_space("S")
S.new_cells("c", formula=lambda: _model.T.u() + 1)
S.new_cells("d", formula=lambda: c() * 2)
S.new_cells("other", formula=lambda: 7)
check("initial", (S.c(), S.d(), S.other()), (111, 222, 7))
R.r = 2
check("invalidated by R.r", (dict(S.c), dict(S.d), len(S.other)), ({}, {}, 1))
check("after R.r = 2", (S.c(), S.d()), (121, 242))
R.q = 200
check("after R.q = 200", (S.c(), S.d()), (221, 442))
del R.r
R.r = 3
check("after del/new R.r", (S.c(), S.d()), (231, 462))

# a failing caller must not keep references of its uncached callee
T.new_cells("bad", formula=lambda: u() + undefined_name)
try:
    T.bad()
except Exception:
    pass
check("refstack empty", len(mx.core.mxsys.refstack), 0)
# top-level call of uncached cells: nothing recorded for the transient node
g = m._impl.refgraph
T.u2(5)
check("no refgraph edge to uncached item nodes",
      [n for n in g.nodes if isinstance(n, tuple) and not n[0].is_cached], [])
m._impl._check_sanity()
print("PASS" if ok else "FAIL"); sys.exit(0 if ok else 1)
