import sys, os, tempfile
os.chdir(tempfile.mkdtemp())
import modelx as mx, pandas as pd

fails = []
def check(cond, msg):
    if not cond:
        fails.append(msg)

for mode in ("auto", "absolute", "relative"):
    m = mx.new_model(); A = m.new_space('A'); B = m.new_space('B', bases=A)
    df = pd.DataFrame({'a': [1, 2]}); df2 = pd.DataFrame({'a': [3]})
    A.new_pandas('x', 'a.csv', df, file_type='csv')
    A.set_ref('x', df, mode)
    before = A._impl.own_refs['x'].refmode
    check(before == mode, "%s: refmode before update is %r" % (mode, before))
    m.update_pandas(df, df2)
    after = A._impl.own_refs['x'].refmode
    check(after == mode, "%s: refmode of A.x after update_pandas is %r" % (mode, after))
    sub = B._impl.own_refs['x'].refmode
    check(sub == mode, "%s: refmode of derived B.x after update_pandas is %r" % (mode, sub))
    check(A.x is df2 and B.x is df2, "%s: value not updated" % mode)
    # is_relative flag derived from refmode in change_ref
    if mode == "absolute":
        check(A._impl.own_refs['x'].is_relative is False,
              "absolute: is_relative is %r" % A._impl.own_refs['x'].is_relative)
    # model-level refs are updated as well
    m.new_pandas('g', 'g.csv', df, file_type='csv')
    df3 = pd.DataFrame({'a': [4]})
    m.update_pandas(df, df3)
    check(m.g is df3, "model ref not updated")
    m.close()

if fails:
    print("FAIL"); [print("  -", f) for f in fails]; sys.exit(1)
print("PASS")
