import modelx as mx, tempfile, os
m = mx.new_model("M"); S = m.new_space("S")
a = S.new_cells("a", "lambda x: x", is_cached=False)
b = S.new_cells("b", "lambda x: 2 * x", is_cached=False); b.allow_none = True; b.doc = "doc of b"
c = S.new_cells("c", "def c(x):\n    return x", is_cached=False)
ok = True
for fmt in ("dir", "zip"):
    p = os.path.join(tempfile.mkdtemp(), "m" + (".zip" if fmt == "zip" else ""))
    (m.zip if fmt == "zip" else m.write)(p); r = mx.read_model(p, name="R" + fmt)
    got = (r.S.a.is_cached, r.S.b.is_cached, r.S.c.is_cached, r.S.b.allow_none, r.S.b.doc)
    if got != (False, False, False, True, "doc of b"):
        ok = False; print(fmt, got)
print("PASS" if ok else "FAIL"); raise SystemExit(0 if ok else 1)
