"""58: a derived reference re-derived in place keeps stale attribute referrers."""
import sys
import modelx as mx
print(mx.__file__)
ok = True

m = mx.new_model("M58")
B1 = m.new_space("B1")
B2 = m.new_space("B2")
B1.x = 10
B2.x = 20
Sub = m.new_space("Sub", bases=[B1, B2])
Reader = m.new_space("Reader")
Reader.Sub = Sub

@mx.defcells(space=Reader)
def read():
    return Sub.x

@mx.defcells(space=Reader)
def chained():
    return read() + 1

# control: a cells in Sub itself reading x by name
@mx.defcells(space=Sub)
def local():
    return x

print("before:", Sub.x, Reader.read(), Reader.chained(), Sub.local())
if (Sub.x, Reader.read(), Reader.chained(), Sub.local()) != (10, 10, 11, 10):
    ok = False
Sub.remove_bases(B1)
print("after remove_bases(B1): Sub.x =", Sub.x, "read() =", Reader.read(),
      "chained() =", Reader.chained(), "local() =", Sub.local())
if Sub.x != 20:
    print("Sub.x not re-derived"); ok = False
if Reader.read() != 20 or Reader.chained() != 21:
    print("stale value kept by the cells reading Sub.x by attribute path")
    ok = False
if Sub.local() != 20:
    print("stale local"); ok = False

# the other direction: add_bases putting a new base in front does not apply
# (added at the end), but changing the base's value goes through on_change_ref
B2.x = 30
print("after B2.x = 30:", Sub.x, Reader.read())
if (Sub.x, Reader.read(), Reader.chained()) != (30, 30, 31):
    print("control change_ref wrong"); ok = False

# re-derivation by deleting the reference in the first base
m2 = mx.new_model("M58b")
C1 = m2.new_space("C1"); C2 = m2.new_space("C2")
C1.x = 1; C2.x = 2
D = m2.new_space("D", bases=[C1, C2])
R = m2.new_space("R"); R.D = D
R.new_cells("read", formula=lambda: D.x)
if R.read() != 1:
    ok = False
del C1.x
print("after del C1.x:", D.x, R.read())
if (D.x, R.read()) != (2, 2):
    print("stale after del of the first base's reference"); ok = False

# control: unrelated cached value survives the re-derivation
m3 = mx.new_model("M58c")
E1 = m3.new_space("E1"); E2 = m3.new_space("E2")
E1.x = 1; E2.x = 2; E2.y = 5
F = m3.new_space("F", bases=[E1, E2])
Q = m3.new_space("Q"); Q.F = F
calls = []
Q.calls = calls
@mx.defcells(space=Q)
def other():
    calls.append(1)
    return 42
Q.other()
F.remove_bases(E1)
Q.other()
if len(calls) != 1:
    print("control: unrelated value was discarded", len(calls)); ok = False

print("PASS" if ok else "FAIL")
sys.exit(0 if ok else 1)
