import sys
import modelx as mx
ok = True

def snapshot(m):
    return {s.fullname: (sorted(s.cells), sorted(s.spaces), sorted(s._impl.own_refs),
                         [b.fullname for b in s.bases])
            for s in m.spaces.values()}

def expect_conflict(label, build):
    """build(m) -> (sub, base); sub.add_bases(base) must raise NameError, model unchanged"""
    global ok
    m = mx.new_model()
    sub, base = build(m)
    before = snapshot(m)
    try:
        sub.add_bases(base)
        print("FAIL %s: add_bases accepted; sub now has cells=%s spaces=%s refs=%s" % (
            label, sorted(sub.cells), sorted(sub.spaces), sorted(sub._impl.own_refs)))
        ok = False
    except NameError:
        if snapshot(m) != before:
            print("FAIL %s: model mutated by rejected add_bases" % label); ok = False
    m._impl._check_sanity()
    m.close()

def cells_vs_space(m):
    A = m.new_space("A"); A.new_cells("x", formula=lambda: 1)
    B = m.new_space("B"); B.new_space("x")
    return B, A

def ref_vs_cells(m):
    A = m.new_space("A"); A.z = 1
    B = m.new_space("B"); B.new_cells("z", formula=lambda: 1)
    return B, A

def cells_vs_ref(m):
    A = m.new_space("A"); A.new_cells("z", formula=lambda: 1)
    B = m.new_space("B"); B.z = 1
    return B, A

def ref_vs_space(m):
    A = m.new_space("A"); A.w = 1
    B = m.new_space("B"); B.new_space("w")
    return B, A

def conflict_in_descendant(m):
    A = m.new_space("A"); A.new_cells("x", formula=lambda: 1)
    B = m.new_space("B")
    C = m.new_space("C", bases=B); C.new_space("x")
    return B, A

for f in (cells_vs_space, ref_vs_cells, cells_vs_ref, ref_vs_space, conflict_in_descendant):
    expect_conflict(f.__name__, f)

# Legitimate calls must still be accepted
m = mx.new_model()
m.g = 10                                   # model-level ref, visible in every space
A = m.new_space("A"); A.new_cells("x", formula=lambda: 1); A.r = 1; A.new_space("Child")
A.new_cells("g2", formula=lambda: 1)
B = m.new_space("B"); B.r = 2
B.new_cells("x", formula=lambda: 2)
B.new_cells("Child", formula=lambda: 3)
m.g2 = 5                                   # global ref with the name of a cells of A
try:
    B.add_bases(A)
    assert B.x() == 2 and B.r == 2 and B.Child() == 3 and B.g == 10 and B.g2() == 1
except Exception as e:
    ok = False
    print("FAIL legit add_bases rejected:", type(e).__name__, e)
m._impl._check_sanity()
print("PASS" if ok else "FAIL"); sys.exit(0 if ok else 1)
