import modelx as mx
m = mx.new_model()
B = m.new_space("B"); B.new_cells("x", formula="lambda i: 10 + i")
P = m.new_space("P", formula=lambda p: None)
C = P.new_space("C")
inst = P[0]                       # the instance exists before C derives anything
C.add_bases(B)                    # P.C now derives x from B
ok = True
try:
    v = P[0].C.x(1); print("P[0].C.x(1) =", v); ok = v == 11
except Exception as e:
    print("P[0].C has no x:", type(e).__name__, e, "-> FAIL (the existing instance was not refreshed)"); ok = False
v = P[1].C.x(1); ok = ok and v == 11
C.remove_bases(B)
ok = ok and "x" not in P[0].C.cells and "x" not in P[1].C.cells
print("PASS" if ok else "FAIL"); raise SystemExit(0 if ok else 1)
