"""A relative reference re-bound in a sub space picks up a model-level reference.

A.o refers to the child space A.K in 'relative' mode.  B derives from A but has no child
space K, so B.o has nothing to denote in B's tree (modelx then binds it to a null object).
With a model-level reference named K, B.o became that reference's value (60): the path
"B.K" was resolved through B's namespace, in which model-level references are visible."""
import modelx as mx
m = mx.new_model()
A = m.new_space("A"); K = A.new_space("K")
B = m.new_space("B", bases=A)
m.K = 60
A.set_ref("o", K, refmode="relative")
print(repr(B.o))
assert B.o != 60, "B.o is the model-level reference K"
m2 = mx.new_model()
A = m2.new_space("A"); K = A.new_space("K")
B = m2.new_space("B", bases=A)
A.set_ref("o", K, refmode="relative")
print(repr(B.o))
print("ok")
