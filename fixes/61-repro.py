"""61: adding a grandchild space leaves existing Outer[a].Inner without it."""
import sys
import modelx as mx
print(mx.__file__)
ok = True

m = mx.new_model("M61")
Outer = m.new_space("Outer", formula=lambda a: None)
Inner = Outer.new_space("Inner")
Inner.new_cells("foo", formula=lambda: a * 10)
inst = Outer[1]
if inst.Inner.foo() != 10:
    ok = False

E = Inner.new_space("E")
E.new_cells("baz", formula=lambda: a + 1)
print("after Inner.new_space('E'): Inner.spaces =", list(Inner.spaces),
      " Outer[1].Inner.spaces =", list(Outer[1].Inner.spaces))
if list(Outer[1].Inner.spaces) != ["E"]:
    print("Outer[1].Inner.E is missing"); ok = False
else:
    if Outer[1].Inner.E.baz() != 2 or Outer[1].Inner.foo() != 10:
        print("wrong values"); ok = False

# deeper: great-grandchild
try:
    Outer[1].Inner.E
    E.new_space("F")
    Outer[1].Inner.E.F
except AttributeError as e:
    print("Outer[1].Inner.E.F missing:", e); ok = False

# nested parametrised spaces: Inner2 parametrised, grandchild added under it
Inner2 = Outer.new_space("Inner2", formula=lambda k: None)
G = Inner2.new_space("G")
x = Outer[1].Inner2[2].G
Inner2.new_space("H")
if sorted(Outer[1].Inner2[2].spaces) != ["G", "H"]:
    print("Outer[1].Inner2[2].H missing:", list(Outer[1].Inner2[2].spaces)); ok = False
G.new_space("I")
if list(Outer[1].Inner2[2].G.spaces) != ["I"]:
    print("Outer[1].Inner2[2].G.I missing"); ok = False

# instance built from another space through a formula returning a base
m2 = mx.new_model("M61b")
Tmpl = m2.new_space("Tmpl")
TIn = Tmpl.new_space("In")
P = m2.new_space("P", formula=lambda a: {"base": Tmpl})
P.Tmpl = Tmpl
P[1].In
TIn.new_space("E")
if list(P[1].In.spaces) != ["E"]:
    print("P[1].In.E missing (instance built from a base)"); ok = False

# controls: a child (not grandchild) is picked up (as before);
# an unrelated parametrised space keeps its instances and values
m3 = mx.new_model("M61c")
O = m3.new_space("O", formula=lambda a: None)
O[1]
O.new_space("C")
if list(O[1].spaces) != ["C"]:
    print("control child wrong"); ok = False
Q = m3.new_space("Q", formula=lambda a: None)
calls = []
Q.calls = calls
Q.new_cells("c", formula=lambda: calls.append(a) or a)
Q[5].c()
O.C.new_space("D")
m3.new_space("Top")
Q[5].c()
if calls != [5]:
    print("control: unrelated instance was rebuilt", calls); ok = False
if list(O[1].C.spaces) != ["D"]:
    print("control grandchild D missing"); ok = False

print("PASS" if ok else "FAIL")
sys.exit(0 if ok else 1)
