import sys
import modelx as mx
from modelx.core.errors import FormulaError
m = mx.new_model()
s = m.new_space("S")

@mx.defcells
def bad(x):
    raise ValueError("bad")

@mx.defcells
def catcher(x):
    try:
        return bad(x)
    except ValueError:
        return -1

@mx.defcells
def boom(x):
    if x > 0:
        return boom(x - 1)
    raise KeyError("boom")

@mx.defcells
def mixed(x):
    catcher(x + 100)      # handled failure inside the same top-level call
    return boom(x)

@mx.defcells
def translate(x):
    try:
        return bad(x + 200)
    except ValueError:
        raise KeyError("translated")

@mx.defcells
def none_ret(x):
    catcher(x + 300)
    return None if x == 0 else none_ret(x - 1)

def tb():
    return [(n.obj.name, n.args, line) for n, line in mx.get_traceback()]

ok = True
def check(label, got, exp):
    global ok
    if got != exp:
        ok = False
        print("FAIL %s:\n   got %s\n   exp %s" % (label, got, exp))

assert catcher(1) == -1            # handled failure, top-level call succeeds
try:
    boom(1)
except FormulaError:
    pass
check("stale across top-level calls", tb(),
      [("boom", (1,), 3), ("boom", (0,), 4)])

try:
    mixed(1)
except FormulaError:
    pass
check("stale within one call", tb(),
      [("mixed", (1,), 3), ("boom", (1,), 3), ("boom", (0,), 4)])

try:
    translate(1)
except FormulaError:
    pass
check("exception translated by a formula", tb(), [("translate", (1,), 5)])

try:
    none_ret(1)
except FormulaError:
    pass
check("NoneReturnedError", tb(),
      [("none_ret", (1,), 3), ("none_ret", (0,), 0)])

leftover = len(mx.core.mxsys.executor.rolledback)
assert catcher(7) == -1
assert catcher(8) == -1
check("deque does not grow over successful calls",
      len(mx.core.mxsys.executor.rolledback) <= 1, True)
print("PASS" if ok else "FAIL"); sys.exit(0 if ok else 1)
