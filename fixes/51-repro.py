import modelx as mx
ok = True
m = mx.new_model()
P = m.new_space("P", formula=lambda p: None)
C = P.new_space("C")
C.new_cells("y", formula="lambda: 200 + r")
inst = P[1]                       # the instance exists before the reference does
C.r = 2                           # new reference in the child space
try:
    v = P[1].C.y(); print("P[1].C.y() =", v); ok = ok and v == 202
except Exception:
    print("P[1].C.y() raised", type(mx.get_error()).__name__, "-> FAIL (instance does not see the new reference)"); ok = False
del C.r
try:
    v = P[1].C.y(); print("after del C.r: P[1].C.y() =", v, "-> FAIL"); ok = False
except Exception:
    print("after del C.r:", type(mx.get_error()).__name__, "-> ok")
print("PASS" if ok else "FAIL"); raise SystemExit(0 if ok else 1)
