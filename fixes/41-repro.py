import sys, os, tempfile, importlib, textwrap, inspect
import modelx as mx
m = mx.new_model(); s = m.new_space(); s.G = 7
ok = True

def check(label, fn):
    global ok
    try:
        r = fn()
        if r is not True:
            ok = False
            print("FAIL", label, "->", repr(r))
    except Exception as e:
        ok = False
        print("FAIL", label, "->", type(e).__name__, e)

moddir = tempfile.mkdtemp()
with open(os.path.join(moddir, "ded41mod.py"), "w") as f:
    f.write("""
if True:
    def h(x):
        s = '''a
        b'''
        return len(s) + x

    def h2(x):
        s = 'a\\
        b'
        t = '''p
        
   q
'''
        return (s, t, x)

    def h3(x):
        s = f'''a
        {x} b {
        x + 1}
          c'''
        return s

    def h4(x):
        '''doc
        second
        '''
        return x

def top(x):
    s = '''a
    
    b'''
    return s
""")
sys.path.insert(0, moddir)
mod = importlib.import_module("ded41mod")

def same(name, fn, *args):
    c = s.new_cells(name, formula=fn)
    exp = fn(*args)
    got = c(*args)
    c2 = s.new_cells(name + "_rt", formula=c.formula.source)
    got2 = c2(*args)
    return (got == exp and got2 == exp) or (exp, got, got2)

check("multi-line string in a def nested in a block", lambda: same("k3", mod.h, 1))
check("backslash-continued string, blank/short lines in string", lambda: same("k4", mod.h2, 1))
check("multi-line f-string", lambda: same("k5", mod.h3, 1))
check("top-level def, whitespace-only line in string", lambda: same("k7", mod.top, 1))

def t_doc():
    c = s.new_cells("k6", formula=mod.h4)
    return (c.doc == mod.h4.__doc__ and c(3) == 3) or (c.doc, mod.h4.__doc__)
check("docstring equals the function's docstring", t_doc)

def t_text():
    c = s.new_cells("k8", formula=inspect.getsource(mod.h))
    return c(1) == 12 or c(1)
check("text source", t_text)

def t_wr():
    p = os.path.join(tempfile.mkdtemp(), "m")
    m.write(p)
    m2 = mx.read_model(p, name="m41read")
    s2 = m2.spaces[s.name]
    return (s2.k3(1) == 12 and s2.k4(1) == mod.h2(1) and s2.k5(1) == mod.h3(1)) or (s2.k3(1),)
check("write/read", t_wr)

print("PASS" if ok else "FAIL")
sys.exit(0 if ok else 1)
