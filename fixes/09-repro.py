import sys
import modelx as mx
m = mx.new_model()
s = m.new_space("S")
s.new_cells("a", formula=lambda: 1)
sub = m.new_space("Sub", bases=s)
before = (list(s.cells), list(sub.cells), sorted(s._impl.namespace))
ok = True
for kwargs in (dict(name="x", formula="def f(:"), dict(name="y", formula="lambda x y: 1"),
               dict(formula="def z(:")):
    try:
        s.new_cells(**kwargs)
        print("FAIL: no error for", kwargs); ok = False
    except SyntaxError:
        pass
after = (list(s.cells), list(sub.cells), sorted(s._impl.namespace))
if before != after:
    ok = False
    print("FAIL: space changed by failed new_cells:", before, "->", after)
# a name that failed can be used afterwards
s.new_cells("x", formula="def f(): return 3")
ok = ok and s.x() == 3 and sub.x() == 3
m._impl._check_sanity()
print("PASS" if ok else "FAIL"); sys.exit(0 if ok else 1)
