import modelx as mx, pandas as pd
from modelx.core.system import mxsys
m = mx.new_model("M"); A = m.new_space("A")
df = pd.DataFrame({"a": [1, 2]}); df2 = pd.DataFrame({"a": [3]})
A.new_pandas("x", "a.csv", df, file_type="csv"); A.new_pandas("y", "b.csv", df2, file_type="csv")
ok = True
try:
    m.update_pandas(df, df2); ok = False; print("accepted")
except ValueError as e:
    print("rejected:", e)
ok = ok and A.x is df and A.y is df2 and len(m.iospecs) == 2
del A.x; del A.y
ok = ok and len(m.iospecs) == 0 and not mxsys.iomanager.ios
# updating to a plain new frame still works
A.new_pandas("z", "c.csv", df, file_type="csv"); m.update_pandas(df, pd.DataFrame({"a": [9]}))
ok = ok and len(m.iospecs) == 1 and A.z["a"][0] == 9
print("PASS" if ok else "FAIL"); raise SystemExit(0 if ok else 1)
