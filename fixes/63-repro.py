"""63: deleting a grandchild space leaves its replica G[1].P.X alive."""
import sys
import modelx as mx
from modelx.core.errors import DeletedObjectError
print(mx.__file__)
ok = True

m = mx.new_model("M63")
G = m.new_space("G", formula=lambda a: None)
P = G.new_space("P")
P.new_cells("keep", formula=lambda: a * 2)
X = P.new_space("X")
X.new_cells("foo", formula=lambda: a + 100)
Y = P.new_space("Y")
inst = G[1]
xrep = inst.P.X
if xrep.foo() != 101 or inst.P.keep() != 2:
    print("setup wrong"); ok = False

del P.X
print("after del G.P.X: P.spaces =", list(P.spaces), " G[1].P.spaces =", list(G[1].P.spaces))
if list(G[1].P.spaces) != ["Y"]:
    print("G[1].P still lists X"); ok = False
try:
    v = xrep.foo()
    print("replica xrep.foo() still evaluates ->", v); ok = False
except DeletedObjectError:
    print("replica xrep.foo() raises DeletedObjectError")
if G[1].P.keep() != 2:
    print("keep wrong"); ok = False

# deeper: great-grandchild
Z = Y.new_space("Z")
Z.new_cells("foo", formula=lambda: a)
try:
    zrep = G[1].P.Y.Z
except AttributeError as e:     # defect 61 (tree without that repair)
    print("G[1].P.Y.Z missing:", e); ok = False
else:
    zrep.foo()
    del Y.Z
    if list(G[1].P.Y.spaces):
        print("G[1].P.Y still lists Z"); ok = False
    try:
        zrep.foo(); print("zrep.foo() still evaluates"); ok = False
    except DeletedObjectError:
        pass

# a value computed from the replica is discarded
m2 = mx.new_model("M63b")
G2 = m2.new_space("G2", formula=lambda a: None)
P2 = G2.new_space("P2")
X2 = P2.new_space("X2")
X2.new_cells("foo", formula=lambda: a)
R = m2.new_space("R"); R.G2 = G2
R.new_cells("read", formula=lambda: G2[1].P2.X2.foo())
if R.read() != 1:
    ok = False
del P2.X2
try:
    v = R.read(); print("R.read() still gives", v); ok = False
except Exception as e:
    print("R.read() raises", type(e).__name__)

# instance built from another space through a formula returning a base
m3 = mx.new_model("M63c")
Tmpl = m3.new_space("Tmpl")
TIn = Tmpl.new_space("In")
TX = TIn.new_space("X")
T = m3.new_space("T", formula=lambda i: {"base": Tmpl})
T.Tmpl = Tmpl
T[1].In.X
del TIn.X
if list(T[1].In.spaces):
    print("T[1].In still lists X (instance built from a base)"); ok = False

# controls: deleting a child (not grandchild) as before; unrelated instances kept
m4 = mx.new_model("M63d")
O = m4.new_space("O", formula=lambda a: None)
C = O.new_space("C")
C.new_space("D")
O[1]
Q = m4.new_space("Q", formula=lambda a: None)
calls = []
Q.calls = calls
Q.new_cells("c", formula=lambda: calls.append(a) or a)
Q[5].c()
del C.D
del O.C
Q[5].c()
if list(O[1].spaces):
    print("control del child wrong"); ok = False
if calls != [5]:
    print("control: unrelated instance was rebuilt", calls); ok = False

print("PASS" if ok else "FAIL")
sys.exit(0 if ok else 1)
