import sys, os, tempfile, importlib
import modelx as mx
m = mx.new_model(); s = m.new_space(); s.G = 7
ok = True

def check(label, fn):
    global ok
    try:
        r = fn()
        if r is not True:
            ok = False
            print("FAIL", label, "->", repr(r))
    except Exception as e:
        ok = False
        print("FAIL", label, "->", type(e).__name__, e)

def roundtrip(c, name):
    """formula.source is a self-contained lambda and reproduces itself"""
    src = c.formula.source
    f = eval(src, {"G": 7})            # self-contained expression
    c2 = s.new_cells(name, formula=src)
    return f, c2

def t1():
    c = s.new_cells("k", formula="fn = keep(lambda x: 3 * x +\n    G, 1)")
    f, c2 = roundtrip(c, "k_rt")
    return (c(2) == 13 and f(2) == 13 and c2(2) == 13
            and c2.formula.source == c.formula.source) or (c.formula.source, c2.formula.source)
check("source text, lambda continued inside enclosing brackets", t1)

moddir = tempfile.mkdtemp()
with open(os.path.join(moddir, "lam39mod.py"), "w") as f:
    f.write('''
def keep(f, *a):
    return f

fn = keep(lambda x: 3 * x +
    G, 1)

fn2 = [lambda x, y=(1,
        2): x +
    y[1] + G
][0]

fn7 = keep(lambda x,   # first
           y=2:  # second
    f"({x}" +    # third ( [
    # own line
    "#)" + str(y
               # inner comment kept
               + G), 1)

fn3 = keep(
    lambda x: (x,
               G))

single = lambda x: x + G

paren = (lambda x: x +
         G)
''')
sys.path.insert(0, moddir)
mod = importlib.import_module("lam39mod")

def t2():
    c = s.new_cells("kf", formula=mod.fn)
    f, c2 = roundtrip(c, "kf_rt")
    return (c(2) == 13 and f(2) == 13 and c2(2) == 13
            and c2.formula.source == c.formula.source) or (c.formula.source, c2.formula.source)
check("function object, lambda continued inside enclosing brackets", t2)

def t3():
    c = s.new_cells("kf2", formula=mod.fn2)
    f, c2 = roundtrip(c, "kf2_rt")
    return (c(1) == 10 and f(1) == 10 and c2(1) == 10
            and c2.formula.source == c.formula.source) or (c.formula.source, c2.formula.source)
check("function object, multi-line default and body in list display", t3)

def t4():
    # already worked: line breaks inside the lambda's own brackets
    c = s.new_cells("kf3", formula=mod.fn3)
    f, c2 = roundtrip(c, "kf3_rt")
    return (c(1) == (1, 7) and c2(1) == (1, 7)
            and c.formula.source == "lambda x: (x,\n               G)"
            and c2.formula.source == c.formula.source) or (c.formula.source,)
check("unchanged: own brackets", t4)

def t5():
    # ordinary single-line lambdas keep their source byte-identical
    c = s.new_cells("kf4", formula=mod.single)
    d = s.new_cells("kf5", formula="lambda x: x + G")
    return (c.formula.source == "lambda x: x + G" and d.formula.source == "lambda x: x + G"
            and c(1) == 8 and d(1) == 8) or (c.formula.source, d.formula.source)
check("unchanged: single line", t5)

def t6():
    c = s.new_cells("kf6", formula=mod.paren)
    f, c2 = roundtrip(c, "kf6_rt")
    return (c(1) == 8 and f(1) == 8 and c2(1) == 8
            and c2.formula.source == c.formula.source) or (c.formula.source, c2.formula.source)
check("function object, lambda in plain parentheses", t6)

def t8():
    c = s.new_cells("kf7", formula=mod.fn7)
    f, c2 = roundtrip(c, "kf7_rt")
    src = c.formula.source
    return (c(1) == "(1#)9" and f(1) == "(1#)9" and c2(1) == "(1#)9"
            and "inner comment kept" in src and "third" not in src
            and c2.formula.source == src) or (src, c2.formula.source)
check("function object, params on two lines, comments, f-string", t8)

def t9():
    txt = "fn = keep(lambda x,   # first\n  y=2:  # second\n  x + # t\n\n  # own\n y + G, 1)"
    c = s.new_cells("kt9", formula=txt)
    f, c2 = roundtrip(c, "kt9_rt")
    return (c(1) == 10 and c2(1) == 10 and c.formula.source.startswith("lambda")
            and c2.formula.source == c.formula.source) or (c.formula.source,)
check("source text with comments and blank line", t9)

def t7():
    # space formula from such a lambda + write/read
    sp = m.new_space("P", formula="f = (lambda i: {'refs':\n {'i': i}})")
    import tempfile as tf
    p = os.path.join(tf.mkdtemp(), "m")
    s.new_cells("w", formula="fn = keep(lambda x: 3 * x +\n    G, 1)")
    m.write(p)
    m2 = mx.read_model(p, name="m2read")
    return (sp[3].i == 3 and m2.spaces[s.name].w(2) == 13 and m2.P[4].i == 4
            and m2.spaces[s.name].w.formula.source == s.w.formula.source) or (
            s.w.formula.source, m2.spaces[s.name].w.formula.source)
check("write/read round trip", t7)

print("PASS" if ok else "FAIL")
sys.exit(0 if ok else 1)
