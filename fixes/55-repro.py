"""55: new_cells(formula=f) with no name checks the name conflict with None."""
import sys
import modelx as mx
print(mx.__file__)
ok = True

def kinds(space, name):
    res = []
    if name in space.cells:
        res.append("cells")
    if name in space._impl.own_refs:
        res.append("ref")
    if name in space.spaces:
        res.append("space")
    return res

def y():
    return 1

m = mx.new_model("M55")
S = m.new_space("S")
S.y = 5
# control: explicit name is refused
try:
    S.new_cells("y", formula=y)
    print("control explicit: accepted"); ok = False
except ValueError:
    print("control explicit name refused")
try:
    S.new_cells(formula=y)
    print("S.new_cells(formula=y) accepted:", kinds(S, "y"))
    ok = False
except ValueError as e:
    print("S.new_cells(formula=y) refused:", e)
if kinds(S, "y") != ["ref"] or S.y != 5:
    print("bad state", kinds(S, "y")); ok = False

# child space named y
T = m.new_space("T")
T.new_space("y")
try:
    T.new_cells(formula=y)
    print("space y: accepted", kinds(T, "y")); ok = False
except ValueError:
    print("space y: refused")

# reference y in a sub space
A = m.new_space("A")
B = m.new_space("B", bases=A)
B.y = 1
try:
    A.new_cells(formula=y)
    print("sub ref y: accepted", kinds(B, "y")); ok = False
except ValueError:
    print("sub ref y: refused")

# controls: free name taken from the function; lambda auto-named; invalid name
U = m.new_space("U")
c = U.new_cells(formula=y)
if c.name != "y" or U.y() != 1:
    print("control name from formula wrong", c.name); ok = False
c2 = U.new_cells(formula=lambda x: x)
if not c2.name.startswith("Cells") or c2(3) != 3:
    print("control lambda auto name wrong", c2.name); ok = False
c3 = U.new_cells()
if not c3.name.startswith("Cells") or c3.name == c2.name:
    print("control auto name wrong", c3.name); ok = False
# defcells on an existing cells still updates the formula
@mx.defcells(space=U)
def y():
    return 2
if U.y() != 2 or len([k for k in U.cells if k == "y"]) != 1:
    print("control defcells update wrong"); ok = False

print("PASS" if ok else "FAIL")
sys.exit(0 if ok else 1)
