import modelx as mx
m = mx.new_model()
A = m.new_space("A"); A.set_ref("o", A, "relative")     # "the space itself"
A.r = 1
C = m.new_space("C"); K = C.new_space("K")
K.add_bases(A)                                            # C.K.o is C.K
assert K.o is K
m.K = 60                                                  # a model-level reference named like the child space
del A.r                                                   # any edit that re-derives the sub spaces of A
got = K.o
print("C.K.o after the edit:", got)
ok = got is K
print("PASS" if ok else "FAIL"); raise SystemExit(0 if ok else 1)
