import sys
import modelx as mx
from modelx.core.errors import DeletedObjectError

fails = []

# Variant 1: other cells in the space must still be callable
m = mx.new_model()
D = m.new_space('D')
D.new_cells('y', formula=lambda i: 1)
D.new_cells('w', formula=lambda i: 2 * i)
D.o = D.y
del D.y
try:
    if D.w(3) != 6:
        fails.append("v1: wrong value")
except Exception as e:
    fails.append("v1: D.w(3) raised %s" % type(e).__name__)

# Variant 2: new_cells under the deleted name works and is complete
try:
    c = D.new_cells('y', formula=lambda i: 5)
    if c(1) != 5:
        fails.append("v2: wrong value")
except Exception as e:
    fails.append("v2: new_cells/call raised %s" % type(e).__name__)
if 'y' not in D.cells:
    fails.append("v2: y not in D.cells")

# Variant 3: a formula actually using the dangling reference fails
try:
    D.new_cells('u', formula=lambda i: o(i))
    D.u(1)
    fails.append("v3: using a dangling reference did not fail")
except Exception:
    pass

# Variant 4: a live reference to a cells still works
try:
    D.p = D.w
    D.new_cells('q', formula=lambda i: p(i) + 1)
    if D.q(2) != 5:
        fails.append("v4: wrong value through live cells reference")
except Exception as e:
    fails.append("v4: raised %s" % type(e).__name__)

if fails:
    print("FAIL")
    for f in fails:
        print("  ", f)
    sys.exit(1)
print("PASS")
