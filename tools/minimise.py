#!/venv/bin/python
"""tools/minimise.py <replay.json> <label> <out.json>: drops operations from a replay while TLC still reports <label>
(run with PYTHONPATH=/repo PYTHONHASHSEED=0 /venv/bin/python)."""
import json, sys
sys.path.insert(0, "/verif")
from harness import pipeline as pl, tlc
rec = json.load(open(sys.argv[1])); want = sys.argv[2]
def bad(ops):
    try:
        tr = pl.replay_ops_trace((rec["init"], ops, rec.get("opts", {})))
        v, r = tlc.validate_traces([tr])
    except Exception as e:
        return False
    return any(l == want for l, _ in v[1]["viol"])
ops = rec["ops"]
assert bad(ops)
# cut tail
n = len(ops)
i = n - 1
while i >= 0:
    t = ops[:i] + ops[i+1:]
    if bad(t):
        ops = t
    i -= 1
rec["ops"] = ops
json.dump(rec, open(sys.argv[3], "w"))
for o in ops: print(json.dumps({k: v for k, v in o.items() if k != "tbx"}))
