#!/usr/bin/env python3
"""tools/archive_seed.py <name> <property> <srcdir> <caught_by,comma> <needs...>
Copies a confirmed seeded change into /verif/seeded/<name>/ with its meta.json."""
import json, os, shutil, sys
name, prop, src, caught = sys.argv[1:5]
needs = " ".join(sys.argv[5:])
dst = os.path.join("/verif/seeded", name)
os.makedirs(dst, exist_ok=True)
shutil.copy(os.path.join(src, "patch.diff"), os.path.join(dst, "patch.diff"))
shutil.copy(os.path.join(src, "demo.py"), os.path.join(dst, "demo.py"))
if os.path.exists(os.path.join(src, "notes.md")):
    shutil.copy(os.path.join(src, "notes.md"), os.path.join(dst, "notes.md"))
meta = {
    "property": prop,
    "breaks": "see notes.md (written by the sub-agent that produced the change)",
    "needs_to_manifest": needs,
    "confirmed": {
        "patch_applies_to": "fumitoh/modelx /repo HEAD (scratch worktree; tools/try_seeded.sh)",
        "unit_tests": "869/869 of the pinned baseline still pass with the change (same ids)",
        "demo": "demo.py exits 0 on the unchanged tree and 1 with the change",
        "ran": "tools/try_seeded.sh %s patch.diff demo.py %s  (quick tier, VERIF_REPO=<scratch worktree>)" % (name, " ".join(caught.split(",")) if caught else prop),
    },
    "caught_by": [c for c in caught.split(",") if c],
}
json.dump(meta, open(os.path.join(dst, "meta.json"), "w"), indent=1)
print("archived", dst)
