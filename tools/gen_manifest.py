#!/usr/bin/env python3
"""Writes /verif/MANIFEST.json from the property table below (one source of truth)."""
import json, os, sys
ROOT = os.path.dirname(os.path.dirname(os.path.abspath(__file__)))

TRUST = ("Trusted base: TLC 1.8 evaluating spec/MxSem.tla (oracle), spec/MxProps.tla (predicates) and "
         "spec/MxTrace.tla (binding); the recorder (sys.monitoring) and the projection in harness/world.py "
         "report the real objects' state truthfully; the concretisation table harness/concretise.py renders "
         "abstract formulas to Python text with the meaning MxSem gives them (cross-checked on every run: "
         "fresh-model results must equal the oracle).")

CHECKS = {
 "C01": ("model_checking", "TLA+ oracle Den (MxSem) vs. recorded calls (trace validation) + TLC model check of MxEval + replay of TLC-enumerated histories",
         "Every call of every recorded execution returns exactly what the TLA+ denotational oracle computes from the current definitions; no formula of an element that held a value is entered (observed with sys.monitoring); all spellings bind to the element Bind() gives. Design level: TLC explores the small-step executor model exhaustively on a small instance; all histories of that instance up to the bound are replayed on the real library and judged by the same trace specification.", "§4 C01"),
 "C02": ("model_checking", "trace validation: after every operation every held value = Den(definitions from edits only); exhaustive (edit x path) pairs enumerated by TLC from MxEval and replayed",
         "After every operation of every recorded history TLC compares each held, non-input value with the oracle evaluated on definitions that were reconstructed from the edit arguments alone. TLC enumerates all two-operation histories (every edit kind x every dependency-path kind of the instance) and all are replayed on the code; MxEval is model-checked for depth-3 histories.", "§4 C02"),
 "C04": ("model_checking", "trace validation of write/read events: full projection of the re-read model (both formats, chained) = projection of the written one; read-back values = TLA+ oracle; zip members = directory files",
         "Programs of all three worlds (static, inheritance, ItemSpaces) decorated with docs (quotes, backslashes, non-ASCII), literal/picklable/object-valued references in all modes, inputs incl. ItemSpace inputs, are written in both formats at two points of a history, read back, and written/read again; TLC compares the complete projections (space tree, bases, parameter formulas with source, cells source/parameters/flags/docs, references with values/modes/targets, inputs), requires every queried cells of the re-read model to return the oracle value, the source model to be unchanged, and the archive members to equal the directory files.", "§4 C04"),
 "C05": ("model_checking", "trace validation with raise/None/recursion-limit faults at every op position + MxEval model check (Unwind/rollback actions)",
         "Formulas with Raise / return-None operations at every position and a reduced recursion limit are generated; after each failing call TLC checks error identity, that no element on the failing chain holds a value, completed elements keep theirs, the executor is idle, and NoStale; later calls must equal the oracle (retryable).", "§4 C05"),
 "C06": ("model_checking", "trace validation: discarded set = oracle-computed transitive dependents (DepsStar), survivors untouched and not re-executed; both recalc settings",
         "For every set/clear of one element TLC computes the true dependents from the definitions (not from modelx's graph) and requires the held set afterwards to be exactly the rest; inputs must persist/vanish by the stated rules; with recalc on, the dependents must be recomputed to oracle values.", "§4 C06"),
 "C07": ("model_checking", "trace validation with the TLA+ oracle evaluating cells inside ItemSpace contexts (arguments, returned refs, replicated child spaces, rebinding into the dynamic tree); instance identity and handle liveness judged by MxProps.ItemLabels/HandleLabels",
         "Histories interleave evaluations inside instances P[k], P[k].C, P[k].Q[j] (all argument spellings), inputs inside instances, explicit creation/deletion of instances and every edit kind of the base (formulas, references incl. object-valued ones pointing into the tree, members of child spaces, base spaces, the parameter formula) with handles taken at every earlier point. After every operation TLC requires every value held inside an instance to equal the oracle under the parameter binding, equal bindings to give the same instance, and every earlier handle into an instance to be dead or to be the current object for its arguments.", "§4 C07"),
 "C08": ("model_checking", "trace validation: preds()/succs() and raw graph vs. oracle call sets (GraphPreds), graph nodes = held elements, acyclic",
         "After every operation the public preds/succs of every held element and the raw trace graph are compared with what the oracle says each formula calls (through uncached cells: the cached elements reached plus the uncached cells object).", "§4 C08"),
 "C09": ("model_checking", "trace validation under random and toggled cached flags (oracle is flag-independent) + exhaustive 2^3 flag assignments in the MxEval instance",
         "The oracle ignores the cached flag, so every result and every held value of runs with arbitrary flag assignments and flag changes must equal it; uncached cells must hold nothing and be re-entered on every call.", "§4 C09"),
 "C17": ("model_checking", "trace validation: get_traceback() vs. chain of frames the escaping exception unwound (PY_UNWIND events), with earlier handled/unhandled failures",
         "The expected traceback is reconstructed from interpreter events alone (frames unwound by the escaping exception, with their line numbers) and compared with get_traceback(); histories contain earlier failures and failures swallowed by try/except inside formulas.", "§4 C17"),
 "C03": ("model_checking", "trace validation: reported members/bases of every space = from-scratch derivation along TLA+ C3 (MxSem.EMember/C3) after every edit",
         "After every operation the cells, references, bases and direct bases of every space as reported by the public API are compared with the derivation from scratch (C3 transcribed in TLA+, first definer wins) from definitions reconstructed from the edit arguments; derived cells are evaluated and compared with the oracle in the sub space.", "§4 C03"),
 "C10": ("model_checking", "trace validation: value of every derived object-valued reference vs. the binding rule stated by the property (MxProps.C10Expected)",
         "For every derived reference whose case the property fixes (relative/auto mode with the defining space or one of its cells as target; absolute mode; outside targets) the reported value must be the bound object the rule gives, after every edit including base changes.", "§4 C10"),
 "C11": ("model_checking", "trace validation: every rejected operation leaves the projected definitions and held values identical; accepted edits keep C3-linearisable acyclic bases",
         "Invalid operations (each rejection reason x operation) are attempted at random points; when an operation raises, the complete projection of the definitions and all held values must equal the ones before; after accepted edits the reported base relation must be acyclic with a C3 order for every space and only valid names exist.", "§4 C11"),
 "C12": ("model_checking", "trace validation: per-space name sets pairwise disjoint, dir() = Visible(D) computed by TLA+, library self-checks pass after every operation",
         "After every operation: cells / own references / child spaces of each space are pairwise disjoint, model-level names are unique, dir(space) equals the namespace the spec derives from the definitions, and modelx's own _check_sanity passes.", "§4 C12"),
 "C14": ("fault_enumeration", "fault injection at every audited file operation of save/load (sys.addaudithook) judged by TLC against MxSave; MxSave model-checked at file-operation granularity incl. every crash point",
         "Every file-system / pickling operation of a save or load (observed and failed in-process through an audit hook) is taken as the failure point for both formats, backups on/off, over a corpus of models and sequences of saves; after every attempt each slot (path, _BAK1.._BAK3) is classified by reading it back and TLC judges LastGoodSafe / GenerationsOrdered / GenerationsKept / NoPartialZip / SessionUsable / NoHalfLoadedModel on the recorded slot tables. The MxSave model (rotation, directory and zip write, move, cleanup, load) is model-checked exhaustively with a failure enabled at every step, and its histories are replayed on the code.", "§4 C14"),
 "C16": ("model_checking", "TLC model check of MxActions (get_calcsteps transcribed, calc/paste/clear on an abstract cache) over all DAGs x targets x steps x topological orders; every TLC-enumerated case executed on the real library and judged by the trace spec",
         "All DAGs on <= 4 (thorough 5) nodes x all target sets x step sizes x topological orders are model-checked; every case TLC enumerates is built as real cells, generate_actions/execute_actions are run with formula executions counted by sys.monitoring, and TLC judges the five predicates on the recorded data (plus DRIFT when the plan differs from the transcribed planner).", "§4 C16"),
 "C18": ("model_checking", "TLC model check of MxIOSpec (ReferenceManager / IOManager bookkeeping per operation) + trace validation of random and TLC-enumerated histories of new_pandas/new_module, assignment, deletion, update_pandas, base changes, space deletion, close, write/read",
         "The bookkeeping of `_valid_to_refs` and `IOManager.ios` is modelled operation by operation and model-checked (complete reachable space for the small instances, all 3-4 operation histories for the full vocabulary) with SpecsEqBoundValues / NoOrphanSpec / LocationsUnique / RejectedLeavesNothing / SanityChecks / SavedSpecsRoundTrip as invariants; random and model-enumerated histories over two models and a base/sub pair of spaces are executed on the real library with real pandas/module values (identified by identity), and TLC judges the projected specs, manager table and bound references after every operation; saved and re-read contents are compared by TLC.", "§4 C18"),
 "C19": ("model_checking", "TLC model check of MxRegistry (System.new_model / rename_model / _rename_samename / close_model / reader transcribed) + trace validation of random and TLC-enumerated histories over several open models",
         "The registry algorithm (auto names, backup renaming with its counter, refused and silent renames, close, read under a taken name) is model-checked exhaustively on small constants with NamesUniqueAndCurrent / HandlesFollow / NoModelDropped / CloseRemovesExactlyOne / Isolation as invariants; every history of the replay configuration and seeded random histories (new/read/rename with and without rename_old/close/edit/evaluate on concurrently open models, one linked by a reference) are executed on the real library and judged by the same module as a trace specification; exact backup names are compared as DRIFT only.", "§4 C19"),
 "C15": ("translation_validation", "translation validation per generated program: the TLA+ oracle Den(D, node) (MxSem) is the meaning of the source model; the package written by Exporter.export is imported in a subprocess in which modelx cannot be imported, every element is queried there, and TLC (MxExportTrace) judges package value = oracle value, repeated queries stable, cached/uncached packages agree",
         "Programs of the three worlds (static spaces, inheritance, ItemSpaces incl. nested ones) are decorated over a table of syntactic templates with the same meaning (lambdas, comprehensions, nested functions, names shadowing built-ins, parenthesised names, defaults; literal, pickled and object-valued references in all modes; parameter formulas with defaults), exported, and queried for every cells and argument tuple in a child process without modelx; TLC compares each result with the oracle on the definitions record, with the live model's value, with a second query, and with the package exported under flipped cached flags. No algorithm-layer model: the exporter is validated per program, not modelled.", "§4 C15"),
 "C20": ("exploration", "TLC model check of MxFormula (the capture pipeline of formula.py / cells.py transcribed over abstract source lines: getsource/BlockFinder, dedent, decorator removal, name and docstring replacement, lambda extraction) over the full product of the layout grammar; every layout TLC enumerates is rendered to real source text / function objects, run through the real library and judged by MxFormulaTrace",
         "The layout grammar of the quantifier (parameters with defaults/annotations, docstrings, comments in every position, nested defs/lambdas/classes, comprehensions, multi-line expressions and strings, decorators incl. multi-line ones, one-line bodies, arbitrary indentation, lambdas embedded in assignments and calls) is enumerated by TLC as a full product (thorough) or a hash sample (quick); for each layout a scripted history (capture, reference edit, re-creation from source, rename, documentation edits) is executed on real cells and TLC judges NoDecoratorLeft / NameIsCellsName / BodyUntouched / SelfContained / BehavesLikeFunction / ParamsKept / Idempotent / RenameInert / DocInert on the recorded sources, signatures and values. Bounded: one scripted history per layout on the code; free interleavings on the model only.", "§4 C20"),
 "C13": ("model_checking", "trace validation: every handle ever obtained is dead or is the current object at an existing place; no held value or graph node of a non-existing element",
         "The harness keeps a handle to every object it ever saw and probes it after every operation; TLC requires each to be dead (all probes raise DeletedObjectError) or to be the object currently found at the place it reports, which must exist in the definitions; held values and graph nodes must belong to existing elements.", "§4 C13"),
}

def main():
    sys.path.insert(0, ROOT)
    from harness.engines import PROPS
    checks = []
    for pid in sorted(CHECKS):
        if pid not in PROPS:
            continue
        level, technique, text, ref = CHECKS[pid]
        checks.append({
            "property_id": pid,
            "quick_cmd": "./check %s --tier quick" % pid,
            "thorough_cmd": "./check %s --tier thorough" % pid,
            "evidence_file": "/verif/evidence/%s.json" % pid,
            "replay_cmd_template": "./check %s --replay {path}" % pid,
            "engine": "mxtlc",
            "level_claimed": {"category": level, "text": text, "design_ref": "DESIGN.md " + ref},
            "level_note": TRUST,
            "technique": technique,
        })
    claimed = {c["property_id"] for c in checks}
    props = [json.loads(l)["id"] for l in open(os.path.join(ROOT, "properties.jsonl"))]
    na_reasons = json.load(open(os.path.join(ROOT, "tools", "not_applicable.json")))
    na = [{"property_id": p, "reason": na_reasons.get(p, "check not built yet in this round; see DESIGN.md")}
          for p in props if p not in claimed]
    man = {
        "version": 1,
        "setup_cmd": "./setup.sh",
        "hooks": {
            "guard": "MODELX_VERIF",
            "enable": "no source hooks: the harness observes modelx from outside (sys.monitoring for formula "
                      "frames, sys.addaudithook for file operations, public API + read-only internals)",
            "baseline_off_cmd": "python3 /verif/tools/baseline.py",
            "source_commits": [],
            "add_only": True,
        },
        "engines": [{"name": "mxtlc", "path": "/verif/check",
                     "serves_properties": sorted(claimed),
                     "kind_free_text": "explicit TLA+ specification (spec/*.tla) checked with TLC; conformance by "
                                       "trace validation of recorded executions and replay of TLC-enumerated histories"}],
        "checks": checks,
        "not_applicable": na,
        "notes": "fix: commits in /repo and known findings are listed in /verif/known_findings.json; see DESIGN.md. Run the thorough tier one property at a time (10-14 GB per run, DESIGN.md section 6.1).",
    }
    with open(os.path.join(ROOT, "MANIFEST.json"), "w") as f:
        json.dump(man, f, indent=1)
    print("claimed", sorted(claimed), "not_applicable", [x["property_id"] for x in na])

if __name__ == "__main__":
    main()
