#!/bin/bash
# tools/run_thorough_all.sh [ids...]  -- runs the thorough tier of the given (default: all) properties
# one after the other and prints one line per property with wall time and exit status.
cd "$(dirname "$0")/.."
ids="$@"; [ -z "$ids" ] && ids="C14 C16 C19 C18 C20 C15 C04 C07 C13 C10 C11 C12 C03 C17 C05 C06 C08 C09 C01 C02"
mkdir -p /tmp/thorough_logs
for p in $ids; do
  t0=$(date +%s)
  ./check $p --tier thorough > /tmp/thorough_logs/$p.log 2>&1; rc=$?
  t1=$(date +%s)
  echo "THOROUGH $p exit=$rc wall=$((t1-t0))s $(grep -m1 '^OK\|^FAILED\|MACHINERY' /tmp/thorough_logs/$p.log | cut -c1-160)"
done
