#!/venv/bin/python
"""Explain a trace: tools/explain.py (eval|inh) <seed> <profile> [nops] | replay <file>"""
import json, sys
sys.path.insert(0, "/verif")
from harness import pipeline as pl, tlc
from harness import concretise as cz
mode = sys.argv[1]
if mode == "replay":
    rec = json.load(open(sys.argv[2]))
    worker = pl.make_inh_trace if rec.get("world") == "inh" else None
    tr = pl.replay_ops_trace((rec["init"], rec["ops"], rec.get("opts", {})))
else:
    seed, profile = int(sys.argv[2]), sys.argv[3]
    nops = int(sys.argv[4]) if len(sys.argv) > 4 else 25
    worker = {"eval": pl.make_eval_trace, "inh": pl.make_inh_trace, "dyn": pl.make_dyn_trace, "c04": pl.make_c04_trace}[mode]
    tr = worker((seed, profile, nops, {}))
v, r = tlc.validate_traces([tr])
print(v)
for t in tlc._match_tuples(r["out"], "INFO"): print(" ".join(t.split())[:1500])
bad = sorted(set(l for lab, l in v[1]["viol"]))
d = tr["hdr"]["init"]
print("sp", d["sp"], "grefs", d["grefs"])
print("bases", [b for b in d["bases"] if b[1]])
for p, cs in d["cells"]:
    for c, rc in cs.items():
        print(p, c, rc, "|", cz.render(d["flib"][rc["f"]], c, d["sigs"]).replace("\n", " ; ") if not d["flib"][rc["f"]].get("bad") else "BAD")
for p, rs in d["refs"]:
    if rs: print(p, rs)
lim = max(bad) if bad else 0
for i, e in enumerate(tr["ev"], 1):
    if i > lim: break
    x = {k: v for k, v in e.items() if k not in ("post", "rec")}
    print(i, json.dumps(x)[:600])
    for key in ("f",):
        if e["op"] == "set_formula" and not d["flib"][e["f"]].get("bad"): print("      ", cz.render(d["flib"][e["f"]], e["c"], d["sigs"]).replace("\n", " ; "))
    if e["op"] == "new_cells" and not d["flib"][e["rec"]["f"]].get("bad"): print("      ", e["rec"], cz.render(d["flib"][e["rec"]["f"]], e["c"], d["sigs"]).replace("\n", " ; "))
    if i in bad:
        print("   data", json.dumps(e["post"]["data"]))
        print("   inputs", json.dumps(e["post"]["inputs"]), e["post"].get("sane_why"))
        if "defs" in e["post"]:
            pd = e["post"]["defs"]
            print("   defs.bases", pd["dbases"]); print("   defs.cells", json.dumps(pd["cells"])[:1500]); print("   defs.refs", json.dumps(pd["refs"])[:1500])
        if "handles" in e["post"]: print("   handles", [h for h in e["post"]["handles"] if h[2] not in ("current",)])
