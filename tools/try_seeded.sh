#!/bin/bash
# tools/try_seeded.sh <name> <patch.diff> <demo.py> <check ids...>
# Confirms a seeded change in a scratch worktree (patch applies, unit tests as on the
# unchanged tree, demo fails with / passes without the change), then runs the named
# checks (quick tier) against that worktree via VERIF_REPO.  Prints one summary line per step.
set -u
name=$1; patch=$2; demo=$3; shift 3
wt=/tmp/seedrun_$name
git -C /repo worktree remove --force "$wt" >/dev/null 2>&1
git -C /repo worktree add -q "$wt" HEAD || exit 2
trap 'git -C /repo worktree remove --force "$wt" >/dev/null 2>&1; git -C /repo worktree prune' EXIT
if ! git -C "$wt" apply "$patch"; then echo "RESULT $name patch=DOES-NOT-APPLY"; exit 2; fi
echo "RESULT $name patch=applies files=$(git -C "$wt" diff --stat | tail -1)"
( cd /tmp && PYTHONPATH=/repo /venv/bin/python "$demo" >/tmp/seedrun_${name}_demo_clean.log 2>&1 ); c=$?
( cd /tmp && PYTHONPATH="$wt" /venv/bin/python "$demo" >/tmp/seedrun_${name}_demo_mut.log 2>&1 ); m=$?
echo "RESULT $name demo_unchanged_exit=$c demo_changed_exit=$m"
if [ "${SKIP_TESTS:-0}" != "1" ]; then
  out=/tmp/seedrun_${name}_junit.xml
  ( cd "$wt" && PYTHONPATH="$wt" /venv/bin/python -m pytest -q -p no:cacheprovider --timeout=900 --continue-on-collection-errors --junitxml="$out" modelx/tests >/tmp/seedrun_${name}_tests.log 2>&1 )
  python3 - "$out" "$wt" <<'EOF'
import json, sys, xml.etree.ElementTree as ET
passed = set()
for tc in ET.parse(sys.argv[1]).getroot().iter("testcase"):
    if not any(ch.tag in ("failure", "error", "skipped") for ch in tc):
        passed.add(("%s::%s" % (tc.get("classname"), tc.get("name"))).replace(sys.argv[2], "/repo"))
stable = set(json.load(open("/root/.vp/BASELINE.json"))["stable_pass"])
missing = sorted(stable - passed)
print("RESULT tests stable_pass=%d passed_now=%d missing=%d %s" % (len(stable), len(passed), len(missing), missing[:3]))
EOF
fi
# the checks run from a scratch copy of /verif so that evidence/ and replays/ of the
# repository are only ever written by runs against /repo itself
vc=/tmp/seedrun_verif_$name
rm -rf "$vc"; mkdir -p "$vc"
# (the COMMITTED state of /verif, so that work in progress in the working tree does not leak in;
#  VERIF_WORKTREE=1 takes the working tree instead)
if [ "${VERIF_WORKTREE:-0}" = "1" ]; then
  rsync -a --exclude .git --exclude replays --exclude evidence --exclude seeded --exclude fixes /verif/ "$vc"/
else
  git -C /verif archive HEAD | tar -x -C "$vc" --exclude=replays --exclude=evidence --exclude=seeded --exclude=fixes
  mkdir -p "$vc/replays" "$vc/evidence"
fi
trap 'git -C /repo worktree remove --force "$wt" >/dev/null 2>&1; git -C /repo worktree prune; rm -rf "$vc"' EXIT
for pid in "$@"; do
  ( cd "$vc" && VERIF_REPO="$wt" ./check "$pid" --tier quick > /tmp/seedrun_${name}_$pid.log 2>&1 ); rc=$?
  labels=$(grep -o "\[[A-Za-z0-9:._-]* at event" /tmp/seedrun_${name}_$pid.log | sort | uniq -c | sort -rn | head -4 | tr '\n' ' ')
  echo "RESULT $name check=$pid exit=$rc $(grep -c VIOLATION /tmp/seedrun_${name}_$pid.log) violations; $labels $(grep -m1 'MACHINERY' /tmp/seedrun_${name}_$pid.log | cut -c1-150)"
done
