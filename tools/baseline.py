#!/usr/bin/env python3
"""Run the repository's pinned test command (guard off) and compare with BASELINE.json stable_pass."""
import json, subprocess, sys, os, tempfile, xml.etree.ElementTree as ET
b = json.load(open("/root/.vp/BASELINE.json"))
out = tempfile.mktemp(suffix=".xml")
cmd = b["cmd"].replace("<file>", out)
env = dict(os.environ); env.pop("MODELX_VERIF", None)
p = subprocess.run(cmd, shell=True, env=env, capture_output=True, text=True)
passed = set()
for tc in ET.parse(out).getroot().iter("testcase"):
    if not any(ch.tag in ("failure", "error", "skipped") for ch in tc):
        passed.add("%s::%s" % (tc.get("classname"), tc.get("name")))
os.unlink(out)
stable = set(b["stable_pass"])
missing = sorted(stable - passed)
print("stable_pass=%d passed_now=%d missing=%d" % (len(stable), len(passed), len(missing)))
for m in missing[:30]: print("  MISSING", m)
sys.exit(1 if missing else 0)
