"""Trace production (real modelx) and judgement (TLC), in parallel."""
import hashlib
import json
import multiprocessing as mp
import os
import time

from . import tlc


def trace_hash(tr):
    h = hashlib.sha1()
    ops = [{k: v for k, v in e.items() if k not in ("post", "fx", "res", "tb", "errtype", "raw")}
           for e in tr["ev"]]
    h.update(json.dumps([tr["hdr"]["init"], ops], sort_keys=True).encode())
    return h.hexdigest()[:16]


def is_nontrivial(tr):
    """A history counts as non-trivial when it contains at least one edit and one
    evaluation that ran a formula."""
    edits = sum(1 for e in tr["ev"] if e["op"] != "call")
    evals = sum(1 for e in tr["ev"] if e["op"] == "call" and e.get("fx"))
    return edits >= 1 and evals >= 1


def make_eval_trace(job):
    """Worker: generate one random program + history and record its execution."""
    from .gen import Gen
    from .world import World
    seed, profile, nops, opts = job
    g = Gen(seed, profile, **opts.get("gen", {}))
    defs = g.program()
    w = World(defs, maxdepth=opts.get("maxdepth"), recalc=opts.get("recalc", False))
    # every third history is observed quietly (values and graphs only, read from the raw
    # containers): looking at definitions after every operation refreshes lazy state
    quiet = opts.get("quiet", seed % 3 == 0)
    try:
        hdr = {"init": defs, "pdefs": w.project_defs(), "seed": seed, "profile": profile,
               "recalc": bool(opts.get("recalc", False))}
        if opts.get("maxdepth"):
            hdr["maxdepth"] = opts["maxdepth"]
        evs = []
        w.quiet = quiet
        for _ in range(nops):
            op = g.next_op()
            ev = w.apply(op, deep=opts.get("deep", True) and not quiet)
            g.update(op, ev["res"], ev)
            evs.append(ev)
        if opts.get("final_sweep", True):
            # query every element at the end: what was cached earlier never
            # changes a later answer
            for p, c in g.all_cells():
                for args in _all_args(g, c)[:4]:
                    evs.append(w.apply({"op": "call", "c": [list(p), [], c], "args": args,
                                        "sp": "pos"}, deep=False))
    finally:
        w.close()
    return {"hdr": hdr, "ev": evs}


def make_inh_trace(job):
    """Worker: inheritance world (C03, C10, C11, C12, C13)."""
    from .gen_inh import GenInh
    from .world import World
    seed, profile, nops, opts = job
    g = GenInh(seed, profile, **opts.get("gen", {}))
    defs = g.program()
    w = World(defs, track_handles=True, recalc=opts.get("recalc", False))
    try:
        hdr = {"init": defs, "pdefs": w.project_defs(), "seed": seed, "profile": profile,
               "recalc": bool(opts.get("recalc", False)), "checkdefs": True, "world": "inh"}
        evs = []
        for _ in range(nops):
            op = g.next_op()
            ev = w.apply(op, deep=True)
            g.update(op, ev["res"], ev)
            evs.append(ev)
        for p, c in g.all_cells():
            for args in _all_args(g, c)[:2]:
                evs.append(w.apply({"op": "call", "c": [list(p), [], c], "args": args,
                                    "sp": "pos"}, deep=False))
    finally:
        w.close()
    return {"hdr": hdr, "ev": evs}


def dispatch_trace(job):
    """Worker that lets one property mix worlds: opts["_worker"] names the producer."""
    seed, profile, nops, opts = job
    opts = dict(opts)
    fn = globals()[opts.pop("_worker")]
    return fn((seed, profile, nops, opts))


def make_dyn_trace(job):
    """Worker: dynamic-space world (C07)."""
    from .gen_dyn import GenDyn
    from .world import World
    seed, profile, nops, opts = job
    g = GenDyn(seed, profile, **opts.get("gen", {}))
    defs = g.program()
    quiet = opts.get("quiet", seed % 2 == 0)       # (see make_eval_trace)
    w = World(defs, track_handles=not quiet, recalc=opts.get("recalc", False))
    try:
        hdr = {"init": defs, "pdefs": w.project_defs(), "seed": seed, "profile": profile,
               "recalc": bool(opts.get("recalc", False)), "checkdefs": False, "world": "dyn"}
        evs = []
        w.quiet = quiet
        for _ in range(nops):
            op = g.next_op()
            ev = w.apply(op, deep=not quiet)
            g.update(op, ev["res"], ev)
            evs.append(ev)
        # final sweep over instances that exist
        for sp in list(w.all_spaces()):
            p, st = w.enc_space(sp)
            if st:
                for c in list(sp.cells):
                    for args in _all_args(g, c)[:2]:
                        evs.append(w.apply({"op": "call", "c": [p, st, c], "args": args, "sp": "pos"},
                                           deep=False))
    finally:
        w.close()
    return {"hdr": hdr, "ev": evs}


def make_c04_trace(job):
    """Worker: write/read round trips (C04) over programs of all three worlds."""
    import random
    from .gen import Gen
    from .gen_inh import GenInh
    from .gen_dyn import GenDyn
    from .world import World, LIT_CORPUS, DOC_CORPUS
    seed, profile, nops, opts = job
    rng = random.Random(seed * 7919 + 13)
    kind = ("eval", "inh", "dyn")[seed % 3]
    g = {"eval": lambda: Gen(seed, "edit", p_lambda=0.4), "inh": lambda: GenInh(seed, "inherit"),
         "dyn": lambda: GenDyn(seed)}[kind]()
    defs = g.program()
    # a cells whose NAME extends the name of another cells of the same space (c1 / c1x); it gets
    # an assigned value early on, so the two differ in having a data file of their own
    twin = None
    owners = [(p, c) for p, cs in g.mir["cells"].items() for c in cs if cs[c].get("cached")]
    if owners and rng.random() < 0.6:
        p, c = rng.choice(owners)
        t = c + "x"
        if t not in g.sigs and all(t not in g.mir[k].get(p, {}) for k in ("cells", "refs")):
            g.sigs[t] = g.sigs[c]
            g.rank[t] = g.rank.get(c, 0)
            g.mir["cells"][p][t] = dict(g.mir["cells"][p][c], cached=True)
            defs = g.defs_json()
            twin = (list(p), t)
    # decorate: literal / picklable reference values, docs
    sps = [tuple(p) for p in defs["sp"]]
    for i in range(rng.choice([1, 2, 3])):
        p = list(rng.choice(sps))
        name = "l%d" % i
        for row in defs["refs"]:
            if row[0] == p:
                row[1][name] = {"v": ["lit", rng.randrange(len(LIT_CORPUS)), [], ""],
                                "mode": rng.choice(["auto", "absolute"])}
    if rng.random() < 0.5:
        defs["grefs"]["lg"] = {"v": ["lit", rng.randrange(len(LIT_CORPUS)), [], ""]}
    docs = {"spaces": [], "cells": []}
    for p in defs["sp"]:
        if rng.random() < 0.5:
            docs["spaces"].append([p, rng.randrange(len(DOC_CORPUS))])
    for p, cs in defs["cells"]:
        for c, rec in cs.items():
            if rng.random() < 0.4:       # (def and lambda cells alike)
                docs["cells"].append([p, c, rng.randrange(len(DOC_CORPUS))])
    defs["docs"] = docs
    w = World(defs, track_handles=False)
    try:
        hdr = {"init": defs, "pdefs": w.project_defs(), "seed": seed, "profile": kind,
               "recalc": False, "checkdefs": kind != "dyn", "world": "c04"}
        evs = []

        def queries():
            qs = []
            for sp in list(w.all_spaces()):
                p, st = w.enc_space(sp)
                for c in list(sp.cells):
                    for args in _all_args(g, c)[:2]:
                        qs.append([p, st, c, args])
            return qs[:40]
        k = 0
        if twin:
            op = {"op": "set_value", "c": [twin[0], [], twin[1]],
                  "args": g.rand_args(twin[1], False), "v": 500}
            ev = w.apply(op, deep=True)
            g.update(op, ev["res"], ev)
            evs.append(ev)
        for i in range(nops):
            if i in (nops // 2, nops - 1):
                ev = w.apply({"op": "write_read", "queries": queries(), "chain": bool(opts.get("chain", k == 0)),
                              "backup": bool((seed + k) % 2)})
                k += 1
            else:
                op = g.next_op()
                ev = w.apply(op, deep=True)
                g.update(op, ev["res"], ev)
            evs.append(ev)
    finally:
        w.close()
    return {"hdr": hdr, "ev": evs}


def _all_args(g, c):
    ps = g.sigs[c]
    if not ps:
        return [[]]
    if len(ps) == 1:
        return [[k] for k in (0, 1, 2, 3)]
    return [[k, j] for k in (0, 2) for j in (0, 1)]


def replay_ops_trace(job):
    """Worker: replay a given (defs, ops) history (spec -> code direction)."""
    from .world import World
    defs, ops, opts = job
    w = World(defs, maxdepth=opts.get("maxdepth"), recalc=opts.get("recalc", False),
              track_handles=bool(opts.get("handles")))
    try:
        hdr = {"init": defs, "pdefs": w.project_defs(), "recalc": bool(opts.get("recalc", False))}
        if opts.get("checkdefs"):
            hdr["checkdefs"] = True
        if opts.get("maxdepth"):
            hdr["maxdepth"] = opts["maxdepth"]
        evs = [w.apply(op, deep=opts.get("deep", True)) for op in ops]
    finally:
        w.close()
    return {"hdr": hdr, "ev": evs}


def produce(worker, jobs, procs=16):
    if procs <= 1 or len(jobs) <= 1:
        return [worker(j) for j in jobs]
    ctx = mp.get_context("fork")
    with ctx.Pool(min(procs, len(jobs))) as pool:
        return pool.map(worker, jobs, chunksize=max(1, len(jobs) // (procs * 4)))


def _judge(args):
    batch, module, cfg = args
    v, r = tlc.validate_traces(batch, module=module, cfg=cfg)
    return v, {k: r.get(k) for k in ("wall_s", "states", "transitions")}


def judge(traces, module="MxTrace", cfg="MxTrace.cfg", batch_size=40, procs=8):
    """Validate traces with TLC in parallel batches; returns per-trace verdicts in order."""
    batches = [traces[i:i + batch_size] for i in range(0, len(traces), batch_size)]
    jobs = [(b, module, cfg) for b in batches]
    if len(jobs) == 1 or procs <= 1:
        results = [_judge(j) for j in jobs]
    else:
        ctx = mp.get_context("fork")
        with ctx.Pool(min(procs, len(jobs))) as pool:
            results = pool.map(_judge, jobs)
    out, stats = [], {"states": 0, "transitions": 0, "tlc_wall_s": 0.0, "batches": len(jobs)}
    for (v, st), b in zip(results, batches):
        for i in range(len(b)):
            out.append(v[i + 1])
        stats["states"] += st.get("states") or 0
        stats["transitions"] += st.get("transitions") or 0
        stats["tlc_wall_s"] += st.get("wall_s") or 0.0
    return out, stats
