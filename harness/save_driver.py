"""C14 driver: executes save / load scenarios on the REAL modelx under single-fault injection and
records, per attempt, the audited operations and the projected abstract state (slot table read
back from disk, registry, serializing flags).  No verdicts here: the records go to TLC
(spec/MxSaveTrace.tla).

Fault injection needs no edits to modelx: ``sys.addaudithook`` sees every file operation of a
save / load; raising OSError from the hook makes exactly that operation fail in-process.  An audit
hook cannot be removed, so ONE hook is installed per worker process; it consults INJ.
"""
import errno
import hashlib
import os
import random
import shutil
import sys
import tempfile
import zipfile

if os.environ.get("VERIF_REPO"):
    sys.path.insert(0, os.environ["VERIF_REPO"])

from . import save_corpus as corpus  # noqa: E402

EVENTS = {
    "open", "os.mkdir", "os.rename", "os.replace", "os.rmdir", "os.remove", "os.scandir",
    "os.listdir", "os.link", "os.symlink", "os.truncate", "os.chmod", "os.utime",
    "shutil.move", "shutil.rmtree", "shutil.copytree", "shutil.copyfile", "shutil.copymode",
    "shutil.copystat", "shutil.make_archive", "shutil.unpack_archive",
    "tempfile.mkdtemp", "tempfile.mkstemp", "pickle.find_class",
    "verif.pickle.reduce", "verif.pickle.rebuild",
}
TWO_PATHS = {"os.rename", "os.replace", "shutil.move", "shutil.copyfile", "shutil.copytree",
             "shutil.copymode", "shutil.copystat", "os.link", "os.symlink"}

INJ = {"mode": "off", "root": None, "count": 0, "fail_at": 0, "ops": [], "fired": 0,
       "installed": False}


def _label(p):
    """Where a path argument points, relative to the case directory; None = not ours."""
    if isinstance(p, int):
        return "fd"
    try:
        p = os.fspath(p)
    except TypeError:
        return None
    if isinstance(p, bytes):
        p = p.decode(errors="replace")
    if not os.path.isabs(p):
        return "rel"                    # rmtree works with dir_fd + relative names
    root = INJ["root"]
    if not (p == root or p.startswith(root + os.sep)):
        return None
    rel = p[len(root) + 1:]
    if rel == "":
        return "root"
    parts = rel.split(os.sep)
    head = parts[0]
    if head == "tmp":
        if len(parts) >= 3 and parts[2] == "m" and len(parts) == 3:
            return "tmp:arc"
        return "tmp"
    slot = {"m": "path", "m_BAK1": "bak1", "m_BAK2": "bak2", "m_BAK3": "bak3"}.get(head)
    if slot is None:
        return "root"
    return slot if len(parts) == 1 else "in:" + slot


def _hook(ev, args):
    st = INJ
    if st["mode"] == "off" or ev not in EVENTS:
        return
    if ev in ("pickle.find_class", "verif.pickle.reduce", "verif.pickle.rebuild"):
        a, b = "pickle", str(args[-1]) if ev == "pickle.find_class" else "value"
    else:
        a = _label(args[0]) if args else None
        if a is None:
            return
        if ev in TWO_PATHS and len(args) > 1:
            b = _label(args[1]) or "out"
        elif ev == "open":
            b = str(args[1])[:3] if len(args) > 1 and args[1] is not None else "fd"
        else:
            b = ""
    st["count"] += 1
    st["ops"].append([ev, a, b])
    if st["mode"] == "fail" and st["count"] == st["fail_at"]:
        st["mode"] = "count"            # single fault; the rest of the call is only recorded
        st["fired"] = st["count"]
        if st.get("exc") == "kbd":
            # the save / load is INTERRUPTED at this operation (not an Exception subclass)
            raise KeyboardInterrupt("verif: injected interruption at operation %d (%s %s)" % (
                st["count"], ev, a))
        raise OSError(errno.EIO, "verif: injected failure of operation %d (%s %s)" % (
            st["count"], ev, a))


def install():
    if not INJ["installed"]:
        sys.addaudithook(_hook)
        INJ["installed"] = True


def _arm(root, fail_at, exc="os"):
    INJ.update(mode="fail" if fail_at else "count", root=root, count=0, fail_at=fail_at,
               ops=[], fired=0, exc=exc)


def _disarm():
    INJ["mode"] = "off"
    return INJ["ops"], INJ["fired"]


# ---------------------------------------------------------------------------
SLOTS = ["m", "m_BAK1", "m_BAK2", "m_BAK3"]


def _content_key(p):
    h = hashlib.sha1()
    if os.path.isdir(p):
        h.update(b"D")
        for d, dirs, files in sorted(os.walk(p)):
            dirs.sort()
            h.update(("/" + os.path.relpath(d, p)).encode())
            for f in sorted(files):
                h.update(("|" + f + "|").encode())
                with open(os.path.join(d, f), "rb") as fh:
                    h.update(fh.read())
    else:
        h.update(b"F")
        with open(p, "rb") as fh:
            h.update(fh.read())
    return h.hexdigest()


class Case:
    """One scenario on a fresh model in a fresh directory."""

    def __init__(self, kind):
        import modelx as mx
        from modelx.core.system import mxsys
        self.mx, self.mxsys = mx, mxsys
        for m in list(mx.get_models().values()):
            m.close()
        self.kind = kind
        self.root = os.path.realpath(tempfile.mkdtemp(prefix="mxv_c14_"))
        os.mkdir(os.path.join(self.root, "tmp"))
        self._old_tmp = tempfile.tempdir
        tempfile.tempdir = os.path.join(self.root, "tmp")    # zip saves build their archive here
        self.model = corpus.build(kind)
        self.gen = 0
        self.fps = []
        self.cache = {}
        self.cids = {}
        self.scratch = 0

    def close(self):
        tempfile.tempdir = self._old_tmp
        for m in list(self.mx.get_models().values()):
            try:
                m.close()
            except Exception:
                pass
        shutil.rmtree(self.root, ignore_errors=True)

    def slot_path(self, n):
        return os.path.join(self.root, SLOTS[n])

    def registry(self):
        return sorted(self.mx.get_models().keys())

    def flags(self):
        return (1 if self.mxsys.serializing is not None else 0) + \
               (2 if self.mxsys.iomanager.serializing is not None else 0)

    def classify(self, n):
        """[present?, kind, readable?, generation, fingerprint] of a slot, by reading it back."""
        p = self.slot_path(n)
        if not os.path.lexists(p):
            return {"p": False, "kind": "none", "r": False, "gen": 0, "fp": 0, "cid": 0}
        kind = "dir" if os.path.isdir(p) else ("zip" if zipfile.is_zipfile(p) else "file")
        key = _content_key(p)
        if key not in self.cache:
            self.scratch += 1
            name = "Z%d" % self.scratch
            before = set(self.mx.get_models().keys())
            try:
                m2 = self.mx.read_model(p, name=name)
                g, fp = corpus.fingerprint(m2, self.kind)
                self.cache[key] = (True, g, fp)
            except Exception:
                self.cache[key] = (False, 0, 0)
            finally:
                # the classifier must not leave anything behind, whatever the library did
                self.mxsys.serializing = None
                self.mxsys.iomanager.serializing = None
                for nm, mm in list(self.mx.get_models().items()):
                    if nm not in before:
                        try:
                            mm.close()
                        except Exception:
                            pass
        r, g, fp = self.cache[key]
        cid = self.cids.setdefault(key, len(self.cids) + 1)     # identity of the content
        return {"p": True, "kind": kind, "r": r, "gen": g, "fp": fp, "cid": cid}

    def table(self):
        return [self.classify(n) for n in range(4)]

    def extras(self):
        names = os.listdir(self.root)
        nbak = sum(1 for x in names if x.startswith("m_BAK"))
        other = sum(1 for x in names if x not in SLOTS and x != "tmp" and not x.startswith("m_BAK"))
        tmpleft = len(os.listdir(os.path.join(self.root, "tmp")))
        return nbak, other, tmpleft

    # -- operations ---------------------------------------------------------
    def save(self, fmt, bk, fault, fexc="os"):
        self.gen += 1
        corpus.set_gen(self.model, self.kind, self.gen)
        g, fp = corpus.fingerprint(self.model, self.kind)
        assert g == self.gen
        self.fps.append(fp)
        reg0 = self.registry()
        path = self.slot_path(0)
        raised, exc = False, "none"
        _arm(self.root, fault, fexc)
        try:
            if fmt == "dir":
                self.model.write(path, backup=bk)
            else:
                self.model.zip(path, backup=bk)
        except BaseException as e:      # noqa: B902 - whatever the library lets out
            raised, exc = True, type(e).__name__
        finally:
            ops, fired = _disarm()
        flags = self.flags()
        nbak, other, tmpleft = self.extras()
        ev = {"op": "save", "fmt": fmt, "bk": bool(bk), "gen": self.gen, "fault": fault,
              "fired": fired, "fev": ops[fired - 1][0] if fired else "none",
              "ftgt": ops[fired - 1][1] if fired else "none",
              "raised": raised, "exc": exc, "ops": ops, "nops": len(ops),
              "post": self.table(), "nbak": nbak, "other": other, "tmpleft": tmpleft,
              "flags": flags, "reg0": reg0, "reg": self.registry()}
        if tmpleft:
            shutil.rmtree(os.path.join(self.root, "tmp"), ignore_errors=True)
            os.mkdir(os.path.join(self.root, "tmp"))
        return ev

    def load(self, slot, fault, fexc="os"):
        reg0 = self.registry()
        name = "L"
        raised, exc, got = False, "none", {"gen": 0, "fp": 0}
        m2 = None
        _arm(self.root, fault, fexc)
        try:
            m2 = self.mx.read_model(self.slot_path(slot), name=name)
        except BaseException as e:      # noqa: B902
            raised, exc = True, type(e).__name__
        finally:
            ops, fired = _disarm()
        flags = self.flags()
        reg = self.registry()
        if m2 is not None:
            try:
                g, fp = corpus.fingerprint(m2, self.kind)
                got = {"gen": g, "fp": fp}
            except Exception:
                got = {"gen": -1, "fp": 0}
        _, _, tmpleft = self.extras()
        ev = {"op": "load", "slot": slot, "name": name, "fault": fault, "fired": fired,
              "fev": ops[fired - 1][0] if fired else "none",
              "ftgt": ops[fired - 1][1] if fired else "none",
              "raised": raised, "exc": exc, "ops": ops, "nops": len(ops), "got": got,
              "tmpleft": tmpleft, "flags": flags, "reg0": reg0, "reg": reg}
        # the user of a loaded model closes it again; leftovers of a FAILED load are recorded above
        # and removed here so that the rest of the scenario runs in a defined session
        for nm, mm in list(self.mx.get_models().items()):
            if nm not in reg0:
                try:
                    mm.close()
                except Exception:
                    pass
        if flags:
            self.mxsys.serializing = None
            self.mxsys.iomanager.serializing = None
        if tmpleft:
            shutil.rmtree(os.path.join(self.root, "tmp"), ignore_errors=True)
            os.mkdir(os.path.join(self.root, "tmp"))
        return ev

    def step(self, st, fault):
        if st["op"] == "save":
            return self.save(st["fmt"], st["bk"], fault, st.get("exc", "os"))
        return self.load(st["slot"], fault, st.get("exc", "os"))


# ---------------------------------------------------------------------------
def phases(ev):
    """Partition the audited operations of one (fault-free) attempt into the phases of the model
    (spec/MxSave.tla): used only to translate a model-level failure point <<phase, index>> of a
    TLC-enumerated history into the index of a concrete operation."""
    ops = ev["ops"]
    out = {}
    if ev["op"] == "save":
        i = 0
        rot = []
        while i < len(ops) and not (ops[i][0] == "tempfile.mkdtemp" or
                                    (ops[i][0] == "os.mkdir" and ops[i][1] == "path")):
            if ops[i][0] in ("os.rename", "shutil.rmtree", "os.remove") and \
                    ops[i][1] in ("path", "bak1", "bak2", "bak3"):
                rot.append(i + 1)
            i += 1
        out["rot"] = rot
        if ev["fmt"] == "dir":
            out["mkroot"] = [i + 1]
            out["write"] = list(range(i + 2, len(ops) + 1))
        else:
            out["mktmp"] = [i + 1]
            j = i
            while j < len(ops) and not (ops[j][0] == "open" and ops[j][1] == "tmp:arc"):
                j += 1
            out["mkroot"] = [j + 1]
            # (a library that no longer moves the archive has no such operation: the phases
            #  that cannot be located are simply empty and resolve() falls back to "no fault")
            mv = next((x for x in range(len(ops)) if ops[x][0] == "shutil.move"), len(ops))
            sc = next((x for x in range(j + 1, mv) if ops[x][0] == "os.scandir"), max(j + 1, mv - 1))
            out["write"] = list(range(j + 2, sc + 1))
            out["archive"] = list(range(sc + 1, mv + 1))
            out["move"] = [mv + 1] if mv < len(ops) else []
            out["cleanup"] = list(range(mv + 3, len(ops) + 1))
    else:
        out["meta"] = [1]
        out["open"] = [2] if len(ops) >= 2 else [1]
        out["parse"] = list(range(3, len(ops) + 1)) or [len(ops)]
    return out


def resolve(sym, ev, nfiles):
    """<<phase, index>> of the model -> index of a concrete audited operation."""
    ph, ix = sym
    if ph == "none":
        return 0
    try:
        cand = [c for c in (phases(ev).get(ph) or []) if 1 <= c <= len(ev["ops"])]
    except Exception:       # never let a StopIteration & co. escape into Pool.map
        cand = []
    if not cand:
        return 0
    if ph in ("write", "parse") and nfiles > 1:
        pos = round((ix - 1) * (len(cand) - 1) / (nfiles - 1))
        return cand[min(max(pos, 0), len(cand) - 1)]
    return cand[min(ix, len(cand)) - 1]


def _run(kind, steps, upto=None, count_last=False):
    """Execute steps[:upto]; returns the events.  With count_last the last step runs fault-free
    (count pass) whatever its fault field says."""
    case = Case(kind)
    try:
        evs = []
        n = len(steps) if upto is None else upto
        for i, st in enumerate(steps[:n]):
            fault = st.get("fault", 0)
            if count_last and i == n - 1:
                fault = 0
            evs.append(case.step(st, fault))
        return evs, list(case.fps)
    finally:
        case.close()


def run_case(case):
    """case = {"model": kind, "steps": [...], "nfiles": NFiles of the model (for "sym")}.
    A step's fault is an int (0 = none) or is given symbolically as "sym": [phase, index]."""
    install()
    kind = case["model"]
    steps = [dict(s) for s in case["steps"]]
    for i, st in enumerate(steps):
        if "sym" in st and "fault" not in st:
            if st["sym"][0] == "none":
                st["fault"] = 0
            else:
                evs, _ = _run(kind, steps, upto=i + 1, count_last=True)
                st["fault"] = resolve(st["sym"], evs[-1], case.get("nfiles", 2))
    evs, fps = _run(kind, steps)
    hdr = {"model": kind, "fps": fps, "family": case.get("family", ""),
           "steps": steps, "nfiles": case.get("nfiles", 0)}
    return {"hdr": hdr, "ev": evs}


def expand(job):
    """job = {"model", "steps", "family", "shard": [r, n], "seed"}; steps may carry
    "fault": "each" (every audited operation of that attempt, in turn) or "fault": ["sample", k].
    Returns the list of recorded traces."""
    install()
    kind = job["model"]
    rng = random.Random(job.get("seed", 0))
    r, n = job.get("shard", [0, 1])
    out = []

    def rec(steps, top):
        idx = next((i for i, s in enumerate(steps) if not isinstance(s.get("fault", 0), int)), None)
        if idx is None:
            out.append(run_case({"model": kind, "steps": steps, "family": job.get("family", "")}))
            return
        evs, _ = _run(kind, steps, upto=idx + 1, count_last=True)
        k = evs[-1]["nops"]
        spec = steps[idx]["fault"]
        choice = list(range(1, k + 1))
        if top:
            choice = [i for i in choice if i % n == r]
        if spec != "each":
            rng.shuffle(choice)
            choice = sorted(choice[:max(1, -(-spec[1] // (n if top else 1)))])
        for i in choice:
            s2 = [dict(s) for s in steps]
            s2[idx]["fault"] = i
            # every third fault point is an interruption (KeyboardInterrupt) instead of an OSError
            s2[idx]["exc"] = "kbd" if (i + job.get("seed", 0)) % 3 == 0 else "os"
            rec(s2, False)

    rec([dict(s) for s in job["steps"]], True)
    return out
