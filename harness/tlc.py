"""Running TLC and reading what it prints."""
import json
import os
import re
import shutil
import subprocess
import tempfile
import time

SPEC_DIR = os.path.join(os.path.dirname(os.path.dirname(os.path.abspath(__file__))), "spec")
JAR_CP = "/opt/veriftools/tla/tla2tools.jar:/opt/veriftools/tla/CommunityModules-deps.jar"


class TLCError(Exception):
    pass


def _match_tuples(text, marker):
    """Yield the text of every <<"marker", ...>> tuple printed by PrintT (bracket matching;
    output of several workers may interleave lines but a tuple is printed atomically)."""
    out = []
    pat = re.compile(r'<<\s*"%s"' % re.escape(marker))
    i = 0
    while True:
        mm = pat.search(text, i)
        if not mm:
            break
        i = mm.start()
        depth, j, instr = 0, i, False
        while j < len(text):
            ch = text[j]
            if instr:
                if ch == "\\":
                    j += 1
                elif ch == '"':
                    instr = False
            elif ch == '"':
                instr = True
            elif text.startswith("<<", j):
                depth += 1
                j += 1
            elif text.startswith(">>", j):
                depth -= 1
                j += 1
                if depth == 0:
                    break
            j += 1
        out.append(text[i:j + 1])
        i = j + 1
    return out


def tla_to_py(txt):
    """Parse a printed TLA+ value made of tuples, sets, strings, ints, booleans."""
    pos = 0
    n = len(txt)

    def ws():
        nonlocal pos
        while pos < n and txt[pos] in " \t\r\n":
            pos += 1

    def val():
        nonlocal pos
        ws()
        if txt.startswith("<<", pos):
            pos += 2
            items = []
            ws()
            if txt.startswith(">>", pos):
                pos += 2
                return items
            while True:
                items.append(val())
                ws()
                if txt.startswith(">>", pos):
                    pos += 2
                    return items
                assert txt[pos] == ",", txt[pos:pos + 30]
                pos += 1
        if txt[pos] == "{":
            pos += 1
            items = []
            ws()
            if txt[pos] == "}":
                pos += 1
                return items
            while True:
                items.append(val())
                ws()
                if txt[pos] == "}":
                    pos += 1
                    return items
                assert txt[pos] == ",", txt[pos:pos + 30]
                pos += 1
        if txt[pos] == '"':
            j = pos + 1
            buf = []
            while txt[j] != '"':
                if txt[j] == "\\":
                    j += 1
                buf.append(txt[j])
                j += 1
            pos = j + 1
            return "".join(buf)
        m = re.match(r"-?\d+", txt[pos:])
        if m:
            pos += len(m.group(0))
            return int(m.group(0))
        if txt.startswith("TRUE", pos):
            pos += 4
            return True
        if txt.startswith("FALSE", pos):
            pos += 5
            return False
        raise ValueError("cannot parse TLA+ value at: %r" % txt[pos:pos + 40])

    return val()


def run_tlc(module, cfg=None, env=None, workers=1, timeout=3600, extra=(), simulate=None,
            keep_output=False, heap="8g"):
    """Run TLC on spec/<module>.tla. Returns dict(out, wall_s, states, distinct, ok)."""
    work = tempfile.mkdtemp(prefix="mxv_tlc_")
    try:
        cmd = ["java", "-XX:+UseParallelGC", "-Xss512m", "-Xmx" + heap, "-cp", JAR_CP, "tlc2.TLC",
               "-workers", str(workers), "-metadir", os.path.join(work, "meta"),
               "-noGenerateSpecTE"]
        if cfg:
            cmd += ["-config", cfg]
        if simulate:
            cmd += ["-simulate", simulate]
        cmd += list(extra)
        cmd += [module + ".tla"]
        e = dict(os.environ)
        e.update(env or {})
        t0 = time.time()
        try:
            p = subprocess.run(cmd, cwd=SPEC_DIR, env=e, capture_output=True, text=True,
                               timeout=timeout)
            out = p.stdout + p.stderr
            rc = p.returncode
        except subprocess.TimeoutExpired as te:
            out = (te.stdout or b"").decode(errors="replace") if isinstance(te.stdout, bytes) else (te.stdout or "")
            rc = -9
        wall = time.time() - t0
        res = {"out": out, "wall_s": wall, "rc": rc}
        m = re.search(r"(\d+) states generated, (\d+) distinct states found", out)
        if m:
            res["states"] = int(m.group(2))
            res["transitions"] = int(m.group(1))
        m = re.search(r"The depth of the complete state graph search is (\d+)", out)
        if m:
            res["depth"] = int(m.group(1))
        res["ok"] = ("Model checking completed. No error has been found" in out) or \
                    ("Finished computing initial states" in out and rc == 0 and "Error:" not in out)
        res["error"] = "Error:" in out
        return res
    finally:
        shutil.rmtree(work, ignore_errors=True)


def verdicts(out):
    """Parse <<"VERDICT", tid, matched, total, {<<label, line>>...}>> lines."""
    res = {}
    for t in _match_tuples(out, "VERDICT"):
        v = tla_to_py(t)
        res[v[1]] = {"matched": v[2], "total": v[3], "viol": [(x[0], x[1]) for x in v[4]]}
    return res


def validate_traces(traces, module="MxTrace", cfg="MxTrace.cfg", timeout=900, keep=None):
    """Write a batch, run the trace spec, return (verdicts dict, tlc result)."""
    fd, path = tempfile.mkstemp(prefix="mxv_traces_", suffix=".json")
    try:
        with os.fdopen(fd, "w") as f:
            json.dump(traces, f)
        r = run_tlc(module, cfg=cfg, env={"TRACE_FILE": path}, workers=1, timeout=timeout,
                    heap="1500m")
        v = verdicts(r["out"])
        if len(v) != len(traces):
            out = r["out"]
            i = out.find("Error:")
            shutil.copy(path, "/tmp/mxv_failed_batch.json")
            raise TLCError("TLC produced %d verdicts for %d traces (batch kept at "
                           "/tmp/mxv_failed_batch.json):\n%s" % (
                               len(v), len(traces), out[max(0, i - 200):i + 2500]))
        return v, r
    finally:
        if keep:
            shutil.copy(path, keep)
        os.unlink(path)
