"""C20 -- formula capture is faithful and idempotent; rename and doc edits are inert.

Steps of a run (verdicts always come from TLC):
  1. design level : TLC model-checks spec/MxFormula.tla (the capture pipeline of formula.py
     transcribed over abstract physical lines + Recreate / Rename / SetDoc / SetRef) on the
     layouts of the tier, with the C20 predicates as invariants.  Five defects found with this
     machinery were repaired in modelx; MxFormulaBase!Fixed names them, their situations stay
     classified by the KF predicates (tripwires: Inv_NoKnownFinding at design level, the
     "KF:C20.*" labels on the code), MC_MxFormula_kf.cfg lists the KF labels the model reaches;
  2. spec -> code : TLC prints every layout of the tier once with the history to run on it
     (MBT idiom); harness/formula_render.py renders the layout to Python text (text forms) or
     to a module file that is imported (function / lambda objects, decorators, mx.defcells);
     the history is executed on REAL modelx cells and after every operation the cells is
     observed (formula.source mapped back to <<line id, column>> pairs, def name, decorators
     left, parameters, values for sample arguments, stand-alone execution of the source,
     cells.doc);
  3. code -> spec : TLC judges the recordings with spec/MxFormulaTrace.tla: the C20 predicates
     on the observations (violations) and the observations against the algorithm layer (DRIFT);
  4. negative controls: one recording corrupted per predicate, each must be flagged;
  5. evidence.
"""
import collections
import copy
import hashlib
import importlib
import json
import multiprocessing as mp
import os
import random
import re
import shutil
import sys
import tempfile
import time
from concurrent.futures import ThreadPoolExecutor

if os.environ.get("VERIF_REPO"):          # mutation testing: import modelx from a scratch copy
    sys.path.insert(0, os.environ["VERIF_REPO"])

from . import tlc
from . import formula_render as fr

PIDS = ["C20"]
LEVEL = {"C20": "exploration"}

ROOT = os.path.dirname(os.path.dirname(os.path.abspath(__file__)))
NCPU = min(16, os.cpu_count() or 1)
TRACE_MODULE, TRACE_CFG = "MxFormulaTrace", "MxFormulaTrace.cfg"
MODEL_ACTIONS = ["GetSource", "Classify", "DedentStep", "RemoveDecoratorStep",
                 "ReplaceFuncNameStep", "CompileStep", "ExtractLambdaStep", "ExecLambdaStep",
                 "Recreate", "Rename", "SetDoc", "SetRef"]
PROPERTY_LABELS = ["C20.Accepted", "C20.NoDecoratorLeft", "C20.NameIsCellsName",
                   "C20.BodyUntouched", "C20.SelfContained", "C20.BehavesLikeFunction",
                   "C20.ParamsKept", "C20.Idempotent", "C20.RenameInert", "C20.DocInert"]
OPS = ["capture", "setref", "recreate", "rename", "setdoc"]

ASSUMPTIONS = [
    "function texts are those of the layout grammar of spec/MxFormulaBase.tla part 1 (forms: def "
    "text, lambda text, function object, lambda object, decorated function object incl. the "
    "mx.defcells decorator; base indentation 0/4/8 blanks or a tab; decorators plain / call / "
    "multi-line call with comments between; one-line, normal, multi-line and annotated headers; "
    "six docstring kinds; eight body recipes; trailing and last-line comments; lambdas bare, "
    "assigned, after `;`, inside a call or parentheses, with line breaks in their own brackets, "
    "after a backslash, in the enclosing brackets, before and after them); the return expression "
    "is 3*x + 5*y + G + one term per body line, G a reference of the cells' space",
    "lambda OBJECTS taken from a statement with several lambdas (dict / call arguments, one per "
    "line; the cells is made from the first, second or third) and lambdas containing another "
    "lambda are part of the grammar; when more than one Lambda node starts on the line of the "
    "object (two on one line, a nested lambda on the line of its parent) the code raises "
    "ValueError 'more than 1 lambda expressions found' (formula.py:348-349): the model predicts "
    "exactly that rejection and the judge accepts 'rejected with ValueError, or captured right'; "
    "lambda TEXTS with several sibling lambdas are excluded (formula.py:282-289 has_lambda 'only "
    "one lambda expression'; the first of ast.walk is taken); also excluded: async def and other non-def statements (is_funcdef "
    "formula.py:139-152 -> ValueError 'invalid function or lambda definition'); a def that calls "
    "itself by its def name or whose defaults / annotations need global names (the def is "
    "executed in an empty namespace, formula.py:417-419)",
    "multi-line documentation strings are not set on cells with a one-line body (bound of the "
    "model and of the histories)",
    "the history run on a layout is one fixed behaviour of the model chosen by the layout "
    "(Script in MxFormula.tla: setref, recreate, rename, setdoc, recreate, rename, setdoc, "
    "setref with the documentation kinds rotating over the layouts); the free interleavings "
    "are explored on the model only (MaxOps)",
    "function and lambda objects are created by importing a generated module file from a "
    "temporary directory so that inspect finds their source; the values of the function 'as "
    "written' come from the TLA+ operator ValsOf and are cross-checked on every case against "
    "the text executed by Python alone at its indentation (MACH.OracleMismatch)",
    "formula.source is mapped back to abstract lines by comparing each stripped physical line "
    "with the rendered lines of the layout (every rendered line is unique); the lines of the "
    "def's docstring statement (found with ast) that are not lines of the layout count as the "
    "new docstring; a lambda is read at the extent of its ast node and a continuation backslash "
    "is not part of it; any other line is reported as id -1",
    "the algorithm layer models modelx with the five repaired defects KF1..KF5 "
    "(MxFormulaBase!Fixed); a KF label on the real code is a regression and is reported as a "
    "violation",
]

_TMP = None
_SEQ = [0]


def _tmpdir():
    """The directory of the generated module files: made by produce() before the workers are
    forked and removed by it when they are done."""
    if _TMP is None or not os.path.isdir(_TMP):
        raise RuntimeError("no scratch directory (produce() makes it)")
    if _TMP not in sys.path:
        sys.path.insert(0, _TMP)
    return _TMP


def _import_text(text):
    d = _tmpdir()
    _SEQ[0] += 1
    name = "c20mod_%d_%d" % (os.getpid(), _SEQ[0])
    path = os.path.join(d, name + ".py")
    with open(path, "w") as f:
        f.write(text)
    importlib.invalidate_caches()
    try:
        return importlib.import_module(name), path
    finally:
        pass


def _forget(mod, path):
    sys.modules.pop(mod.__name__, None)
    try:
        os.unlink(path)
    except OSError:
        pass
    import linecache
    linecache.cache.pop(path, None)


# ---------------------------------------------------------------------------
# the real library

def run_case(case):
    """Worker: one layout and its history on the real library -> one recorded trace."""
    import modelx as mx
    for m in list(mx.get_models().values()):
        m.close()
    lay, via, cname = case["lay"], case["via"], case["cname"]
    isobj = lay["form"] in ("funcobj", "lamobj")
    obsr = fr.Observer(case)
    rendered = obsr.rendered
    g = 7
    hdr = {"lay": lay, "via": via, "cname": cname, "eofnl": bool(case.get("eofnl", True)),
           "origvals": fr.plain_values(case, g),
           "docids": [ln["id"] for ln in case["text"] if ln["k"] == "doc"]}
    m = mx.new_model("C20")
    s = m.new_space("S")
    s2 = m.new_space("S2")
    s.G = g
    s2.G = g
    m.cur_space("S")
    mod = path = None
    ev = []
    cells = None
    try:
        # ---- capture
        o = dict(fr.EMPTY_OBS)
        try:
            if isobj:
                if via == "dec" and fr._dec_last_index(case) is not None:
                    mod, path = _import_text(rendered["module"])     # the decorator runs here
                    cells = s.cells[cname]
                else:
                    mod, path = _import_text(rendered["module"])
                    obj = mod.f if lay["form"] == "funcobj" else fr.lambda_object(mod, lay)
                    if via == "dec":
                        cells = mx.defcells(obj)
                    elif via == "set":
                        cells = s.new_cells(cname)
                        cells.formula = obj
                    else:
                        cells = s.new_cells(cname, formula=obj)
            else:
                obj = rendered["text"]
                if via == "set":
                    cells = s.new_cells(cname)
                    cells.formula = obj
                else:
                    cells = s.new_cells(cname, formula=obj)
            o = obsr.observe(cells, g)
        except Exception as e:
            o = dict(fr.EMPTY_OBS, ok=False, err=type(e).__name__)
            cells = None
        ev.append({"op": "capture", "arg": {"g": 0, "name": "", "k": 0, "ii": False}, "obs": o})
        # ---- the history
        if cells is not None:
            for step in case["script"]:
                op, a = step["op"], step["arg"]
                err = ""
                target = cells
                try:
                    if op == "setref":
                        g = a["g"]
                        s.G = g
                        s2.G = g
                    elif op == "recreate":
                        target = s2.new_cells(cells.name, formula=cells.formula.source)
                    elif op == "rename":
                        cells.rename(a["name"])
                    elif op == "setdoc":
                        txt = fr.NEW_DOCS[a["k"]]
                        if a["ii"]:
                            cells.set_doc(txt, insert_indents=True)
                        else:
                            cells.doc = txt
                    else:
                        raise ValueError(op)
                except Exception as e:
                    err = type(e).__name__
                    if op == "recreate":
                        target = None
                if target is None:
                    o = dict(fr.EMPTY_OBS, ok=False, err=err)
                else:
                    o = obsr.observe(target, g)
                    if err:
                        o["ok"], o["err"] = False, err
                if op == "recreate" and target is not None:
                    del s2.cells[target.name]
                ev.append({"op": op, "arg": a, "obs": o})
    finally:
        if mod is not None:
            _forget(mod, path)
        m.close()
    return {"hdr": hdr, "ev": ev}


def _worker_init():
    import modelx  # noqa: F401
    _tmpdir()


def produce(cases, procs=NCPU):
    global _TMP
    if not cases:
        return []
    _TMP = tempfile.mkdtemp(prefix="mxv_c20_")
    try:
        if procs <= 1 or len(cases) < 8:
            _worker_init()
            return [run_case(c) for c in cases]
        ctx = mp.get_context("fork")
        with ctx.Pool(procs, initializer=_worker_init) as pool:
            return pool.map(run_case, cases, chunksize=max(1, min(64, len(cases) // (procs * 4))))
    finally:
        if _TMP in sys.path:
            sys.path.remove(_TMP)
        shutil.rmtree(_TMP, ignore_errors=True)
        _TMP = None


# ---------------------------------------------------------------------------
# TLC

def _run_tlc_retry(module, **kw):
    r = tlc.run_tlc(module, **kw)
    if not r.get("ok") and not r.get("error") and "is violated" not in r["out"]:
        r = tlc.run_tlc(module, **kw)
    return r


def judge(traces, procs=NCPU, batch=None):
    """Validate recorded cases with spec/MxFormulaTrace.tla; returns (verdict list, stats)."""
    if not traces:
        return [], {"states": 0, "transitions": 0, "tlc_wall_s": 0.0, "batches": 0}
    if batch is None:
        batch = max(150, min(3000, len(traces) // min(procs, 8) + 1))
    chunks = [traces[i:i + batch] for i in range(0, len(traces), batch)]

    def one(chunk):
        try:
            return tlc.validate_traces(chunk, module=TRACE_MODULE, cfg=TRACE_CFG, timeout=3000)
        except tlc.TLCError as e:
            if "Error:" in str(e):
                raise
            return tlc.validate_traces(chunk, module=TRACE_MODULE, cfg=TRACE_CFG, timeout=3000)

    t0 = time.time()
    with ThreadPoolExecutor(max_workers=min(procs, 8, len(chunks))) as ex:
        results = list(ex.map(one, chunks))
    out, states, trans = [], 0, 0
    for chunk, (v, r) in zip(chunks, results):
        for i in range(len(chunk)):
            out.append(v[i + 1])
        states += r.get("states") or 0
        trans += r.get("transitions") or 0
    return out, {"states": states, "transitions": trans, "tlc_wall_s": time.time() - t0,
                 "batches": len(chunks)}


def enumerate_cases(cfg, seed, workers=NCPU):
    """spec -> code: the layouts (with their histories) TLC prints from the model; the same run
    checks the invariants on those scripted behaviours."""
    r = _run_tlc_retry("MxFormula", cfg=cfg, workers=workers, timeout=3000,
                       env={"VERIF_SEED": str(seed)})
    cases = []
    for line in r["out"].splitlines():          # one tuple per line: <<"MBT", "<json, escaped>">>
        if line.startswith('<<"MBT", "') and line.endswith('">>'):
            try:
                cases.append(json.loads(json.loads(line[8:-2])))
            except ValueError:
                cases = None
                break
    if not cases:                               # (interleaved output: the general parser)
        cases = [json.loads(tlc.tla_to_py(t)[1]) for t in tlc._match_tuples(r["out"], "MBT")]
    if not r.get("ok") or not cases:
        i = r["out"].find("Error:")
        raise tlc.TLCError("case enumeration failed (%s):\n%s" % (cfg, r["out"][max(0, i - 200):i + 3000]))
    cases.sort(key=lambda c: json.dumps(c["lay"], sort_keys=True))
    return cases, r


def model_check(cfg, seed, coverage=False, timeout=3000, workers=NCPU, expect_violation=False):
    extra = ["-coverage", "1"] if coverage else []
    r = _run_tlc_retry("MxFormula", cfg=cfg, workers=workers, timeout=timeout, extra=extra,
                       env={"VERIF_SEED": str(seed)})
    res = {"cfg": cfg, "ok": bool(r.get("ok")), "states": r.get("states"),
           "transitions": r.get("transitions"), "depth": r.get("depth"),
           "wall_s": round(r["wall_s"], 1)}
    mm = re.search(r"Finished computing initial states: (\d+) distinct state", r["out"])
    if mm:
        res["initial_states"] = int(mm.group(1))
    mm = re.search(r"Invariant (\w+) is violated", r["out"])
    if mm:
        res["violated_invariant"] = mm.group(1)
        i = r["out"].find("Error: Invariant")
        res["counterexample"] = r["out"][i:i + 6000]
        found = re.findall(r"/\\ labels = (\{[^}]*\})", r["out"][i:])
        if found:
            res["labels"] = found[-1]
    elif not res["ok"]:
        res["tail"] = r["out"][-1500:]
    seen = tlc._match_tuples(r["out"], "KFSEEN")
    if seen:
        res["kf_labels_reached"] = sorted(tlc.tla_to_py(seen[-1])[1])
    if coverage:
        taken = {}
        for a in MODEL_ACTIONS:
            tot = 0
            for mm in re.finditer(r"<%s line \d+, col \d+ to line \d+, col \d+ of module MxFormula(?: \([\d ]+\))?>: (\d+):(\d+)" % a,
                                  r["out"]):
                tot += int(mm.group(2))
            taken[a] = tot
        res["actions_taken"] = taken
    return res


def _mc_child(jobs, seed, conn):
    """Runs in a forked process so that the model checks overlap the executions."""
    t0 = time.time()
    try:
        out = []
        with ThreadPoolExecutor(max_workers=len(jobs)) as ex:
            futs = [ex.submit(model_check, j["cfg"], seed, coverage=j.get("coverage", False),
                              workers=j.get("workers", max(2, NCPU // 2))) for j in jobs]
            out = [f.result() for f in futs]
        conn.send((out, time.time() - t0))
    except Exception:
        import traceback
        conn.send((traceback.format_exc(), time.time() - t0))
    finally:
        conn.close()


# ---------------------------------------------------------------------------
# negative controls

def _first(tr, op, ok=True):
    for i, e in enumerate(tr["ev"]):
        if e["op"] == op and e["obs"]["ok"] == ok:
            return i
    return None


def corruptions(tr):
    """Corrupted copies of an accepted recording: (trace, label TLC must raise)."""
    out = []
    isdef = tr["hdr"]["lay"]["form"] in ("deftext", "funcobj")
    cap = _first(tr, "capture")
    if cap is None:
        return out

    def mut(label, idx, fn):
        t = copy.deepcopy(tr)
        try:
            if fn(t["ev"][idx]["obs"], t) is not False:
                out.append((t, label))
        except (IndexError, KeyError):
            pass

    def accepted(o, t):
        o.update(dict(fr.EMPTY_OBS, ok=False, err="ValueError"))
        del t["ev"][1:]
    mut("C20.Accepted", cap, accepted)
    if isdef:
        mut("C20.NoDecoratorLeft", cap, lambda o, t: o.__setitem__("decos", 1))
        mut("C20.NameIsCellsName", cap, lambda o, t: o.__setitem__("defname", "f"))
        if tr["hdr"]["cname"] == "f":
            out.pop()

        def drop_last(o, t):
            if len(o["lines"]) < 3:
                return False
            del o["lines"][-1]
        mut("C20.BodyUntouched", cap, drop_last)

        def swap(o, t):
            ls = o["lines"]
            # (two lines of the BODY: the lines of the docstring statement are not the body's)
            doc = set(t["hdr"].get("docids", []))
            idx = [i for i in range(len(ls) - 1) if ls[i][0] > 0 and ls[i + 1][0] > 0 and ls[i] != ls[i + 1]
                   and ls[i][0] not in doc and ls[i + 1][0] not in doc]
            if len(idx) < 2:
                return False
            i = idx[-1]
            ls[i], ls[i + 1] = ls[i + 1], ls[i]
        mut("C20.BodyUntouched", cap, swap)
    else:
        mut("C20.NameIsCellsName", cap, lambda o, t: o.__setitem__("cname", "other"))
        mut("C20.BodyUntouched", cap, lambda o, t: o["lines"].append([-1, 0]))
    mut("C20.SelfContained", cap, lambda o, t: o.__setitem__("compiles", False))
    mut("C20.SelfContained", cap, lambda o, t: o["savals"].__setitem__(0, o["savals"][0] + 1))
    mut("C20.BehavesLikeFunction", cap, lambda o, t: o["vals"].__setitem__(1, o["vals"][1] + 1))
    sr = _first(tr, "setref")
    if sr is not None:
        mut("C20.BehavesLikeFunction", sr, lambda o, t: o["vals"].__setitem__(
            0, 7 if o["vals"][0] == fr.ERR else o["vals"][0] - 4))
    mut("C20.ParamsKept", cap, lambda o, t: o["params"].append("z"))
    rc = _first(tr, "recreate")
    if rc is not None:
        mut("C20.Idempotent", rc, lambda o, t: o.__setitem__("hash", (o["hash"] + 1) % 1000))
        mut("C20.Idempotent", rc, lambda o, t: o["lines"].append([0, 0]))
    rn = _first(tr, "rename")
    if rn is not None:
        mut("C20.RenameInert", rn, lambda o, t: o["lines"].insert(0, [0, 0]))
        mut("C20.RenameInert", rn, lambda o, t: o["doc"].__setitem__("code", 13))
    sd = _first(tr, "setdoc")
    if sd is not None:
        mut("C20.DocInert", sd, lambda o, t: o["doc"].__setitem__("code", 0))
        mut("C20.DocInert", sd, lambda o, t: o["vals"].__setitem__(0, 5))
    return out


def negative_controls(traces, verdicts, rng):
    good = [tr for tr, v in zip(traces, verdicts) if not [x for x in v["viol"] if not x[0].startswith("DRIFT.")]
            and len(tr["ev"]) >= 6]
    rng.shuffle(good)
    picked = []
    for form in ("deftext", "funcobj", "lamtext", "lamobj"):
        picked += [t for t in good if t["hdr"]["lay"]["form"] == form][:3]
    picked += [t for t in good if t["hdr"]["lay"]["pick"] >= 2][:2]
    picked += [t for t in good if t["hdr"]["lay"]["lbody"] == "nest"][:2]
    made, labels = [], collections.Counter()
    for tr in picked:
        for c in corruptions(tr):
            made.append(c)
            labels[c[1]] += 1
    if not made:
        return {"attempted": 0, "rejected": 0, "labels": {}}
    vs, _ = judge([c[0] for c in made], procs=1, batch=len(made))
    missed = [lab for (c, lab), v in zip(made, vs) if not any(l == lab for l, _ in v["viol"])]
    return {"attempted": len(made), "rejected": len(made) - len(missed), "labels": dict(labels),
            "missed": missed[:5],
            "all_predicates_exercised": set(labels) >= set(PROPERTY_LABELS)}


# ---------------------------------------------------------------------------
def case_key(case):
    return hashlib.sha1(json.dumps({"lay": case["lay"], "script": case["script"]},
                                   sort_keys=True).encode()).hexdigest()


def save_replay(pid, case, tr):
    d = os.path.join(ROOT, "replays", pid)
    os.makedirs(d, exist_ok=True)
    path = os.path.join(d, case_key(case)[:16] + ".json")
    r = fr.render(case)
    with open(path, "w") as f:
        json.dump({"property": pid, "case": case,
                   "rendered": r["module"] if case["lay"]["form"] in ("funcobj", "lamobj") else r["text"],
                   "recorded": tr["ev"]}, f, indent=1)
    return path


def save_design_replay(pid, r):
    body = {"property": pid, "design_cfg": r["cfg"], "invariant": r["violated_invariant"],
            "counterexample": r.get("counterexample", "")}
    h = hashlib.sha1(json.dumps(body, sort_keys=True).encode()).hexdigest()[:16]
    d = os.path.join(ROOT, "replays", pid)
    os.makedirs(d, exist_ok=True)
    path = os.path.join(d, "design_" + h + ".json")
    with open(path, "w") as f:
        json.dump(body, f, indent=1)
    return path


def is_nontrivial(tr):
    """The capture was accepted and the formula was edited afterwards (rename or set_doc)."""
    return tr["ev"][0]["obs"]["ok"] and any(e["op"] in ("rename", "setdoc") and e["obs"]["ok"]
                                            for e in tr["ev"][1:])


def sample_of(case, tr):
    r = fr.render(case)
    isobj = case["lay"]["form"] in ("funcobj", "lamobj")
    return {"layout": case["lay"], "via": case["via"], "cells_name": case["cname"],
            "given": (r["module"] if isobj else r["text"]),
            "history": [{"op": e["op"],
                         "arg": {k: v for k, v in e["arg"].items() if v not in (0, "", False)},
                         "ok": e["obs"]["ok"], "err": e["obs"]["err"],
                         "lines": e["obs"]["lines"], "vals": e["obs"]["vals"],
                         "doc": e["obs"]["doc"]} for e in tr["ev"]]}


def _inv_label(inv):
    return inv[4:].replace("_", ".", 1) if inv.startswith("Inv_C20_") else "MODEL." + inv


TIERS = {
    "quick": dict(mbt="MBT_MxFormula_quick.cfg",
                  mc=[dict(cfg="MC_MxFormula_quick.cfg", coverage=True, workers=8)]),
    "thorough": dict(mbt="MBT_MxFormula_thorough.cfg",
                     mc=[dict(cfg="MC_MxFormula_thorough.cfg", workers=8),
                         dict(cfg="MC_MxFormula_deep.cfg", workers=5),
                         dict(cfg="MC_MxFormula_quick.cfg", coverage=True, workers=2),
                         dict(cfg="MC_MxFormula_kf.cfg", workers=1)]),
}


def _verdict_labels(v):
    mine, drift, mach = [], [], []
    for lab, l in v["viol"]:
        base = lab[3:] if lab.startswith("KF:") else lab
        if base.startswith("C20."):
            mine.append((lab, l))
        elif base.startswith("DRIFT."):
            drift.append((lab, l))
        else:
            mach.append((lab, l))
    return mine, drift, mach


def run(pid, tier, seed):
    cfg = TIERS[tier]
    rng = random.Random(seed)
    res = {"level": LEVEL[pid], "violations": [], "assumptions": list(ASSUMPTIONS)}
    failures = []

    # 1. design level (runs while the real library is exercised)
    ctx = mp.get_context("fork")
    mc_recv, mc_send = ctx.Pipe(duplex=False)
    mc_proc = ctx.Process(target=_mc_child, args=(cfg["mc"], seed, mc_send))
    mc_proc.start()

    # 2. spec -> code
    t0 = time.time()
    cases, enum_r = enumerate_cases(cfg["mbt"], seed, workers=max(2, NCPU // 2))
    t_enum = time.time() - t0
    t0 = time.time()
    traces = produce(cases)
    t_prod = time.time() - t0

    # 3. code -> spec
    verdicts, stats = judge(traces)
    labels_seen = collections.Counter()
    reported = 0
    kf_seen = collections.Counter()
    for case, tr, v in zip(cases, traces, verdicts):
        if v["matched"] != v["total"]:
            failures.append("trace consumed %d of %d events (%s)" % (
                v["matched"], v["total"], json.dumps(case["lay"])))
            break
    for case, tr, v in zip(cases, traces, verdicts):
        mine, drift, mach = _verdict_labels(v)
        for lab, l in v["viol"]:
            labels_seen[lab] += 1
        for lab, l in mach:
            failures.append("machinery label %s on layout %s" % (lab, json.dumps(case["lay"])))
        kfs = [x for x in mine if x[0].startswith("KF:")]
        plain = [x for x in mine if not x[0].startswith("KF:")]
        for lab, l in kfs:
            kf_seen[lab] += 1
        path = None
        if plain and reported < 25:
            reported += 1
            path = save_replay(pid, case, tr)
            for lab, l in sorted(plain, key=lambda x: x[1]):
                res["violations"].append({"label": lab, "line": l, "replay": path})
        for lab, l in kfs:           # one replay per known-finding label
            if kf_seen[lab] == 1:
                path = path or save_replay(pid, case, tr)
                res["violations"].append({"label": lab, "line": l, "replay": path})

    # 1 (cont.)
    mcs, t_mc = mc_recv.recv()
    mc_proc.join()
    if isinstance(mcs, str):
        raise tlc.TLCError("design-level model check crashed:\n" + mcs)
    mcs.append({"cfg": cfg["mbt"], "ok": bool(enum_r.get("ok")), "states": enum_r.get("states"),
                "transitions": enum_r.get("transitions"), "depth": enum_r.get("depth"),
                "wall_s": round(enum_r["wall_s"], 1), "scripted": True})
    kf_design = None
    for r in mcs:
        if r["cfg"] == "MC_MxFormula_kf.cfg":
            kf_design = r
            r["purpose"] = "which known findings the design as modelled exhibits (register of KF labels)"
            if not r["ok"]:
                failures.append("design-level known-finding run did not complete cleanly: %s" % r.get("tail", "")[-300:])
            continue
        if r.get("violated_invariant"):
            lab = _inv_label(r["violated_invariant"])
            if lab.startswith("C20."):
                res["violations"].append({"label": lab, "line": 0, "replay": save_design_replay(pid, r)})
            else:
                failures.append("algorithm-layer consistency invariant %s violated (%s)" % (
                    r["violated_invariant"], r["cfg"]))
        elif not r["ok"]:
            failures.append("design-level model check did not complete cleanly (%s): %s" % (
                r["cfg"], r.get("tail", "")[-300:]))
    for r in mcs:
        r.pop("counterexample", None)
        r.pop("tail", None)
    cov_runs = [r for r in mcs if "actions_taken" in r]
    if cov_runs:
        taken = cov_runs[0]["actions_taken"]
        dead = [a for a in MODEL_ACTIONS if not taken.get(a)]
        if dead and cov_runs[0]["ok"]:
            failures.append("vacuous model: actions never taken: %s" % dead)

    # 4. negative controls
    nc = negative_controls(traces, verdicts, rng)
    if nc["attempted"] == 0 or nc["rejected"] != nc["attempted"] or not nc.get("all_predicates_exercised"):
        failures.append("negative control not rejected: %r" % (nc,))

    # 5. evidence
    ops = collections.Counter()
    ops_ok = collections.Counter()
    forms = collections.Counter()
    vias = collections.Counter()
    feats = collections.Counter()
    hashes, nontrivial = set(), set()
    for case, tr in zip(cases, traces):
        h = case_key(case)
        hashes.add(h)
        if is_nontrivial(tr):
            nontrivial.add(h)
        lay = case["lay"]
        forms[lay["form"]] += 1
        vias[case["via"]] += 1
        kinds = {ln["k"] for ln in case["text"]}
        for k in kinds:
            feats["line:" + k] += 1
        feats["ws:" + lay["ws"]] += 1
        if lay["form"].startswith("lam"):
            feats["embed:" + lay["embed"]] += 1
            feats["ml:" + lay["ml"]] += 1
            feats["lbody:" + lay["lbody"]] += 1
            cap = tr["ev"][0]["obs"]
            if lay["pick"]:
                feats["pick:%d" % lay["pick"]] += 1
            if lay["pick"] >= 2 and cap["ok"]:
                feats["captured:second-or-later-lambda-of-statement"] += 1
            if lay["lbody"] == "nest" and cap["ok"]:
                feats["captured:nested-lambda:" + lay["form"]] += 1
            if not cap["ok"] and cap["err"] == "ValueError":
                feats["rejected:more-than-1-lambda-on-the-line"] += 1
        else:
            feats["doc:%d" % lay["doc"]] += 1
            feats["hdr:" + lay["hdr"]] += 1
        for e in tr["ev"]:
            ops[e["op"]] += 1
            if e["obs"]["ok"]:
                ops_ok[e["op"]] += 1
            if e["op"] == "setdoc":
                feats["setdoc:%d%s" % (e["arg"]["k"], "+indent" if e["arg"]["ii"] else "")] += 1
    for op in OPS:
        if not ops_ok[op]:
            failures.append("vacuous run: no accepted %s operation was executed" % op)
    for need in ("line:deco1", "line:decomA", "line:decocmt", "line:one", "line:hdrB", "line:doc",
                 "line:lamB", "line:lpre", "line:last", "line:stmttc", "line:ndefA", "line:nclsA",
                 "line:compr", "line:mlA", "line:nlam", "line:lsib"):
        if not feats[need]:
            failures.append("vacuous run: no layout with a %s line" % need)
    for need in ("embed:dict", "embed:pair", "embed:same", "lbody:nest",
                 "captured:second-or-later-lambda-of-statement", "captured:nested-lambda:lamtext",
                 "captured:nested-lambda:lamobj", "rejected:more-than-1-lambda-on-the-line"):
        if not feats[need]:
            failures.append("vacuous run: no case of %s" % need)
    for f in ("deftext", "funcobj", "lamtext", "lamobj"):
        if not forms[f]:
            failures.append("vacuous run: no layout of form %s" % f)
    drift = {k: v for k, v in labels_seen.items() if k.startswith("DRIFT.")}
    agree = sum(1 for v in verdicts if not any(l.startswith("DRIFT.") for l, _ in v["viol"]))
    mc_states = sum(r.get("states") or 0 for r in mcs)
    mc_trans = sum(r.get("transitions") or 0 for r in mcs)
    pick = [i for i, t in enumerate(traces) if is_nontrivial(t)]
    samples = []
    for want in ("funcobj", "lamtext"):
        for i in pick:
            if cases[i]["lay"]["form"] == want and len(json.dumps(traces[i])) < 9000:
                samples.append(sample_of(cases[i], traces[i]))
                break
    if not samples and traces:
        samples.append(sample_of(cases[0], traces[0]))
    cov = {
        "evaluations": len(traces),
        "distinct_nontrivial": len(nontrivial),
        "rule": "one case = one layout of the feature product of MxFormulaBase.tla (printed once by TLC "
                "from MxFormula.tla; quick: the layouts whose hash with VERIF_SEED is 0 mod SampleMod, "
                "thorough: all) rendered to Python text / a module file, captured by modelx and taken "
                "through the history TLC printed with it; distinct by SHA-1 of (layout, history); "
                "non-trivial = the capture was accepted and at least one rename or set_doc was accepted "
                "afterwards",
        "samples": samples,
        "exhaustive": tier == "thorough",
        "exhaustive_note": "thorough: every layout of the product is executed; the histories are one "
                           "scripted behaviour per layout, the free interleavings (MaxOps) are explored "
                           "on the model only",
        "states": mc_states + stats["states"],
        "transitions": mc_trans + stats["transitions"],
        "traces_validated_against_impl": len(traces),
        "operations_executed": dict(ops),
        "operations_accepted": dict(ops_ok),
        "layouts_by_form": dict(forms),
        "layouts_by_route": dict(vias),
        "feature_counts": dict(sorted(feats.items())),
        "design_model_check": mcs,
        "model_states": mc_states, "model_transitions": mc_trans,
        "trace_states": stats["states"],
        "labels_raised": dict(labels_seen),
        "known_finding_labels": dict(kf_seen),
        "known_findings_at_design_level": (kf_design or {}).get("kf_labels_reached", []),
        "known_findings_on_code_not_in_design": sorted(set(kf_seen) - set((kf_design or {}).get("kf_labels_reached", []))),
        "drift": drift,
        "impl_model_agreement": {"agree": agree, "of": len(traces)},
        "negative_controls": nc,
        "wall": {"model_check_s": round(t_mc, 1), "enumeration_s": round(t_enum, 1),
                 "execution_s": round(t_prod, 1), "judgement_s": round(stats["tlc_wall_s"], 1)},
    }
    res["coverage"] = cov
    if res["violations"]:
        # a broken library also starves the vacuity counters and the negative controls (they
        # are built from accepted recordings): report the violations, not those
        failures = [f for f in failures if not f.startswith(("vacuous", "negative control"))]
    if failures:
        res["machinery_failure"] = "; ".join(failures[:3])
    res["summary"] = "model states=%d layouts=%d ops=%d nontrivial=%d kf=%s drift=%d neg=%d/%d" % (
        mc_states, len(traces), sum(ops.values()), len(nontrivial), dict(kf_seen) or 0,
        sum(drift.values()), nc["rejected"], nc["attempted"])
    return res


def replay(pid, path):
    rec = json.load(open(path))
    res = {"level": LEVEL[pid], "violations": [], "coverage": {}}
    if "design_cfg" in rec:
        r = model_check(rec["design_cfg"], int(os.environ.get("VERIF_SEED", "20261002")))
        if r.get("violated_invariant", "").startswith("Inv_C20_"):
            res["violations"].append({"label": _inv_label(r["violated_invariant"]), "line": 0,
                                      "replay": path})
        elif not r["ok"] and not r.get("violated_invariant"):
            res["machinery_failure"] = "design-level model check did not complete cleanly"
        res["summary"] = "design-level model check %s: %s" % (
            rec["design_cfg"], r.get("violated_invariant", "no invariant violated"))
        return res
    case = rec["case"]
    traces = produce([case], procs=1)
    verdicts, _ = judge(traces, procs=1)
    v = verdicts[0]
    mine, drift, mach = _verdict_labels(v)
    for lab, l in mine:
        res["violations"].append({"label": lab, "line": l, "replay": path})
    if v["matched"] != v["total"]:
        res["machinery_failure"] = "trace consumed %d of %d events" % (v["matched"], v["total"])
    elif mach:
        res["machinery_failure"] = "machinery label %r" % (mach,)
    res["summary"] = "replayed layout %s via %s, labels=%r" % (
        json.dumps(case["lay"]), case["via"], v["viol"])
    return res
