"""Per-property check engines.  Every engine follows the same steps:
  1. (design level) TLC model-checks the algorithm-layer module that models the
     mechanism behind the property, against the property-layer predicates;
  2. (code -> spec) seeded random histories are executed on the real library,
     recorded, and judged by TLC with the trace specification;
  3. (spec -> code) histories enumerated by TLC from the algorithm-layer model
     are replayed on the real library and judged the same way;
  4. negative control: a recorded execution is corrupted in a way the property
     forbids and must be rejected;
  5. evidence.
"""
import collections
import copy
import tempfile
import hashlib
import json
import os
import random
import time

from . import pipeline as pl
from . import tlc
from . import instances

ROOT = os.path.dirname(os.path.dirname(os.path.abspath(__file__)))
NCPU = min(16, os.cpu_count() or 1)

PROPS = {}


def prop(pid, **kw):
    PROPS[pid] = kw


# ---------------------------------------------------------------------------
# property table for the evaluation world (MxSem + MxTrace [+ MxEval])

EVAL_COMMON_ASSUME = [
    "formula language = the abstract Op grammar of MxSem rendered through harness/concretise.py "
    "(def and lambda styles; positional, keyword, default, subscription and .value spellings)",
    "TLC evaluates the oracle Den on the definitions reconstructed from the logged operation "
    "arguments only; held values, graphs and flags are read from the real objects after every call",
    "values are small integers and None",
]

prop("C01", engine="eval", prefixes=["C01."], level="model_checking",
     mc=("MxEval", "MC_MxEval_quick.cfg", "MC_MxEval_thorough.cfg"),
     jobs=lambda tier: [("eval", dict()), ("eval", dict(gen=dict(p_uncached=0.0))),
                        ("dyn", dict(_worker="make_dyn_trace")),
                        ("inherit", dict(_worker="make_inh_trace")),
                        ("edit", dict())],
     quick=dict(traces=160, nops=25), thorough=dict(traces=4000, nops=40))
prop("C02", engine="eval", prefixes=["C02."], level="model_checking",
     mc=("MxEval", "MC_MxEval_quick.cfg", "MC_MxEval_thorough.cfg"),
     mbt_extra={"quick": ["MBT_MxEval_cee.cfg"], "thorough": ["MBT_MxEval_cee.cfg"]},
     mbt_extra_limit={"quick": 2500, "thorough": 60000},
     jobs=lambda tier: [("edit", dict()), ("flags", dict()),
                        ("dyn", dict(_worker="make_dyn_trace")),
                        ("dyn-outer", dict(_worker="make_dyn_trace")),
                        ("inherit", dict(_worker="make_inh_trace"))],
     quick=dict(traces=200, nops=30), thorough=dict(traces=5000, nops=45))
prop("C05", engine="eval", prefixes=["C05."], level="model_checking",
     mc=("MxEval", "MC_MxEval_quick.cfg", "MC_MxEval_thorough.cfg"),
     jobs=lambda tier: [("fail", dict(gen=dict(p_raise=0.2, p_none=0.1, p_catch=0.2, p_base_exc=0.3))),
                        # (no swallowing handlers under a reduced limit: a DeepReferenceError caught inside a
                        #  formula makes values history dependent by design, which the oracle does not model)
                        ("fail", dict(gen=dict(p_raise=0.1, p_none=0.05, p_base_exc=0.2, p_catch=0.0), maxdepth=3)),
                        ("fail", dict(gen=dict(p_raise=0.25, p_catch=0.1, p_rr=0.3, p_base_exc=0.2))),
                        ("fail", dict(gen=dict(p_raise=0.2, p_uncached=0.5, p_catch=0.0)))],
     quick=dict(traces=128, nops=30), thorough=dict(traces=3200, nops=40),
     # "every later evaluation returns the same values as if the failure had not happened"
     also=["C02.NoStale", "C01.Transparent"])
prop("C06", engine="eval", prefixes=["C06."], level="model_checking",
     mc=("MxEval", "MC_MxEval_quick.cfg", "MC_MxEval_thorough.cfg"),
     jobs=lambda tier: [("value", dict(gen=dict(p_uncached=0.1, p_catch=0.0))),
                        ("value", dict(gen=dict(p_uncached=0.1, p_catch=0.0), recalc=True)),
                        # assigned values under inheritance and inside ItemSpaces, both settings
                        ("inherit", dict(_worker="make_inh_trace")),
                        ("dyn", dict(_worker="make_dyn_trace")),
                        ("inherit", dict(_worker="make_inh_trace", recalc=True)),
                        ("dyn", dict(_worker="make_dyn_trace", recalc=True)),
                        # chains through several nested uncached cells
                        ("value", dict(gen=dict(p_uncached=0.55, p_catch=0.0, p_chain=0.9))),
                        ("value", dict(gen=dict(p_uncached=0.4, p_catch=0.0, p_chain=0.9), recalc=True))],
     mc_controls=[dict(cfg="MC_MxEval_stale71.cfg", ok_cfg="MC_MxEval_stale71_ok.cfg", instance="stale71",
                       expect="Action property InputsKept is violated")],
     quick=dict(traces=192, nops=30), thorough=dict(traces=4800, nops=45))
prop("C08", engine="eval", prefixes=["C08."], level="model_checking",
     mc=("MxEval", "MC_MxEval_quick.cfg", "MC_MxEval_thorough.cfg"),
     jobs=lambda tier: [("eval", dict()), ("fail", dict(gen=dict(p_raise=0.15, p_catch=0.15))),
                        ("dyn", dict(_worker="make_dyn_trace")),
                        ("inherit", dict(_worker="make_inh_trace")),
                        ("eval", dict(gen=dict(p_uncached=0.55, p_chain=0.9)))],
     quick=dict(traces=160, nops=25), thorough=dict(traces=4000, nops=40))
prop("C09", engine="eval", prefixes=["C09."], level="model_checking",
     mc=("MxEval", "MC_MxEval_quick.cfg", "MC_MxEval_thorough.cfg"),
     mbt_extra={"quick": ["MBT_MxEval_cfe.cfg"], "thorough": ["MBT_MxEval_cfe.cfg", "MBT_MxEval_cee.cfg"]},
     mbt_extra_limit={"quick": 2500, "thorough": 40000},
     jobs=lambda tier: [("flags", dict(gen=dict(p_uncached=0.5))),
                        ("edit", dict(gen=dict(p_uncached=0.5)))],
     quick=dict(traces=128, nops=30), thorough=dict(traces=3200, nops=45),
     also=["C02.NoStale", "C01.Transparent"])
prop("C17", engine="eval", prefixes=["C17."], level="model_checking",
     mc=("MxEval", "MC_MxEval_quick.cfg", "MC_MxEval_thorough.cfg"),
     jobs=lambda tier: [("fail", dict(gen=dict(p_raise=0.25, p_none=0.1, p_catch=0.25))),
                        ("fail", dict(gen=dict(p_raise=0.15, p_uncached=0.5, p_catch=0.2))),
                        ("fail", dict(gen=dict(p_raise=0.3, p_catch=0.15, p_rr=0.3)))],
     quick=dict(traces=144, nops=25), thorough=dict(traces=3600, nops=40))


INH_ASSUME = EVAL_COMMON_ASSUME + [
    "definitions are compared through the public API projection (space.cells / _own_refs / bases / "
    "_direct_bases / dir(), ReferenceProxy.refmode) after every operation",
    "a handle counts as dead only when every probed attribute raises DeletedObjectError",
]
prop("C03", engine="inh", worker="make_inh_trace", prefixes=["C03."], level="model_checking",
     mc=("MxInherit", "MC_MxInherit_quick.cfg", "MC_MxInherit_thorough.cfg"),
     mc_deep="MC_MxInherit_deep.cfg",
     mbt_opts={"deep": True, "checkdefs": True, "handles": True},
     jobs=lambda tier: [("inherit", dict()), ("delete", dict())],
     quick=dict(traces=160, nops=25), thorough=dict(traces=4000, nops=40),
     also=["C02.NoStale", "C01.Transparent"])
prop("C10", engine="inh", worker="make_inh_trace", prefixes=["C10."], level="model_checking",
     mc=("MxInherit", "MC_MxInherit_quick.cfg", "MC_MxInherit_thorough.cfg"),
     mbt_opts={"deep": True, "checkdefs": True, "handles": True},
     # in ItemSpaces the binding shows through what the formulas reading / calling through the
     # reference return (MxSem.DynRebind inside Den), hence the two value labels
     jobs=lambda tier: [("refmode", dict()), ("inherit", dict()), ("dyn", dict(_worker="make_dyn_trace"))],
     quick=dict(traces=192, nops=25), thorough=dict(traces=4800, nops=40),
     also=["C01.Transparent", "C02.NoStale"])
prop("C11", engine="inh", worker="make_inh_trace", prefixes=["C11."], level="model_checking",
     mc=("MxInherit", "MC_MxInherit_quick.cfg", "MC_MxInherit_thorough.cfg"),
     mbt_opts={"deep": True, "checkdefs": True, "handles": True},
     # (refused edits while ItemSpaces are alive and hold assigned values: the dyn world)
     jobs=lambda tier: [("names", dict()), ("inherit", dict()), ("dyn", dict(_worker="make_dyn_trace"))],
     quick=dict(traces=216, nops=25), thorough=dict(traces=5400, nops=40),
     also=["C06.InputsPersist"])
prop("C12", engine="inh", worker="make_inh_trace", prefixes=["C12."], level="model_checking",
     mc=("MxInherit", "MC_MxInherit_quick.cfg", "MC_MxInherit_thorough.cfg"),
     mbt_opts={"deep": True, "checkdefs": True, "handles": True},
     jobs=lambda tier: [("names", dict()), ("inherit", dict())],
     quick=dict(traces=160, nops=25), thorough=dict(traces=4000, nops=40))
prop("C13", engine="inh", worker="make_inh_trace", prefixes=["C13."], level="model_checking",
     mc=("MxInherit", "MC_MxInherit_quick.cfg", "MC_MxInherit_thorough.cfg"),
     mbt_opts={"deep": True, "checkdefs": True, "handles": True},
     jobs=lambda tier: [("delete", dict()), ("inherit", dict()),
                        ("dyn-delete", dict(_worker="make_dyn_trace")),
                        ("edit", dict(_worker="make_eval_trace"))],
     quick=dict(traces=224, nops=25), thorough=dict(traces=5600, nops=40),
     # "no value computed from the deleted object survives": stale values count
     also=["C07.HandleDeadOrCurrent", "C02.NoStale"])


prop("C04", engine="inh", worker="make_c04_trace", prefixes=["C04."], level="model_checking",
     jobs=lambda tier: [("c04", dict())],
     quick=dict(traces=96, nops=26), thorough=dict(traces=3000, nops=40))
prop("C07", engine="inh", worker="make_dyn_trace", prefixes=["C07."], level="model_checking",
     mc=("MxDyn", "MC_MxDyn_quick.cfg", "MC_MxDyn_thorough.cfg"),
     mbt_opts={"deep": True, "handles": True}, mbt_limit={"quick": 3000, "thorough": 40000},
     jobs=lambda tier: [("dyn", dict()), ("dyn", dict(gen=dict(p_uncached=0.4))), ("dyn-outer", dict())],
     quick=dict(traces=240, nops=28), thorough=dict(traces=6000, nops=45),
     also=["C02.NoStale", "C01.Transparent", "C06.ExactDiscard"])


# ---------------------------------------------------------------------------
def belongs(cfg, label):
    lab = label[3:] if label.startswith("KF:") else label
    return any(lab.startswith(p) for p in cfg["prefixes"]) or lab in cfg.get("also", [])


def save_replay(pid, tr):
    h = pl.trace_hash(tr)
    d = os.path.join(ROOT, "replays", pid)
    os.makedirs(d, exist_ok=True)
    path = os.path.join(d, h + ".json")
    ops = [{k: v for k, v in e.items() if k not in ("post", "fx", "res", "tb", "errtype", "raw")}
           for e in tr["ev"]]
    with open(path, "w") as f:
        opts = {k: tr["hdr"][k] for k in ("maxdepth", "recalc", "checkdefs") if k in tr["hdr"]}
        if tr["hdr"].get("world") in ("inh", "dyn"):
            opts["handles"] = True
        json.dump({"property": pid, "world": tr["hdr"].get("world", "eval"),
                   "init": tr["hdr"]["init"], "ops": ops, "opts": opts,
                   "seed": tr["hdr"].get("seed"), "profile": tr["hdr"].get("profile")}, f)
    return path


def sample_of(tr, maxev=6):
    ops = []
    for e in tr["ev"][:maxev]:
        x = {k: v for k, v in e.items() if k not in ("post", "fx")}
        ops.append(x)
    return {"seed": tr["hdr"].get("seed"), "profile": tr["hdr"].get("profile"),
            "spaces": tr["hdr"]["init"]["sp"], "n_events": len(tr["ev"]), "first_events": ops}


# -- negative controls -------------------------------------------------------
def corrupt(pid, tr, rng):
    """Return (corrupted trace, label that must be raised) or None."""
    t = copy.deepcopy(tr)
    evs = t["ev"]
    idx = list(range(len(evs)))
    rng.shuffle(idx)
    for i in idx:
        e = evs[i]
        post = e["post"]
        if pid == "C01" and e["op"] == "call" and isinstance(e["res"], int) and e["res"] >= 0 \
                and not e["c"][1] \
                and not any(f.get("catch") for f in t["hdr"]["init"]["flib"].values()) \
                and not any(x.get("res") == "rejected" for x in evs):
            # (results behind a swallowed failure are exempt as KF1, a half-updated model -- KF4 --
            #  stops the judgement of the rest of its trace, and an instance named with a shortened
            #  key is not judged by name: such calls are no controls)
            e["res"] += 1
            return t, "C01.Transparent"
        if pid == "C02" and not any(f.get("catch") for f in t["hdr"]["init"]["flib"].values()) \
                and not any(x.get("res") == "rejected" for x in evs):
            # (values behind a swallowed failure are exempt as KF1; a half-updated model
            #  -- KF4 -- stops the judgement of the rest of its trace)
            calc = [d for d in post["data"] if d[0] not in post["inputs"]]
            if calc:
                rng.choice(calc)[1] += 1
                return t, "C02.NoStale"
        if pid == "C05" and e["op"] == "call" and isinstance(e["res"], int) and e["res"] <= -10 \
                and any(f[0] == "unwind" for f in e["fx"]):
            node = [f for f in e["fx"] if f[0] == "unwind"][0][1]
            if all(d[0] != node for d in post["data"]):
                post["data"].append([node, 1])
                post["tgn"].append(node)
                return t, "C05.FailedHoldNothing"
        if pid == "C06" and e["op"] in ("set_value", "clear_at") and e["res"] == "ok" \
                and not t["hdr"].get("recalc"):
            tgt = e["c"] + [e["args"]]
            others = [d for d in post["data"] if d[0] != tgt and d[0] not in post["inputs"]]
            if others:
                d = rng.choice(others)
                post["data"].remove(d)
                if d[0] in post["tgn"]:
                    post["tgn"].remove(d[0])
                post["tge"] = [x for x in post["tge"] if d[0] not in x]
                return t, "C06.ExactDiscard"
        if pid == "C08" and "deps" in post and not any(
                f.get("catch") for f in t["hdr"]["init"]["flib"].values()):
            rows = [r for r in post["deps"] if r[1] and r[0] not in post["inputs"]]
            if rows:
                r = rng.choice(rows)
                r[1].pop()
                return t, "C08.PredsExact"
        if pid == "C09" and e["op"] == "call" and "defs" in post and e["fx"]:
            cs = dict((tuple(p), c) for p, c in post["defs"]["cells"])
            rec = cs.get(tuple(e["c"][0]), {}).get(e["c"][2])
            if rec is not None and not rec["cached"] and not e["c"][1]:
                e["fx"] = []        # an uncached cells that was not re-executed by the call
                return t, "C09.UncachedReexecuted"
        if pid in ("C03", "C10", "C12") and any(x.get("res") == "rejected" and x.get("errtype") == "ValueError"
                                               for x in evs[:i + 1]):
            continue        # (a half-updated model -- KF4 -- stops the judgement of the rest of its trace)
        if pid in ("C03", "C10", "C11", "C12") and "defs" in post and e["op"] != "call":
            pd = post["defs"]
            if pid == "C03":
                rows = [(p, cs) for p, cs in pd["cells"] if any(c["derived"] for c in cs.values())]
                if rows:
                    p, cs = rng.choice(rows)
                    c = rng.choice([k for k, v in cs.items() if v["derived"]])
                    del cs[c]
                    for row in pd["dir"]:
                        if row[0] == p:
                            row[1].remove(c)
                    return t, "C03.DerivedCellsNames"
            if pid == "C10":
                rows = [(p, n, r) for p, rs in pd["refs"] for n, r in rs.items()
                        if r["derived"] and r["v"][0] in ("sp", "ce") and r["mode"] != "absolute"
                        and r["v"][1] == p]
                if rows:
                    p, n, r = rng.choice(rows)
                    r["v"] = ["sp", ["ZZ"], [], ""]
                    return t, "C10.ModeBinding"
            if pid == "C11" and e["res"] == "rejected" and pd["cells"]:
                rows = [cs for p, cs in pd["cells"] if cs]
                if rows:
                    cs = rng.choice(rows)
                    c = rng.choice(list(cs))
                    cs[c]["cached"] = not cs[c]["cached"]
                    return t, "C11.RejectedUnchanged"
            if pid == "C12":
                rows = [(p, cs) for p, cs in pd["cells"] if cs]
                if rows:
                    p, cs = rng.choice(rows)
                    for row in pd["refs"]:
                        if row[0] == p:
                            row[1][rng.choice(list(cs))] = {"v": ["int", 1, [], ""], "mode": "auto",
                                                            "derived": False}
                            return t, "C12.NamesUnique"
        if pid == "C04" and e["op"] == "write_read" and e.get("reads"):
            rd = [r for r in e["reads"] if r.get("readable") and r["defs"]["cells"]]
            rows = [cs for r in rd for p, cs in r["defs"]["cells"] if cs]
            if rows:
                cs = rng.choice(rows)
                c = rng.choice(list(cs))
                cs[c]["cached"] = not cs[c]["cached"]
                return t, "C04.DefsRoundTrip"
        if pid == "C07" and post.get("handles"):
            dyn = [h for h in post["handles"] if h[2] == "current" and h[4]]
            if dyn:
                rng.choice(dyn)[2] = "orphan"
                return t, "C07.HandleDeadOrCurrent"
        if pid == "C13" and post.get("handles"):
            dead = [h for h in post["handles"] if h[2] == "dead"]
            if dead:
                h = rng.choice(dead)
                h[2] = "orphan"
                return t, "C13.DeletedHandlesDead"
        if pid == "C17" and e.get("tb") and len(e["tb"]) >= 1:
            e["tb"].pop(0)
            return t, "C17.TracebackLength"
    return None


def negative_controls(pid, traces, verdicts, rng, want=3):
    """Corrupt accepted traces; every corruption must be flagged with the expected label."""
    good = [tr for tr, v in zip(traces, verdicts) if not v["viol"]]
    rng.shuffle(good)
    made = []
    for tr in good:
        c = corrupt(pid, tr, rng)
        if c:
            made.append(c)
        if len(made) >= want:
            break
    if not made:
        return {"attempted": 0, "rejected": 0}
    vs, _ = pl.judge([c[0] for c in made], batch_size=len(made), procs=1)
    rejected = sum(1 for (c, lab), v in zip(made, vs) if any(l == lab for l, _ in v["viol"]))
    return {"attempted": len(made), "rejected": rejected,
            "labels": sorted(set(lab for _, lab in made))}


# ---------------------------------------------------------------------------
DEFAULT_MBT_LIMIT = {("eval", "thorough"): 40000, ("inh", "thorough"): 16000}


def run_mc(cfg, tier, seed):
    """Design-level model checking of the algorithm-layer module + spec->code replay
    of the histories it enumerates.  Returns (mc result, replayed traces, verdicts)."""
    mc = cfg.get("mc")
    if not mc:
        return None, [], []
    module, qcfg, tcfg = mc
    cfgfile = qcfg if tier == "quick" else tcfg
    fd, ipath = tempfile.mkstemp(prefix="mxv_inst_", suffix=".json")
    os.close(fd)
    try:
        inst = instances.write_instance(module, tier, ipath, seed)
        env = {"MC_INSTANCE": ipath}
        r = tlc.run_tlc(module, cfg=cfgfile, env=env, workers=NCPU, timeout=3000 if tier == "quick" else 14400)
        deep = cfg.get("mc_deep")
        if deep and tier == "thorough":
            # one level deeper on the smaller (quick) vocabulary
            fd2, ipath2 = tempfile.mkstemp(prefix="mxv_inst_", suffix=".json")
            os.close(fd2)
            try:
                instances.write_instance(module, "quick", ipath2, seed)
                r2 = tlc.run_tlc(module, cfg=deep, env={"MC_INSTANCE": ipath2}, workers=NCPU, timeout=14400)
            finally:
                os.unlink(ipath2)
            r["deep"] = {k: r2.get(k) for k in ("states", "transitions", "depth", "wall_s", "ok")}
            r["ok"] = bool(r.get("ok")) and bool(r2.get("ok"))
            r["states"] = (r.get("states") or 0) + (r2.get("states") or 0)
            r["transitions"] = (r.get("transitions") or 0) + (r2.get("transitions") or 0)
        # design-level controls: a configuration that models a mechanism as it was BEFORE a
        # repair must violate the named property on its control instance, and the repaired
        # mechanism must satisfy it on the same instance
        ctl = []
        for c in cfg.get("mc_controls", []):
            fd3, ipath3 = tempfile.mkstemp(prefix="mxv_inst_", suffix=".json")
            os.close(fd3)
            try:
                with open(ipath3, "w") as f:
                    json.dump(instances.CONTROL_INSTANCES[c["instance"]](), f)
                bad = tlc.run_tlc(module, cfg=c["cfg"], env={"MC_INSTANCE": ipath3}, workers=2, timeout=900)
                good = tlc.run_tlc(module, cfg=c["ok_cfg"], env={"MC_INSTANCE": ipath3}, workers=2, timeout=900)
            finally:
                os.unlink(ipath3)
            fired = c["expect"] in bad["out"]
            ctl.append({"cfg": c["cfg"], "expects": c["expect"], "fired": fired,
                        "repaired_cfg": c["ok_cfg"], "repaired_ok": bool(good.get("ok")),
                        "states": bad.get("states")})
            if not fired or not good.get("ok"):
                r["ok"] = False
        if ctl:
            r["controls"] = ctl
        # spec -> code: every history of MaxOps operations (BFS, exhaustive)
        mbtcfg = "MBT_%s.cfg" % module
        rb = tlc.run_tlc(module, cfg=mbtcfg, env=env, workers=NCPU, timeout=3000 if tier == "quick" else 7200)
        hists = [json.loads(tlc.tla_to_py(t)[1]) for t in tlc._match_tuples(rb["out"], "MBT")]
        # one level deeper, restricted to the history shapes that matter for this property
        extra = []
        for xcfg in cfg.get("mbt_extra", {}).get(tier, []):
            rx = tlc.run_tlc(module, cfg=xcfg, env=env, workers=NCPU, timeout=3000 if tier == "quick" else 7200)
            extra += [json.loads(tlc.tla_to_py(t)[1]) for t in tlc._match_tuples(rx["out"], "MBT")]
        xlimit = cfg.get("mbt_extra_limit", {}).get(tier)
        if xlimit and len(extra) > xlimit:
            random.Random(seed + 1).shuffle(extra)
            extra = extra[:xlimit]
        hists += extra
        if tier == "thorough":
            # plus deeper random behaviours
            rs = tlc.run_tlc(module, cfg="MBT_%s_sim.cfg" % module, env=env, workers=1,
                             timeout=1200, extra=["-depth", "400", "-seed", str(seed)],
                             simulate="num=1500")
            hists += [json.loads(tlc.tla_to_py(t)[1]) for t in tlc._match_tuples(rs["out"], "MBT")]
        seen, jobs, first = set(), [], []
        ncur = inst.get("curated", 0)       # initial states that are always replayed in full
        for h in hists:
            key = json.dumps(h, sort_keys=True)
            if key in seen:
                continue
            seen.add(key)
            if module in instances.TRANSLATE:
                defs, ops = instances.TRANSLATE[module](inst, h)
                ops = ops + dyn_sweep(ops)
            else:
                defs = inst["inits"][h[0]["id"] - 1]
                ops = h[1:] + sweep_ops(defs)
            job = (defs, ops, dict(cfg.get("mbt_opts", {"deep": True})))
            if module not in instances.TRANSLATE and h[0]["id"] <= ncur and len(h) <= 3:
                first.append(job)
            else:
                jobs.append(job)
        # replay budget (thorough enumerations exceed what can be executed on the code)
        limit = cfg.get("mbt_limit", {}).get(tier) or DEFAULT_MBT_LIMIT.get((cfg["engine"], tier))
        if limit and len(jobs) + len(first) > limit:
            random.Random(seed).shuffle(jobs)
            jobs = jobs[:max(0, limit - len(first))]
        jobs = first + jobs
        traces = pl.produce(pl.replay_ops_trace, jobs, procs=NCPU)
        verdicts, stats = pl.judge(traces, batch_size=max(20, len(traces) // (NCPU * 2) + 1),
                                   procs=NCPU) if traces else ([], {})
        r["mbt"] = {"histories_enumerated": len(hists), "replayed": len(traces),
                    "bfs_states": rb.get("states"), "judge": stats,
                    "instance": {"inits": len(inst["inits"]), "ops": len(inst["ops"])}}
        return r, traces, verdicts
    finally:
        os.unlink(ipath)


def dyn_sweep(ops):
    """After a replayed ItemSpace history: query again every dynamic element that was queried."""
    seen, out = set(), []
    for op in ops:
        if op["op"] == "call":
            key = json.dumps(op, sort_keys=True)
            if key not in seen:
                seen.add(key)
                out.append(dict(op))
    return out


def sweep_ops(defs):
    """Query every element of a small instance (keys 0 and 1) after a replayed history."""
    out = []
    for p, cs in defs["cells"]:
        for c, rec in cs.items():
            nps = len(defs["flib"][rec["f"]]["ps"])
            for k in ((0,), (1,)) if nps == 1 else ((),) if nps == 0 else ((0, 0), (1, 0)):
                out.append({"op": "call", "c": [p, [], c], "args": list(k), "sp": "pos"})
    return out


def run_eval(pid, tier, seed):
    cfg = PROPS[pid]
    size = cfg[tier]
    rng = random.Random(seed)
    jobspecs = cfg["jobs"](tier)
    jobs = []
    n = size["traces"]
    for i in range(n):
        profile, opts = jobspecs[i % len(jobspecs)]
        jobs.append((seed * 100003 + i, profile, size["nops"],
                     dict(opts, _worker=opts.get("_worker", cfg.get("worker", "make_eval_trace")))))
    t0 = time.time()
    traces = pl.produce(pl.dispatch_trace, jobs, procs=NCPU)
    t_prod = time.time() - t0
    verdicts, stats = pl.judge(traces, batch_size=max(4, min(40, n // NCPU + 1)), procs=NCPU)
    n_random = len(traces)
    mc, mtraces, mverdicts = run_mc(cfg, tier, seed)
    traces = traces + mtraces
    verdicts = verdicts + mverdicts
    res = {"level": cfg["level"], "violations": [],
           "assumptions": list(INH_ASSUME if cfg["engine"] == "inh" else EVAL_COMMON_ASSUME)}
    # machinery sanity: every trace consumed to its end
    for tr, v in zip(traces, verdicts):
        if v["matched"] != v["total"]:
            res["machinery_failure"] = "trace seed=%s consumed %d of %d events" % (
                tr["hdr"].get("seed"), v["matched"], v["total"])
    labels_seen = collections.Counter()
    for tr, v in zip(traces, verdicts):
        mine = [(lab, l) for lab, l in v["viol"] if belongs(cfg, lab)]
        for lab, l in v["viol"]:
            labels_seen[lab] += 1
        if mine:
            path = save_replay(pid, tr)
            for lab, l in sorted(mine, key=lambda x: x[1])[:3]:
                res["violations"].append({"label": lab, "line": l, "replay": path})
    # dedupe: one report per (label, replay)
    nc = negative_controls(pid, traces[:n_random], verdicts[:n_random], rng)
    if nc["attempted"] == 0 or nc["rejected"] != nc["attempted"]:
        if not res["violations"]:
            res["machinery_failure"] = "negative control not rejected: %r" % (nc,)
    hashes = set()
    nontrivial = set()
    opk = collections.Counter()
    for tr in traces:
        h = pl.trace_hash(tr)
        hashes.add(h)
        if pl.is_nontrivial(tr):
            nontrivial.add(h)
        for e in tr["ev"]:
            opk[e["op"]] += 1
    cov = {
        "states": stats["states"], "transitions": stats["transitions"],
        "traces_validated_against_impl": len(traces),
        "random_histories": n_random, "model_enumerated_histories_replayed": len(mtraces),
        "evaluations": sum(len(t["ev"]) for t in traces),
        "distinct_nontrivial": len(nontrivial),
        "rule": "one case = (generated program, operation history); distinct by SHA-1 of "
                "(initial definitions, operation arguments); non-trivial = contains at least one "
                "edit and at least one call that executed a formula",
        "samples": [sample_of(t) for t in traces[:2]],
        "operation_kinds": dict(opk),
        "labels_raised_any_property": dict(labels_seen),
        "negative_controls": nc,
        "trace_production_s": round(t_prod, 1), "tlc_trace_wall_s": round(stats["tlc_wall_s"], 1),
        "exhaustive": False,
    }
    if mc is not None:
        cov["design_model_check"] = {k: mc.get(k) for k in ("states", "transitions", "depth", "wall_s", "ok", "mbt", "deep", "controls") if k not in ("deep", "controls") or mc.get(k)}
        if mc.get("states"):
            cov["states"] += mc["states"]
            cov["transitions"] += mc.get("transitions") or 0
        if not mc.get("ok"):
            res["machinery_failure"] = "design-level model check did not complete cleanly"
    res["coverage"] = cov
    res["summary"] = "traces=%d events=%d states=%d neg=%d/%d" % (
        len(traces), cov["evaluations"], cov["states"], nc["rejected"], nc["attempted"])
    return res


def run(pid, tier, seed):
    cfg = PROPS[pid]
    if cfg["engine"] == "plugin":
        return cfg["module"].run(pid, tier, seed)
    return ENGINES[cfg["engine"]](pid, tier, seed)


def replay(pid, path):
    rec = json.load(open(path))
    cfg = PROPS[pid]
    if cfg["engine"] == "plugin":
        return cfg["module"].replay(pid, path)
    tr = pl.replay_ops_trace((rec["init"], rec["ops"], rec.get("opts", {})))
    verdicts, _ = pl.judge([tr], procs=1)
    v = verdicts[0]
    res = {"level": cfg["level"], "violations": [], "coverage": {}}
    for lab, l in v["viol"]:
        if belongs(cfg, lab):
            res["violations"].append({"label": lab, "line": l, "replay": path})
    res["summary"] = "replayed %d events, labels=%r" % (v["total"], v["viol"])
    return res


ENGINES = {"eval": run_eval, "inh": run_eval}


# ---------------------------------------------------------------------------
# plug-in engines: harness/eng_*.py, each with PIDS, run(pid, tier, seed), replay(pid, path)
def _load_plugins():
    import importlib
    import pkgutil
    import harness
    for m in pkgutil.iter_modules(harness.__path__):
        if m.name.startswith("eng_"):
            mod = importlib.import_module("harness." + m.name)
            for pid in getattr(mod, "PIDS", []):
                PROPS[pid] = {"engine": "plugin", "module": mod, "level": getattr(mod, "LEVEL", {}).get(pid, "model_checking")}


_load_plugins()
