"""C14 "Saving never loses the last good save; failed saves and loads leave no residue".

Plug-in engine (contract: harness/PLUGIN.md).  Specification: spec/MxSaveProps.tla (property
layer), spec/MxSave.tla (algorithm layer, model checked), spec/MxSaveTrace.tla (trace spec).

  1. design level: TLC model-checks MxSave (every crash point of every save / load, both formats,
     backups on/off) against the six C14 invariants; vacuity witnesses; two design-level negative
     controls (model without the clean-up of the partial directory, model with the swallowed zip
     failures) must be rejected;
  2. code -> spec: fault enumeration on the real library (harness/save_driver.py): every audited
     file / pickling operation of a save or a load is made to fail in turn, over a corpus of
     models and sequences of saves; every attempt is recorded and judged by TLC (MxSaveTrace);
  3. spec -> code: histories enumerated by TLC from MxSave are replayed on the real library and
     judged the same way;
  4. negative controls: recorded attempts are corrupted so that each predicate must fire.
Verdicts come only from TLC labels.
"""
import collections
import concurrent.futures as cf
import copy
import hashlib
import json
import multiprocessing as mp
import os
import random
import re
import time

from . import tlc
from . import save_driver as sd
from . import pipeline as pl

PIDS = ["C14"]
LEVEL = {"C14": "fault_enumeration"}

ROOT = os.path.dirname(os.path.dirname(os.path.abspath(__file__)))
NCPU = min(16, os.cpu_count() or 1)
KINDS = ["plain", "pickled", "items", "pandas"]
PREDICATES = ["C14.LastGoodSafe", "C14.GenerationsOrdered", "C14.GenerationsKept",
              "C14.NoPartialZip", "C14.SessionUsable", "C14.NoHalfLoadedModel"]
MODEL_ACTIONS_OFF = {"ZipReopenTruncates", "ZipArchiveSkips"}      # enabled only with Swallowed
MBT_NFILES = 2

ASSUME = [
    "a failure = the audited operation raises OSError before it has any effect (sys.addaudithook); "
    "failures in the middle of a write() or of a rename are not injected",
    "single fault per attempt: after the injected failure the remaining operations of the same "
    "call (finally / except clean-up) succeed",
    "the temporary directory of a zip save is on the same file system as the destination "
    "(shutil.move = one rename); tempfile.tempdir is pointed into the case directory",
    "a slot is COMPLETE iff mx.read_model reads it back and a fingerprint of everything the corpus "
    "model contains (formulas, values, pickled object, ItemSpace input, DataFrame) equals the "
    "fingerprint taken from the live model when that generation was saved; the comparison itself "
    "is made by TLC",
    "pickling failures are injected through a pickled corpus object that announces its "
    "__reduce__ / rebuild as audit events, and through pickle.find_class on load",
]


def G(fmt, bk=True):
    return {"op": "save", "fmt": fmt, "bk": bk, "fault": 0}


def L(slot):
    return {"op": "load", "slot": slot, "fault": 0}


def other(fmt):
    return "zip" if fmt == "dir" else "dir"


def templates(tier, seed):
    """The scenario templates of the code -> spec direction ("each" = every audited operation of
    that attempt in turn; ["sample", k] = k of them chosen by the seed)."""
    rng = random.Random(seed)
    out = []

    def add(family, kind, steps, shards):
        for r in range(shards):
            out.append({"model": kind, "steps": steps, "family": family, "shard": [r, shards],
                        "seed": rng.randrange(1 << 30)})

    for kind in KINDS:
        for fmt in ("dir", "zip"):
            sh = 2 if fmt == "dir" else 4
            # A: single fault in the p-th save over p-1 good ones
            if tier == "quick":
                plan = [(2, True, "each"), (2, False, ["sample", 5])]
                if kind == "plain":
                    plan += [(1, True, "each"), (5, True, "each"), (5, False, ["sample", 6])]
                else:
                    plan += [(1, True, ["sample", 4]), (5, True, ["sample", 8]), (3, True, ["sample", 4])]
            else:
                plan = [(p, bk, "each") for p in (1, 2, 3, 4, 5) for bk in (True, False)]
            for p, bk, f in plan:
                steps = [G(fmt)] * (p - 1) + [dict(G(fmt, bk), fault=f), G(fmt), L(0)] + \
                        ([L(1)] if p >= 2 else [])
                add("A%d" % p, kind, steps, sh if f == "each" else 1)
            # B: two consecutive failed saves followed by a good one
            if tier == "quick":
                f1, f2 = ["sample", 5], ["sample", 2]
            elif kind == "plain":
                f1, f2 = "each", "each"
            else:
                f1, f2 = "each", ["sample", 6]
            add("B", kind, [G(fmt), dict(G(fmt), fault=f1), dict(G(fmt), fault=f2), G(fmt), L(0), L(1)],
                sh * 2 if f1 == "each" else 1)
            # C: failed loads at every operation
            fl = "each" if tier == "thorough" or kind in ("items", "pandas") else ["sample", 6]
            add("C0", kind, [G(fmt), dict(L(0), fault=fl), L(0), G(fmt), L(0)], sh if fl == "each" else 1)
            if tier == "thorough":
                add("C1", kind, [G(fmt), G(other(fmt)), dict(L(1), fault="each"), L(1), G(fmt)], sh)
            # D: the other format over an existing copy, and back
            f = "each" if tier == "thorough" else ["sample", 6]
            add("D", kind, [G(other(fmt)), dict(G(fmt), fault=f), G(other(fmt)), L(0), L(1)],
                sh if f == "each" else 1)
            if tier == "thorough":
                add("D", kind, [G(other(fmt)), G(fmt, False), dict(G(fmt, False), fault=f), G(fmt),
                                dict(G(other(fmt)), fault=["sample", 4]), G(fmt), L(0), L(1)], sh)
    return out


# ---------------------------------------------------------------------------
def _pool_init():
    sd.install()


def case_hash(tr):
    key = json.dumps({"model": tr["hdr"]["model"], "steps": tr["hdr"]["steps"]}, sort_keys=True)
    return hashlib.sha1(key.encode()).hexdigest()


def save_replay(pid, tr, labels):
    h = case_hash(tr)
    d = os.path.join(ROOT, "replays", pid)
    os.makedirs(d, exist_ok=True)
    path = os.path.join(d, h + ".json")
    with open(path, "w") as f:
        json.dump({"property": pid, "engine": "save",
                   "case": {"model": tr["hdr"]["model"], "steps": tr["hdr"]["steps"],
                            "family": tr["hdr"].get("family", "")},
                   "labels_when_recorded": labels}, f, indent=1)
    return path


def sample_of(tr):
    evs = []
    for e in tr["ev"]:
        x = {k: e[k] for k in ("op", "fmt", "bk", "gen", "slot", "fault", "fev", "ftgt", "raised",
                               "exc", "nops", "flags", "reg", "got") if k in e}
        if "post" in e:
            x["slots_after"] = ["absent" if not s["p"] else "%s gen=%d readable=%s" % (
                s["kind"], s["gen"], s["r"]) for s in e["post"]]
        if e["fired"]:
            x["operations_until_fault"] = [" ".join(o) for o in e["ops"][:e["fired"]]][-6:]
        evs.append(x)
    return {"model": tr["hdr"]["model"], "family": tr["hdr"].get("family"), "attempts": evs}


# -- negative controls -------------------------------------------------------
def corruptions(traces, verdicts, rng):
    """(corrupted trace, expected label) for each predicate, made from accepted traces."""
    want = dict.fromkeys(PREDICATES)
    idx = [i for i, v in enumerate(verdicts) if not any(
        lab.startswith("C14.") or lab.startswith("KF:") for lab, _ in v["viol"])]
    rng.shuffle(idx)
    for i in idx:
        tr = traces[i]
        for j, e in enumerate(tr["ev"]):
            def mk(fn, label):
                if want[label] is None:
                    t = copy.deepcopy(tr)
                    t["ev"] = t["ev"][:j + 1]
                    fn(t["ev"][j])
                    want[label] = (t, label)
            if e["op"] == "save":
                post = e["post"]
                prev = tr["ev"][j - 1] if j else None
                if e["bk"] and e["raised"] and not post[0]["p"] and post[1]["p"] and post[1]["r"] \
                        and prev is not None and prev["op"] == "save" and prev["post"][0]["r"]:
                    mk(lambda x: x["post"][1].update(r=False), "C14.LastGoodSafe")
                if not e["raised"] and post[0]["r"] and post[1]["r"]:
                    def swap(x):
                        x["post"][0]["gen"], x["post"][1]["gen"] = x["post"][1]["gen"], x["post"][0]["gen"]
                        x["post"][0]["fp"], x["post"][1]["fp"] = x["post"][1]["fp"], x["post"][0]["fp"]
                    mk(swap, "C14.GenerationsOrdered")
                    if e["bk"]:
                        mk(lambda x: x["post"][1].update(p=False, r=False, kind="none", gen=0, fp=0, cid=0),
                           "C14.GenerationsKept")
                if e["fmt"] == "zip" and not e["raised"] and post[0]["r"] and e["fault"] == 0:
                    mk(lambda x: x["post"][0].update(r=False, gen=0, fp=0), "C14.NoPartialZip")
                if e["raised"] and e["flags"] == 0:
                    mk(lambda x: x.update(flags=1), "C14.SessionUsable")
            elif e["op"] == "load" and e["raised"] and e["fired"]:
                mk(lambda x: x["reg"].append("Model1"), "C14.NoHalfLoadedModel")
        if all(v is not None for v in want.values()):
            break
    return [v for v in want.values() if v is not None]


def judge(traces):
    if not traces:
        return [], {"states": 0, "transitions": 0, "tlc_wall_s": 0.0, "batches": 0}
    procs = max(1, min(NCPU // 2, 8))
    bs = max(40, min(400, len(traces) // procs + 1))
    return pl.judge(traces, module="MxSaveTrace", cfg="MxSaveTrace.cfg", batch_size=bs, procs=procs)


# -- design level --------------------------------------------------------------
def _mc(cfg, workers=1, coverage=False, timeout=3000):
    r = tlc.run_tlc("MxSave", cfg=cfg, workers=workers, timeout=timeout,
                    extra=["-coverage", "1"] if coverage else [])
    out = r.pop("out")
    r["violated"] = re.findall(r"Invariant (\w+) is violated", out)
    r["witness"] = {tlc.tla_to_py(t)[1]: tlc.tla_to_py(t)[2] for t in tlc._match_tuples(out, "WITNESS")}
    if coverage:
        r["actions"] = {m.group(1): int(m.group(2)) for m in re.finditer(
            r"^<(\w+) line \d+, col \d+ to line \d+, col \d+ of module MxSave>: (\d+):\d+", out, re.M)}
    if r.get("error") and not r["violated"]:
        i = out.find("Error:")
        r["error_text"] = out[max(0, i - 200):i + 1500]
    return r


def _mbt(cfg, seed=None, simulate=None):
    extra = ["-depth", "400", "-seed", str(seed)] if simulate else []
    r = tlc.run_tlc("MxSave", cfg=cfg, workers=1 if simulate else NCPU, timeout=1200,
                    extra=extra, simulate=simulate)
    out = r.pop("out")
    hs = [json.loads(tlc.tla_to_py(t)[1]) for t in tlc._match_tuples(out, "MBT")]
    r["hists"] = hs
    return r


def history_to_case(h, kind):
    steps = []
    for o in h:
        st = {"op": o["op"], "sym": [o["ph"], o["ix"]]}
        if o["op"] == "save":
            st.update(fmt=o["fmt"], bk=o["bk"])
        else:
            st.update(slot=o["slot"])
        steps.append(st)
    # every replay ends with a fault-free save and load (the "later saves and loads behave
    # normally" part of the property)
    steps += [G("dir"), L(0)]
    return {"model": kind, "steps": steps, "family": "MBT", "nfiles": MBT_NFILES}


# ---------------------------------------------------------------------------
def run(pid, tier, seed):
    t_start = time.time()
    rng = random.Random(seed)
    res = {"level": LEVEL[pid], "violations": [], "assumptions": list(ASSUME)}
    fail = []

    ctx = mp.get_context("fork")
    pool = ctx.Pool(NCPU, initializer=_pool_init)      # forked before any thread is started
    tpe = cf.ThreadPoolExecutor(max_workers=6)
    try:
        # 1. design level (TLC runs in the background while the cases execute)
        quick = tier == "quick"
        fut = {
            "mc": tpe.submit(_mc, "MC_MxSave_quick.cfg", 1, not quick),
            "neg_nocleanup": tpe.submit(_mc, "MC_MxSave_nocleanup.cfg"),
            "neg_kf": tpe.submit(_mc, "MC_MxSave_kf.cfg"),
            "mbt": tpe.submit(_mbt, "MBT_MxSave.cfg"),
        }
        if not quick:
            fut["mc_big"] = tpe.submit(_mc, "MC_MxSave_thorough.cfg", max(2, NCPU // 2))
            fut["mbt_deep"] = tpe.submit(_mbt, "MBT_MxSave_deep.cfg")
            fut["mbt_sim"] = tpe.submit(_mbt, "MBT_MxSave_sim.cfg", seed, "num=400")

        # 2. code -> spec
        jobs = templates(tier, seed)
        t0 = time.time()
        async_cs = pool.map_async(sd.expand, jobs, chunksize=1)

        # 3. spec -> code
        hists = fut["mbt"].result()["hists"]
        n_enum = {"bfs_depth2": len(hists)}
        pick = list(hists)
        rng.shuffle(pick)
        pick = pick[:120 if quick else len(pick)]
        if not quick:
            deep = fut["mbt_deep"].result()["hists"]
            sim = fut["mbt_sim"].result()["hists"]
            n_enum.update(bfs_depth3=len(deep), simulated=len(sim))
            rng.shuffle(deep)
            pick += deep[:2500] + sim
        cases = [history_to_case(h, KINDS[i % len(KINDS)]) for i, h in enumerate(pick)]
        async_mbt = pool.map_async(sd.run_case, cases, chunksize=max(1, len(cases) // (NCPU * 8)))

        traces = [t for lst in async_cs.get() for t in lst]
        n_cs = len(traces)
        mtraces = async_mbt.get()
        t_prod = time.time() - t0
        traces += mtraces
        # all background TLC runs are collected before TLC is forked again for the traces
        mc = fut["mc"].result()
        neg1 = fut["neg_nocleanup"].result()
        neg2 = fut["neg_kf"].result()
        mc_big = fut["mc_big"].result() if not quick else None
        verdicts, stats = judge(traces)

        for tr, v in zip(traces, verdicts):
            if v["matched"] != v["total"]:
                fail.append("a trace was consumed to %d of %d attempts" % (v["matched"], v["total"]))
                break

        # 4. negative controls
        neg = corruptions(traces[:n_cs], verdicts[:n_cs], rng)
        nv, _ = judge([c[0] for c in neg]) if neg else ([], None)
        rejected = [lab for (c, lab), v in zip(neg, nv)
                    if v["viol"] and any(l == lab and ln == len(c["ev"]) for l, ln in v["viol"])]
        nc = {"attempted": len(neg), "rejected": len(rejected), "labels": sorted(rejected),
              "missing": sorted(set(PREDICATES) - set(rejected))}
        if nc["missing"]:
            fail.append("negative control not rejected / not constructible for %s" % nc["missing"])

    finally:
        pool.close()
        pool.join()
        tpe.shutdown(wait=True)

    # -- violations ---------------------------------------------------------
    labels_seen = collections.Counter()
    drift = collections.Counter()
    per_label_replays = collections.Counter()
    for tr, v in zip(traces, verdicts):
        mine = []
        for lab, ln in v["viol"]:
            labels_seen[lab] += 1
            if lab.startswith("DRIFT:"):
                drift[lab] += 1
            else:
                mine.append((lab, ln))
        for lab, ln in sorted(mine, key=lambda x: x[1]):
            if per_label_replays[lab] < 3:
                per_label_replays[lab] += 1
                res["violations"].append({"label": lab, "line": ln,
                                          "replay": save_replay(pid, tr, [m[0] for m in mine])})

    # -- machinery checks ------------------------------------------------------
    if not mc.get("ok"):
        fail.append("design-level model check failed: %s %s" % (mc.get("violated"), mc.get("error_text", "")))
    if mc_big is not None and not mc_big.get("ok"):
        fail.append("design-level model check (thorough constants) failed: %s %s" % (
            mc_big.get("violated"), mc_big.get("error_text", "")))
    missing_w = [i for i, ok in sorted(mc.get("witness", {}).items()) if not ok]
    if missing_w or len(mc.get("witness", {})) < 10:
        fail.append("vacuity: model situations never reached: %r" % (missing_w or "no witness output"))
    if "actions" in mc:
        dead = [a for a, n in mc["actions"].items() if n == 0 and a not in MODEL_ACTIONS_OFF]
        if dead:
            fail.append("vacuity: model actions never taken: %r" % dead)
    if "Inv_C14_LastGoodSafe" not in neg1.get("violated", []):
        fail.append("design-level negative control (no clean-up of the partial directory) was accepted")
    if "Inv_C14_NoPartialZip" not in neg2.get("violated", []):
        fail.append("design-level control (swallowed zip failures) was accepted")

    # what the executions contained (vacuity of the code side; not a verdict)
    sit = collections.Counter()
    fevs = collections.Counter()
    evaluations = 0
    distinct = set()
    for tr in traces:
        fired_any = False
        for j, e in enumerate(tr["ev"]):
            evaluations += 1
            sit["%s:%s" % (e["op"], e.get("fmt", "any"))] += 1
            if e["fired"]:
                fired_any = True
                fevs[e["fev"]] += 1
                sit["fault %s %s" % (e["op"], "raised" if e["raised"] else "swallowed")] += 1
            if e["op"] == "save":
                sit["backup %s" % ("on" if e["bk"] else "off")] += 1
                if e["raised"] and e["bk"] and j and tr["ev"][j - 1].get("post", [{}])[0].get("r"):
                    sit["failed save over a good one, backups on"] += 1
                if any(o[0] in ("shutil.rmtree", "os.remove") and o[1] == "bak3" for o in e["ops"]):
                    sit["oldest backup dropped"] += 1
                if all(s["r"] for s in e["post"]):
                    sit["four complete generations"] += 1
            elif e["raised"] and e["fired"]:
                sit["failed load"] += 1
        if fired_any:
            distinct.add(case_hash(tr))
    need = ["save:dir", "save:zip", "load:any", "backup on", "backup off", "fault save raised",
            "fault load raised", "failed save over a good one, backups on", "oldest backup dropped",
            "four complete generations", "failed load"]
    lacking = [k for k in need if not sit[k]]
    if lacking:
        fail.append("vacuity: the executions contain no case of %r" % lacking)

    n_attempts_judged = sum(1 for tr in traces for e in tr["ev"])
    cov = {
        "evaluations": evaluations,
        "distinct_nontrivial": len(distinct),
        "rule": "one case = (corpus model, sequence of save/load attempts with the index of the audited "
                "operation that is made to fail in each); generated by first counting the audited "
                "operations k of an attempt and then re-running the scenario k times failing operation "
                "i (families A: p-th save over p-1 good ones, B: two consecutive failed saves, C: failed "
                "loads, D: format change; MBT: histories enumerated by TLC from MxSave); evaluations = "
                "attempts executed and judged; distinct by SHA-1 of (model, resolved steps); "
                "non-trivial = at least one injected fault actually fired",
        "samples": [sample_of(t) for t in (traces[:1] + traces[n_cs:n_cs + 1])],
        "states": (mc.get("states") or 0) + (mc_big.get("states") or 0 if mc_big else 0) + stats["states"],
        "transitions": (mc.get("transitions") or 0) + (mc_big.get("transitions") or 0 if mc_big else 0)
                       + stats["transitions"],
        "traces_validated_against_impl": len(traces),
        "fault_enumeration_traces": n_cs,
        "model_enumerated_histories": n_enum,
        "model_enumerated_histories_replayed": len(mtraces),
        "injected_fault_events": dict(fevs),
        "situations": dict(sit),
        "labels_raised": dict(labels_seen),
        "impl_model_agreement": {"attempts": n_attempts_judged, "drift": dict(drift)},
        "negative_controls": nc,
        "design_model_check": {k: mc.get(k) for k in ("states", "transitions", "depth", "wall_s", "ok",
                                                     "witness", "actions") if mc.get(k) is not None},
        "design_negative_controls": {
            "no_cleanup_of_partial_directory": neg1.get("violated"),
            "swallowed_zip_failures": neg2.get("violated")},
        "exhaustive": False,
        "trace_production_s": round(t_prod, 1), "tlc_trace_wall_s": round(stats["tlc_wall_s"], 1),
    }
    if mc_big:
        cov["design_model_check_thorough"] = {k: mc_big.get(k) for k in (
            "states", "transitions", "depth", "wall_s", "ok")}
    res["coverage"] = cov
    res["summary"] = "traces=%d (fault-enum %d, model-enumerated %d) attempts=%d mc_states=%d neg=%d/%d drift=%d wall=%.0fs" % (
        len(traces), n_cs, len(mtraces), evaluations,
        (mc.get("states") or 0) + ((mc_big.get("states") or 0) if mc_big else 0), nc["rejected"],
        len(PREDICATES), sum(drift.values()), time.time() - t_start)
    if fail:
        res["machinery_failure"] = "; ".join(fail)
    return res


def replay(pid, path):
    rec = json.load(open(path))
    ctx = mp.get_context("fork")
    with ctx.Pool(1, initializer=_pool_init) as pool:
        tr = pool.apply(sd.run_case, (rec["case"],))
    verdicts, _ = judge([tr])
    v = verdicts[0]
    res = {"level": LEVEL[pid], "violations": [], "coverage": {}}
    if v["matched"] != v["total"]:
        res["machinery_failure"] = "trace consumed to %d of %d attempts" % (v["matched"], v["total"])
    for lab, ln in v["viol"]:
        if not lab.startswith("DRIFT:"):
            res["violations"].append({"label": lab, "line": ln, "replay": path})
    res["summary"] = "replayed %d attempts, labels=%r" % (v["total"], v["viol"])
    return res
