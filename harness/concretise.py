"""Concretisation table: abstract formula records -> Python source text.

The TLA+ specification never sees text.  A formula record is

    {"ps": [[name, hasDefault, default], ...],
     "ops": [["const", v] | ["call", [names...], [arg...], spelling]
             | ["read", [names...]] | ["raise", e] | ["raiseif", k, e] | ["none"]],
     "catch": bool, "onerr": int, "style": "def"|"lambda"|"defx"|"defrr"}

style "defrr" (with "probe": a call op): the body runs inside `try:`, and the handler
`except Exception:` evaluates the probe inside its own try/except BaseException and then
re-raises with a bare `raise` -- the value / error of the formula is that of its ops
(MxSem.Den does not look at it), but another evaluation happens, and fails or not, while
the original exception is on its way out.

arg = ["k", i] | ["dec", i] | ["c", v]     (i is a 1-based parameter index)
spelling = "pos" | "kw" | "kwr" | "sub" | "value"   (how the call is written; "kwr" = keywords in
                                                     reverse declaration order)

The same record always renders to the same text for a given cells name, so a
projection can map `formula.source` back to the record id.
"""

NONE_CONTRIB = 7


def params_src(ps):
    out = []
    for name, has, dflt in ps:
        out.append("%s=%d" % (name, dflt) if has else name)
    return ", ".join(out)


def arg_src(a, ps):
    kind = a[0]
    if kind == "k":
        return ps[a[1] - 1][0]
    if kind == "dec":
        return "%s - 1" % ps[a[1] - 1][0]
    return str(a[1])


def call_src(op, ps, callee_params):
    """callee_params: list of parameter names of the callee (for kw spelling)."""
    path, args, sp = op[1], op[2], op[3]
    tgt = ".".join(path)
    argtxt = [arg_src(a, ps) for a in args]
    if sp in ("kw", "kwr") and callee_params is not None and len(callee_params) >= len(args):
        order = range(len(args)) if sp == "kw" else range(len(args) - 1, -1, -1)
        txt = "%s(%s)" % (tgt, ", ".join(          # ("kwr": keywords in reverse declaration order)
            "%s=%s" % (callee_params[i], argtxt[i]) for i in order))
    elif sp == "sub" and len(args) >= 1:
        txt = "%s[%s]" % (tgt, ", ".join(argtxt))
    elif sp == "value" and len(args) == 0:
        txt = "%s.value" % tgt
    else:
        txt = "%s(%s)" % (tgt, ", ".join(argtxt))
    guards = ["%s > 0" % ps[a[1] - 1][0] for a in args if a[0] == "dec"]
    if guards:
        txt = "(%s if %s else 0)" % (txt, " and ".join(guards))
    return txt


def icall_src(op, ps, callee_params):
    """["icall", spacepath, keyargs, cellsname, args, spelling]  ->  P[k].c(a) / P(k).c(a)"""
    spath, kargs, cname, args, sp = op[1], op[2], op[3], op[4], op[5]
    ktxt = ", ".join(arg_src(a, ps) for a in kargs)
    base = ".".join(spath)
    item = "%s(%s)" % (base, ktxt) if sp == "call" else "%s[%s]" % (base, ktxt)
    return "%s.%s(%s)" % (item, cname, ", ".join(arg_src(a, ps) for a in args))


def render(frec, name, sigs=None):
    """Return Python source of formula record `frec` for a cells called `name`.

    sigs: {cells name: [param names]} used for keyword spellings.
    """
    sigs = sigs or {}
    ps = frec["ps"]
    ops = frec["ops"]
    style = frec.get("style", "def")
    if style == "lambda":
        terms = ["0"]
        for op in ops:
            if op[0] == "const":
                terms.append(str(op[1]))
            elif op[0] == "read":
                terms.append(".".join(op[1]))
            elif op[0] == "call":
                terms.append("(lambda _t: %d if _t is None else _t)(%s)" % (
                    NONE_CONTRIB, call_src(op, ps, sigs.get(op[1][-1]))))
            elif op[0] == "icall":
                terms.append("(lambda _t: %d if _t is None else _t)(%s)" % (
                    NONE_CONTRIB, icall_src(op, ps, None)))
            else:
                raise ValueError("op %r not expressible in a lambda" % (op,))
        return "lambda %s: %s" % (params_src(ps), " + ".join(terms))

    ind = "    "
    body = []
    catch = frec.get("catch", False)
    rr = style == "defrr"
    pre = ind * 2 if (catch or rr) else ind
    if catch or rr:
        body.append(ind + "try:")
    body.append(pre + "_a = 0")
    for op in ops:
        if op[0] == "const":
            body.append(pre + "_a += %d" % op[1])
        elif op[0] == "read":
            body.append(pre + "_a += %s" % ".".join(op[1]))
        elif op[0] == "call":
            body.append(pre + "_t = %s; _a += (%d if _t is None else _t)" % (
                call_src(op, ps, sigs.get(op[1][-1])), NONE_CONTRIB))
        elif op[0] == "icall":
            body.append(pre + "_t = %s; _a += (%d if _t is None else _t)" % (
                icall_src(op, ps, None), NONE_CONTRIB))
        elif op[0] == "raise":
            body.append(pre + ('raise ValueError("E%d")' if op[1] < 8 else
                               'raise GeneratorExit("E%d")') % op[1])
        elif op[0] == "raiseif":
            body.append(pre + ('if %s == %d: raise ValueError("E%d")' if op[2] < 8 else
                               'if %s == %d: raise GeneratorExit("E%d")') % (ps[0][0], op[1], op[2]))
        elif op[0] == "none":
            body.append(pre + "return None")
        else:
            raise ValueError(op)
    body.append(pre + "return _a")
    if catch:
        body.append(ind + "except Exception:")
        body.append(ind * 2 + "return %d" % frec.get("onerr", 0))
    if rr:
        # the handler evaluates another element, handles whatever that raises itself,
        # and lets the original exception continue
        probe = frec["probe"]
        body.append(ind + "except Exception:")
        body.append(ind * 2 + "try:")
        body.append(ind * 3 + call_src(probe, ps, sigs.get(probe[1][-1])))
        body.append(ind * 2 + "except BaseException:")
        body.append(ind * 3 + "pass")
        body.append(ind * 2 + "raise")
    return "def %s(%s):\n%s\n" % (name, params_src(ps), "\n".join(body))


def op_line(frec, idx):
    """1-based source line of op number idx (0-based) in the def rendering."""
    base = 3 if not (frec.get("catch", False) or frec.get("style") == "defrr") else 4
    return base + idx


def render_pf(frec):
    """Parameter formula of a space: lambda params: None | {'refs': {...}}."""
    ps = frec["ps"]
    extra = frec.get("refs")
    parts = []
    if frec.get("base"):
        parts.append("'base': _model.%s" % ".".join(frec["base"]))
    if extra:
        items = ", ".join("'%s': %s" % (k, v) for k, v in sorted(extra.items()))
        parts.append("'refs': {%s}" % items)
    if parts:
        return "lambda %s: {%s}" % (params_src(ps), ", ".join(parts))
    return "lambda %s: None" % params_src(ps)
