"""Syntactic templates for C15 (export equivalence).

`harness/concretise.py` gives every abstract formula record ONE Python text.  The exporter's
FormulaTransformer, however, works on syntax: it decides by scope analysis which names of a
formula are global (sibling cells, references, `_space`, `_model`, child spaces, parameters of an
ItemSpace) and rewrites exactly those to `self.<name>`.  This module re-renders a formula record
into several texts with THE SAME MEANING as `concretise.render` gives it, each putting the global
names into a different syntactic position / scope:

    plain           concretise.render as is (def with statements, or lambda)
    lambda          one lambda expression (records without raise / return None / handler)
    listcomp        global names inside the element expression of a list comprehension
    genexp          ... of a generator expression
    dictcomp        ... of a dict comprehension
    thunks          a tuple of lambdas (nested function scopes) called from a comprehension
    nested_def      a helper function defined inside the formula, called in a for loop
    nonlocal        nested helpers updating the accumulator through `nonlocal`
    shadow_builtin  local variables named like built-ins (sum, max, len, ...) next to a real
                    built-in used as such (int)
    shadow_global   the accumulator is a local variable named like a global of the model that
                    this formula does not use (a sibling cells, a reference, a space)
    lambda_default  lambdas with default-argument capture (default evaluated at definition) and
                    lambdas whose body reads the globals
    condexpr        conditional-expression chains
    paren_global    global names written in parentheses
    comp_after_lambda  a lambda defined in the formula, then a list comprehension with the globals
    attr_module     attribute access whose attribute is spelled like a global name of the space:
                    `datetime.datetime(2020, 1, i + 1).day - (i + 1)` with `datetime` a module-valued
                    reference (contribution 0): the object must become self.datetime, the
                    attribute must stay.  (`n.n` on space-valued references is part of the
                    programs themselves, see export_driver._attr_like_global.)

The meaning of a record (see MxSem.EvOps / Den): the contributions of the ops are evaluated left to
right and summed; a call contributes 7 when the callee returned None; `raise e` raises
ValueError("E<e>"); `none` makes the formula return None at that point; with `catch` any exception
makes the formula return `onerr`.  No template changes the order of evaluation of the ops, and
every global name stays a global name (never assigned, never a parameter) so that the transformer
has to rewrite it.
"""
from . import concretise as cz

# Two templates exhibit spellings that modelx/export/transformer.py used to mistranslate (found with
# this table, reproduced on the library, repaired in /repo by 5b8fa93 and 0ecda46).  They are
# ordinary templates now; `features` still reports where they occur and spec/MxExportTrace.tla keeps
# the two predicates that describe exactly these failing situations as regression tripwires
# (labels KF:C15.parenthesised-global-name / KF:C15.comprehension-after-nested-scope):
#   paren_global       a global name written in parentheses, `(r) + 1`: leave_Name
#                      (transformer.py, leave_Name) wrapped the Name node including its parentheses
#                      -> `self.(r)`, the package did not compile (SyntaxError on import).
#   comp_after_lambda  Python >= 3.12 (PEP 709): a list/set/dict comprehension has no symbol table of
#                      its own; should_replace stepped back to the PREVIOUS table of the flattened
#                      list, i.e. the table of the nearest nested function / lambda defined earlier
#                      in the formula instead of the enclosing function's -> global names inside
#                      the comprehension were not rewritten -> NameError in the package.
TEMPLATES = ["plain", "lambda", "listcomp", "genexp", "dictcomp", "thunks", "nested_def", "nonlocal",
             "shadow_builtin", "shadow_global", "lambda_default", "condexpr",
             "paren_global", "comp_after_lambda", "attr_module"]

BUILTIN_LOCALS = ["sum", "max", "len", "min", "abs", "any", "all", "round", "sorted", "iter"]
NONE_WRAP = "(lambda _t: %d if _t is None else _t)(%%s)" % cz.NONE_CONTRIB


def names_used(frec):
    """Every name a formula record mentions (path elements, cells names, parameters)."""
    out = set(p[0] for p in frec["ps"])
    for op in frec["ops"]:
        if op[0] in ("call", "read", "icall"):
            out.update(op[1])
        if op[0] == "icall":
            out.add(op[3])
    return out


COLLECTING = ("listcomp", "genexp", "dictcomp", "thunks", "comp_after_lambda")


def _terms(frec, sigs, inline_raise=False, collect=False):
    """(expression texts of the ops before the first `none`, ends_with_none, needs_raise_helper)

    collect: the template evaluates all terms first and adds them up afterwards; a read is then
    spelled `0 + name` so that reading something that is not a number (a space-valued reference)
    fails where the plain rendering `_a += name` fails -- at that op, not after the later ones.

    inline_raise: `raise` is spelled as an expression (a generator's throw) instead of a call of a
    helper function defined at the top of the formula."""
    ps = frec["ps"]
    terms, ends_none, helper = [], False, False
    for op in frec["ops"]:
        k = op[0]
        if k == "const":
            terms.append(str(op[1]))
        elif k == "read":
            terms.append(("0 + " if collect else "") + ".".join(op[1]))
        elif k == "call":
            terms.append(NONE_WRAP % cz.call_src(op, ps, sigs.get(op[1][-1])))
        elif k == "icall":
            terms.append(NONE_WRAP % cz.icall_src(op, ps, None))
        elif k == "raise":
            if inline_raise:
                terms.append('(_x for _x in ()).throw(ValueError("E%d"))' % op[1])
            else:
                terms.append("_r(%d)" % op[1])
                helper = True
        elif k == "none":
            ends_none = True
            break
        else:
            raise ValueError(op)
    return terms, ends_none, helper


def _chain(terms, var="_k"):
    """(T0 if _k == 0 else T1 if _k == 1 else T2): lazily evaluates exactly term number _k."""
    if not terms:
        return "0"
    parts = []
    for i, t in enumerate(terms[:-1]):
        parts.append("%s if %s == %d else " % (t, var, i))
    return "(" + "".join(parts) + terms[-1] + ")"


def _body(tname, terms, ps, ctx):
    """Lines (relative indentation, 4 spaces per level) that leave the sum of `terms` in `_a`."""
    n = len(terms)
    L = []
    if tname == "listcomp":
        L.append("_a = sum([%s for _k in range(%d)])" % (_chain(terms), n))
    elif tname == "genexp":
        L.append("_a = sum(%s for _k in range(%d))" % (_chain(terms), n))
    elif tname == "dictcomp":
        L.append("_d = {_k: %s for _k in range(%d)}" % (_chain(terms), n))
        L.append("_a = sum(_d.values())")
    elif tname == "thunks":
        L.append("_ts = (%s)" % "".join("lambda: %s, " % t for t in terms))
        L.append("_a = sum([_f() for _f in _ts])")
    elif tname == "nested_def":
        L.append("def _h(_k):")
        for i, t in enumerate(terms):
            L.append("    if _k == %d:" % i)
            L.append("        return %s" % t)
        L.append("    return 0")
        L.append("_a = 0")
        L.append("for _k in range(%d):" % n)
        L.append("    _a += _h(_k)")
    elif tname == "nonlocal":
        L.append("_a = 0")
        for i, t in enumerate(terms):
            L.append("def _h%d():" % i)
            L.append("    nonlocal _a")
            L.append("    _a += %s" % t)
            L.append("_h%d()" % i)
    elif tname == "shadow_builtin":
        free = [b for b in BUILTIN_LOCALS if b not in ctx["used"]]
        acc, loopv, last = free[0], free[1], free[2]
        L.append("%s = 0" % acc)
        L.append("for %s in (0,):" % loopv)
        for t in terms:
            L.append("    %s += %s" % (acc, t))
        L.append("%s = %s" % (last, acc))
        L.append("_a = int(%s)" % last)
    elif tname == "shadow_global":
        cand = [g for g in ctx.get("globals", []) if g not in ctx["used"]]
        acc = cand[ctx.get("pick", 0) % len(cand)] if cand else "_zz"
        L.append("%s = 0" % acc)
        for t in terms:
            L.append("%s += %s" % (acc, t))
        L.append("_a = %s" % acc)
    elif tname == "lambda_default":
        L.append("_a = 0")
        for i, t in enumerate(terms):
            if i % 2 == 0:
                L.append("_f = lambda _v=%s: _v" % t)
            else:
                L.append("_f = lambda _d=0: _d + %s" % t)
            L.append("_a += _f()")
    elif tname == "condexpr":
        L.append("_z = len((%s))" % "".join("%s, " % p[0] for p in ps))
        L.append("_a = 0")
        for i, t in enumerate(terms):
            if i % 2 == 0:
                L.append("_a += (%s if _z == %d else -1 if _z > 99 else 0)" % (t, len(ps)))
            else:
                L.append("_a += (0 if _z != %d else %s)" % (len(ps), t))
    elif tname == "attr_module":
        mods = ctx.get("modules", [])
        k = ps[0][0] if ps else None
        L.append("_a = 0")
        for i, t in enumerate(terms):
            L.append("_a += %s" % t)
            if "datetime" in mods and i in (0, len(terms) - 1):
                if k:       # (keys stay far below 31)
                    L.append("_a += datetime.datetime(2020, 1, %s + 1).day - (%s + 1)" % (k, k))
                else:
                    L.append("_a += datetime.datetime(2020, 1, 1).day - datetime.date(2020, 2, 1).day")
    elif tname == "paren_global":
        L.append("_a = 0")
        for t in terms:
            L.append("_a += (%s)" % t if t.isidentifier() else "_a += %s" % t)
    elif tname == "comp_after_lambda":
        L.append("_n = lambda _u: _u")
        L.append("_a = _n(sum([%s for _k in range(%d)]))" % (_chain(terms), n))
    else:
        raise ValueError(tname)
    return L


def features(frec, tname):
    """Syntactic features of the known defects that the rendering of `frec` in `tname` has."""
    if tname == "paren_global" and any(op[0] == "read" and len(op[1]) == 1 for op in frec["ops"]):
        return ["paren"]
    if tname == "comp_after_lambda":
        for op in frec["ops"]:
            if op[0] == "none":
                break
            if op[0] in ("read", "call", "icall"):
                return ["compscope"]
    return []


def expressible(frec, tname):
    if tname == "lambda":
        return not frec.get("catch") and all(op[0] in ("const", "read", "call", "icall")
                                             for op in frec["ops"])
    return True


def render_t(frec, name, sigs, tname, ctx=None):
    """Python source of formula record `frec` for a cells called `name` in template `tname`.

    ctx: {"globals": [names of cells / references / spaces of the model], "pick": int}
    Falls back to the plain rendering when the template cannot express the record.
    """
    sigs = sigs or {}
    if tname == "plain" or not expressible(frec, tname):
        return cz.render(frec, name, sigs)
    if tname == "lambda":
        f2 = dict(frec)
        f2["style"] = "lambda"
        return cz.render(f2, name, sigs)
    ctx = dict(ctx or {})
    ctx["used"] = names_used(frec)
    terms, ends_none, helper = _terms(frec, sigs, inline_raise=tname in ("dictcomp", "comp_after_lambda"),
                                       collect=tname in COLLECTING)
    ind = "    "
    catch = frec.get("catch", False)
    pre = ind * 2 if catch else ind
    out = ["def %s(%s):" % (name, cz.params_src(frec["ps"]))]
    if catch:
        out.append(ind + "try:")
    if helper:
        out.append(pre + "def _r(_e):")
        out.append(pre + ind + 'raise ValueError("E%d" % _e)')
    for line in _body(tname, terms, frec["ps"], ctx):
        out.append(pre + line)
    out.append(pre + ("return None" if ends_none else "return _a"))
    if catch:
        out.append(ind + "except Exception:")
        out.append(ind * 2 + "return %d" % frec.get("onerr", 0))
    return "\n".join(out) + "\n"
