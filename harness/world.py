"""Driver: builds a real modelx model from an abstract definitions record,
applies abstract operations through the public API, and projects the abstract
state after every operation.  Shared by random generation (code -> spec) and by
replay of TLC-generated histories (spec -> code).

No second evaluator lives here: expected values are computed by TLC (MxSem).
"""
import sys
import warnings
import modelx as mx
from modelx.core.system import mxsys
from modelx.core.errors import (
    FormulaError, DeepReferenceError, NoneReturnedError, DeletedObjectError)
from modelx.core.base import Interface
from modelx.core.space import ItemSpaceImpl, DynamicSpaceImpl, UserSpaceImpl
from modelx.core.cells import CellsImpl

from . import concretise as cz
from .recorder import FormulaRecorder

NONE_V = -2
OBJKEY = [-999]
ERR_OTHER = -99

warnings.filterwarnings("ignore")


def exc_code(exc):
    """Map an exception raised by a formula to the spec's error codes."""
    if isinstance(exc, (ValueError, GeneratorExit)) and exc.args and isinstance(exc.args[0], str) \
            and exc.args[0].startswith("E") and exc.args[0][1:].isdigit():
        return -(10 + int(exc.args[0][1:]))
    if isinstance(exc, NoneReturnedError):
        return -30
    if isinstance(exc, DeepReferenceError):
        return -31
    if isinstance(exc, (NameError, AttributeError)):
        return -32
    if isinstance(exc, TypeError):
        return -33
    if isinstance(exc, DeletedObjectError):
        return -34
    return ERR_OTHER


LIT_CORPUS = [
    [1, 2, 3], {"a": 1, "b": [2, 3]}, (1, "two", 3.0), "plain text",
    "quote\" and 'apostrophe' and back\\slash", 1.5, {"nested": {"k": (1, 2)}}, frozenset([1, 2]),
    b"bytes\x00\xff", True,
]
DOC_CORPUS = [
    "single line doc", "two lines\n    second line", "ends with a quote\"",
    "has \\ backslash and \"\"\" triple", "non-ascii: \u00e9\u00e8 \u2603", "trailing space ",
    "ends with three quotes\"\"\"", "\"\"\"\"", "backslash at end\\",
]


def enc_val(v):
    if v is None:
        return NONE_V
    if isinstance(v, bool):
        return int(v)
    if isinstance(v, int):
        return v
    return -9999


class World:
    MODEL = "M"

    def __init__(self, defs, maxdepth=None, recalc=False, formula_error=True,
                 track_handles=False):
        """defs: JSON form of the spec's D (see MxSem.tla), plus "flib"."""
        for m in list(mx.get_models().values()):
            m.close()
        self.flib = defs["flib"]
        self.sigs = dict(defs.get("sigs", {}))
        self.maxdepth = maxdepth
        self.prev_depth = mx.get_recursion()
        if maxdepth:
            mx.set_recursion(maxdepth)
        mx.set_recalc(bool(recalc))
        mx.use_formula_error(formula_error)
        self.src2fid = {}
        self.fid_of_build = {}
        self.track_handles = track_handles
        self.handles = []
        self._handle_ids = {}
        self.rec = FormulaRecorder(self._node_of_frame)
        self.rec.start()
        self.m = mx.new_model(self.MODEL)
        self._build(defs)
        self.sync()

    def close(self):
        self.rec.stop()
        try:
            mx.stop_stacktrace()
        except Exception:
            pass
        if getattr(self, "_c04_home", None):
            import shutil
            shutil.rmtree(self._c04_home, ignore_errors=True)
            self._c04_home = None
        mx.set_recalc(False)
        mx.use_formula_error(True)
        if self.maxdepth:
            mx.set_recursion(self.prev_depth)
        for m in list(mx.get_models().values()):
            try:
                m.close()
            except Exception:
                pass

    # ------------------------------------------------------------------
    # building
    def src(self, fid, name):
        if self.flib[fid].get("bad"):
            return "def %s(:\n    return 1" % name
        s = cz.render(self.flib[fid], name, self.sigs)
        self.src2fid[(s.strip(), name)] = fid
        return s

    def _build(self, d):
        m = self.m
        if d.get("an"):
            m.allow_none = True
        for p in sorted((tuple(p) for p in d["sp"]), key=len):
            parent = self.space(p[:-1])
            parent.new_space(p[-1])
        for p, v in d.get("span", []):
            if v:
                self.space(p).allow_none = (v == 2)
        for name, r in d.get("grefs", {}).items():
            setattr(m, name, self.dec_obj(r["v"]))
        for p, cells in d["cells"]:
            sp = self.space(p)
            for cname, crec in cells.items():
                self._new_cells(sp, cname, crec)
        for p, bs in d["bases"]:
            if bs:
                self.space(p).add_bases(*[self.space(b) for b in bs])
        for p, refs in d["refs"]:
            sp = self.space(p)
            for rname, r in refs.items():
                sp.set_ref(rname, self.dec_obj(r["v"]), r["mode"])
        for p, fid in d.get("pf", []):
            self.space(p).formula = cz.render_pf(self.flib[fid])
        for p, k in d.get("docs", {}).get("spaces", []):
            self.space(p).doc = DOC_CORPUS[k]
        for p, c, k in d.get("docs", {}).get("cells", []):
            cc = self.space(p).cells[c]
            cc.set_doc(DOC_CORPUS[k], insert_indents=True)
            self.src2fid[(cc.formula.source.strip(), c)] = self.fid_of_build[(tuple(p), c)]
        for n, v in d.get("inp", []):
            c = self.cells_of(n[:3])
            c[tuple(n[3])] = (None if v == NONE_V else v)

    def _new_cells(self, sp, cname, crec):
        c = sp.new_cells(cname, self.src(crec["f"], cname),
                         is_cached=crec.get("cached", True))
        self.fid_of_build[(tuple(sp._impl.idstr.split(".")), cname)] = crec["f"]
        if crec.get("an", 0):
            c.allow_none = (crec["an"] == 2)
        return c

    # ------------------------------------------------------------------
    # navigation
    def space(self, path, steps=()):
        obj = self.m
        for nm in path:
            obj = obj.spaces[nm] if obj is self.m else obj.named_spaces[nm]
        for st in steps:
            if st[0] == "i":
                obj = obj[tuple(st[2])] if len(st[2]) != 1 else obj[st[2][0]]
            else:
                obj = obj.named_spaces[st[1]]
        return obj

    def cells_of(self, c):
        return self.space(c[0], c[1]).cells[c[2]]

    def dec_obj(self, o):
        tag = o[0]
        if tag == "int":
            return None if o[1] == NONE_V else o[1]
        if tag == "sp":
            return self.space(o[1], o[2])
        if tag == "ce":
            return self.space(o[1], o[2]).cells[o[3]]
        if tag == "mo":
            return self.m
        if tag == "dead":
            return self._dead_handle(o[3])
        if tag == "lit":
            import copy as _copy
            return _copy.deepcopy(LIT_CORPUS[o[1]])
        raise ValueError(o)

    def _dead_handle(self, kind="sp"):
        if getattr(self, "_dead", None) is None:
            tmp = self.m.new_space("ZZdead")
            c = tmp.new_cells("zz", "lambda: 0")
            self._dead = {"sp": tmp, "ce": c}
            delattr(self.m, "ZZdead")
        return self._dead[kind]

    def enc_obj(self, v, model=None):
        if isinstance(v, Interface):
            impl = v._impl
            if v._is_valid() and model is not None and impl.model is not model._impl:
                return ["foreign", [], [], impl.model.name]
            if not v._is_valid():
                from modelx.core.cells import Cells as _Cells
                return ["dead", [], [], "ce" if isinstance(v, _Cells) else "sp"]
            if impl.is_model():
                return ["mo", [], [], ""]
            if isinstance(impl, CellsImpl):
                p, st = self.enc_space(impl.parent)
                return ["ce", p, st, impl.name]
            p, st = self.enc_space(impl)
            return ["sp", p, st, ""]
        if v is None or (isinstance(v, int) and not isinstance(v, bool)):
            return ["int", enc_val(v), [], ""]
        for k, c in enumerate(LIT_CORPUS):
            if type(v) is type(c) and v == c:
                return ["lit", k, [], ""]
        return ["other", [], [], type(v).__name__]

    def enc_space(self, impl):
        """(static path, steps) of a space impl, static or dynamic."""
        steps = []
        while isinstance(impl, DynamicSpaceImpl):
            if isinstance(impl, ItemSpaceImpl):
                steps.append(["i", "", [enc_val(a) for a in impl.argvalues_if]])
            else:
                steps.append(["c", impl.name, []])
            impl = impl.parent
        steps.reverse()
        path = impl.idstr.split(".") if impl.idstr else []
        # steps recorded bottom-up are relative to the static space `impl`,
        # but "c" steps below an item are relative to that item's base path;
        # the spec uses the same convention (BaseOf).
        return path, steps

    def enc_node(self, node):
        obj = node[0]
        if isinstance(obj, CellsImpl):
            p, st = self.enc_space(obj.parent)
            name = obj.name
        else:   # ItemSpaceParent node
            p, st = self.enc_space(obj)
            name = ""
        key = OBJKEY if len(node) < 2 else [enc_val(k) for k in node[1]]
        return [p, st, name, key]

    def _node_of_frame(self, sp_if, code, flocals):
        simpl = sp_if._impl
        for c in simpl.cells.values():
            if c.formula.func.__code__ is code:
                key = [enc_val(flocals.get(p)) for p in c.formula.parameters]
                p, st = self.enc_space(simpl)
                return [p, st, c.name, key]
        return None

    # ------------------------------------------------------------------
    # iteration over everything
    def all_spaces(self, model=None):
        """Yield every space impl: static tree, then dynamic trees."""
        # quiet observation: the raw containers are read (dict content is maintained eagerly),
        # NOT their `.fresh` views -- asking for those would refresh modelx's lazily updated
        # namespaces and could hide a missing notification
        quiet = getattr(self, "quiet", False)

        def kids(impl):
            return dict.values(impl._named_spaces) if quiet else impl.named_spaces.values()

        def walk(impl):
            yield impl
            for ch in list(kids(impl)):
                yield from walk(ch)
            for it in list(impl.param_spaces.values()):
                yield from walk(it)
        for s in list(kids((model or self.m)._impl)):
            yield from walk(s)

    def cells_impls(self, s):
        return list(dict.values(s._cells)) if getattr(self, "quiet", False) else list(s.cells.values())

    def held_inputs(self, model=None):
        """[[node, value]] of every user-assigned value, ItemSpaces included."""
        out = []
        for s in self.all_spaces(model):
            p, st = self.enc_space(s)
            for c in s.cells.values():
                for k in c.input_keys:
                    out.append([[p, st, c.name, [enc_val(x) for x in k]], enc_val(c.data[k])])
        return out

    # ------------------------------------------------------------------
    # C04: write in both container formats, read back, project, evaluate
    def op_write_read(self, op):
        import os
        import shutil
        import tempfile
        import zipfile
        # every save of one history goes to the SAME location (removed by close()):
        # a later save meets what an earlier one left there, with or without backups
        keep = getattr(self, "_c04_home", None)
        if keep is None:
            keep = self._c04_home = tempfile.mkdtemp(prefix="mxv_c04home_")
        tmp = tempfile.mkdtemp(prefix="mxv_c04_")
        extra = {}
        try:
            before_path = self.m.path
            dpath, zpath = os.path.join(keep, "m"), os.path.join(keep, "m.zip")
            self.m.write(dpath, backup=bool(op.get("backup", True)))
            self.m.zip(zpath, backup=bool(op.get("backup", True)))
            files_dir = sorted(
                os.path.relpath(os.path.join(d, f), dpath).replace(os.sep, "/")
                for d, _, fs in os.walk(dpath) for f in fs)
            with zipfile.ZipFile(zpath) as z:
                files_zip = sorted(n for n in z.namelist() if not n.endswith("/"))
            extra["files_dir"], extra["files_zip"] = files_dir, files_zip
            extra["path_changed_only"] = True
            reads = []
            for fmt, path in (("dir", dpath), ("zip", zpath)):
                rec = {"fmt": fmt}
                try:
                    r = mx.read_model(path, name="R")
                except Exception as e:
                    rec["readable"] = False
                    rec["err"] = type(e).__name__
                    reads.append(rec)
                    continue
                try:
                    rec["readable"] = True
                    rec["inputs"] = self.held_inputs(r)
                    rec["defs"] = self.project_defs(r, full=True)
                    vals = []
                    for n in op.get("queries", []):
                        try:
                            c = self._nav(r, n[0], n[1]).cells[n[2]]
                            vals.append([n, enc_val(c(*n[3]))])
                        except FormulaError:
                            vals.append([n, exc_code(mx.get_error())])
                        except Exception as e:
                            vals.append([n, exc_code(e)])
                    rec["values"] = vals
                    if op.get("chain"):
                        # write the read model again and read that: repeated chains
                        p2 = os.path.join(tmp, "m2" + (".zip" if fmt == "zip" else ""))
                        (r.zip if fmt == "zip" else r.write)(p2)
                        r2 = mx.read_model(p2, name="R2")
                        try:
                            rec["defs2"] = self.project_defs(r2, full=True)
                            rec["inputs2"] = self.held_inputs(r2)
                        finally:
                            r2.close()
                finally:
                    r.close()
                reads.append(rec)
            extra["reads"] = reads
            extra["fdefs"] = self.project_defs(self.m, full=True)
            extra["minputs"] = self.held_inputs(self.m)
        finally:
            shutil.rmtree(tmp, ignore_errors=True)
        self._extra = extra
        return "ok"

    def _nav(self, model, path, steps):
        obj = model
        for nm in path:
            obj = obj.spaces[nm] if obj is model else obj.named_spaces[nm]
        for st in steps:
            if st[0] == "i":
                obj = obj[tuple(st[2])] if len(st[2]) != 1 else obj[st[2][0]]
            else:
                obj = obj.named_spaces[st[1]]
        return obj

    def sync(self):
        for s in self.all_spaces():
            for c in self.cells_impls(s):
                self.rec.watch(c.formula.func.__code__)

    # ------------------------------------------------------------------
    # projection
    def project(self, deep=True):
        data, inputs = [], []
        for s in self.all_spaces():
            p, st = self.enc_space(s)
            for c in self.cells_impls(s):
                for k, v in c.data.items():
                    data.append([[p, st, c.name, [enc_val(x) for x in k]], enc_val(v)])
                for k in c.input_keys:
                    inputs.append([p, st, c.name, [enc_val(x) for x in k]])
        mi = self.m._impl
        tgn = [self.enc_node(n) for n in mi.tracegraph.nodes]
        tge = [[self.enc_node(a), self.enc_node(b)] for a, b in mi.tracegraph.edges]
        rge = []
        for a, b in mi.refgraph.edges:
            owner = a.parent
            if owner.is_model():
                rid = [[], [], a.name]
            else:
                op, ost = self.enc_space(owner)
                rid = [op, ost, a.name]
            rge.append([rid, self.enc_node(b)])
        ex = mxsys.executor
        post = {
            "data": data, "inputs": inputs, "tgn": tgn, "tge": tge, "rge": rge,
            "exec": {"stack": len(mxsys.callstack), "refstack": len(mxsys.refstack),
                     "executing": bool(ex.is_executing),
                     "rolledback": len(ex.rolledback),
                     "idx": len(mxsys.callstack.idxstack),
                     "counter": mxsys.callstack.counter},
        }
        sane, why = True, ""
        try:
            if not (getattr(self, "quiet", False) and not deep):
                mxsys._check_sanity()
                for s in self.all_spaces():
                    for c in s.cells.values():
                        c.check_sanity()
        except Exception as e:      # AssertionError, or the self-check itself crashing
            sane, why = False, type(e).__name__
        post["sane"] = sane
        post["sane_why"] = why
        if deep:
            post["defs"] = self.project_defs()
            post["deps"] = self.project_deps()
        if self.track_handles:
            self.take_handles()
            post["handles"] = self.probe_handles()
            items = []
            for sp in self.all_spaces():
                if isinstance(sp, ItemSpaceImpl):
                    pth, st = self.enc_space(sp)
                    items.append([pth, st, self._handle_ids.get(id(sp.interface), -1)])
            post["items"] = items
        return post

    # ------------------------------------------------------------------
    # handles (C13): every object ever seen is kept and probed after every operation
    def take_handles(self):
        seen = self._handle_ids

        def add(kind, obj):
            if id(obj) not in seen:
                seen[id(obj)] = len(self.handles)
                self.handles.append((kind, obj))
        for s in self.all_spaces():
            add("space", s.interface)
            for c in s.cells.values():
                add("cells", c.interface)

    def probe_handles(self):
        """For every handle: dead (every probe raises DeletedObjectError), current (it is
        the object found at the path it reports) or orphan (alive but not reachable)."""
        out = []
        for hid, (kind, h) in enumerate(self.handles):
            probes = (lambda: h.name, lambda: h.fullname, lambda: h.parent,
                      lambda: h.model, lambda: h.doc,
                      (lambda: h.formula) if kind == "cells" else (lambda: h.cells),
                      (lambda: h.parameters) if kind == "cells" else (lambda: h.spaces))
            dead = 0
            for pr in probes:
                try:
                    pr()
                except DeletedObjectError:
                    dead += 1
                except Exception:
                    pass
            if dead == len(probes):
                out.append([hid, kind, "dead", [], [], ""])
                continue
            if dead:
                out.append([hid, kind, "halfdead", [], [], ""])
                continue
            state = "orphan"
            path, steps, name = [], [], ""
            try:
                impl = h._impl
                if kind == "cells":
                    path, steps = self.enc_space(impl.parent)
                    name = impl.name
                    cur = self.space(path, steps).cells.get(name) if self._has_space(path, steps) else None
                else:
                    path, steps = self.enc_space(impl)
                    cur = self.space(path, steps) if self._has_space(path, steps) else None
                if cur is h:
                    state = "current"
            except Exception:
                state = "orphan"
            out.append([hid, kind, state, path, steps, name])
        return out

    def _has_space(self, path, steps):
        """Existence test that never creates an ItemSpace."""
        obj = self.m
        try:
            for nm in path:
                obj = obj.spaces[nm] if obj is self.m else obj.named_spaces[nm]
            for st in steps:
                if st[0] == "i":
                    key = tuple(st[2])
                    impl = obj._impl
                    if key not in impl.param_spaces:
                        return False
                    obj = impl.param_spaces[key].interface
                else:
                    obj = obj.named_spaces[st[1]]
            return True
        except Exception:
            return False

    def fid_of(self, c):
        src = c.formula.source
        key = (src.strip() if src else "", c.name)
        return self.src2fid.get(key, "?")

    def project_defs(self, model=None, full=False):
        """What the model itself reports as its definitions (public API).
        full=True adds what a write/read round trip must preserve beyond the abstract
        definitions: formula source text, docs, parameter formula source."""
        sp, bases, dbases, cells, refs, pf, span, dirs = [], [], [], [], [], [], [], []
        model = model or self.m
        docs = []

        def walk(s):
            p = s._impl.idstr.split(".")
            sp.append(p)
            def bp(b):
                try:
                    return b._impl.idstr.split(".")
                except DeletedObjectError:
                    return ["!deleted"]
            def safe(fn):
                try:
                    return fn()
                except Exception as e:      # the API itself fails: reported, judged by the spec
                    return [["!" + type(e).__name__]]
            bases.append([p, safe(lambda: [bp(b) for b in s.bases])])
            dbases.append([p, safe(lambda: [bp(b) for b in s._direct_bases])])
            cs = {}
            for name, c in s.cells.items():
                cs[name] = {"f": self.fid_of(c._impl), "cached": bool(c.is_cached),
                            "an": {None: 0, False: 1, True: 2}[c._impl.allow_none],
                            "derived": bool(c._is_derived()),
                            "ps": list(c.parameters)}
                if full:
                    cs[name]["src"] = c.formula.source or ""
                    cs[name]["doc"] = c.doc or ""
            cells.append([p, cs])
            rs = {}
            for name in s._own_refs:
                r = s._impl.own_refs[name]
                rs[name] = {"v": self.enc_obj(r.interface, model), "mode": r.refmode or "none",
                            "derived": bool(r.is_derived())}
            refs.append([p, rs])
            if s.formula is not None:
                pf.append([p, list(s.parameters)] + ([s.formula.source] if full else []))
            if full:
                docs.append([p, s.doc or ""])
            span.append([p, {None: 0, False: 1, True: 2}[s._impl.allow_none]])
            try:
                dirs.append([p, sorted(n for n in dir(s))])
            except Exception as e:
                dirs.append([p, ["!" + type(e).__name__]])
            for ch in s.named_spaces.values():
                walk(ch)
        for s in model.spaces.values():
            walk(s)
        grefs = {}
        for name, r in model._impl.global_refs.items():
            if name != "__builtins__":
                grefs[name] = {"v": self.enc_obj(r.interface, model)}
        import keyword
        bad = []
        for p in sp:
            if not (p[-1].isidentifier() and not p[-1].startswith("_") and not keyword.iskeyword(p[-1])):
                bad.append(p[-1])
        for p, cs in cells:
            for n in cs:
                if not (n.isidentifier() and not n.startswith("_") and not keyword.iskeyword(n)):
                    bad.append(n)
        out = {"sp": sp, "bases": bases, "dbases": dbases, "cells": cells, "refs": refs,
               "grefs": grefs, "pf": pf, "span": span, "dir": dirs,
               "an": bool(model._impl.allow_none), "badnames": sorted(set(bad))}
        if full:
            out["docs"] = docs
            out["modeldoc"] = model.doc or ""
        return out

    def project_deps(self):
        """preds/succs/precedents as the public API reports them, for every held element."""
        out = []
        for s in self.all_spaces():
            p, st = self.enc_space(s)
            for c in s.cells.values():
                ci = c.interface
                for k in list(c.data):
                    if k in c.input_keys and not c.is_cached:
                        continue
                    n = [p, st, c.name, [enc_val(x) for x in k]]
                    try:
                        preds = [self.enc_node(x._impl) for x in ci.preds(*k)]
                        succs = [self.enc_node(x._impl) for x in ci.succs(*k)]
                        prec = []
                        for x in ci.precedents(*k):
                            impl = x._impl
                            o = impl[0]
                            if isinstance(o, (CellsImpl,)) or hasattr(o, "param_spaces"):
                                prec.append(["el", self.enc_node(impl)])
                            else:
                                owner = o.parent
                                if owner.is_model():
                                    prec.append(["ref", [[], [], o.name]])
                                else:
                                    op, ost = self.enc_space(owner)
                                    prec.append(["ref", [op, ost, o.name]])
                        out.append([n, preds, succs, prec])
                    except Exception as e:
                        out.append([n, [[["!"], [], type(e).__name__, []]], [], []])
        return out

    # ------------------------------------------------------------------
    # operations
    def apply(self, op, deep=True):
        """Apply one abstract operation; return the trace event."""
        ev = dict(op)
        kind = op["op"]
        self.rec.take()
        self.rec.take_chain()
        try:
            res = getattr(self, "op_" + kind)(op)
        except FormulaError as e:
            err = mx.get_error()
            ev["res"] = exc_code(err) if kind == "call" else "rejected"
            ev["errtype"] = type(err).__name__
            ev["tb"] = self._traceback()
            chain = self.rec.take_chain()
            if chain is not None and kind == "call":
                ev["tbx"] = chain
        except (DeepReferenceError, NoneReturnedError) as e:
            ev["res"] = exc_code(e) if kind == "call" else "rejected"
            ev["errtype"] = type(e).__name__
            ev["raw"] = 1
        except DeletedObjectError as e:
            ev["res"] = -98 if kind == "call" else "deleted"
        except BaseException as e:
            if isinstance(e, (KeyboardInterrupt, SystemExit)):
                raise
            if kind == "call":
                ev["res"] = exc_code(e)
                ev["errtype"] = type(e).__name__
                ev["raw"] = 1
            else:
                ev["res"] = "rejected"
                ev["errtype"] = type(e).__name__
        else:
            ev["res"] = res
            if getattr(self, "_created", None):
                ev["created"] = self._created
            if getattr(self, "_extra", None):
                ev.update(self._extra)
        self._created = None
        self._extra = None
        ev["fx"] = [[f[0], f[1]] + ([enc_val(f[2])] if f[0] == "exit" else f[2:])
                    for f in self.rec.take()]
        self.sync()
        ev["post"] = self.project(deep)
        return ev

    def _traceback(self):
        tb = []
        for item in mx.get_traceback():
            node, line = item[0], item[1]
            tb.append([self.enc_node(node._impl), line])
        return tb

    # each op_* returns the "res" field
    def op_call(self, op):
        c = self.cells_of(op["c"])
        args = op["args"]
        sp = op.get("sp", "pos")
        if sp in ("kw", "kwr"):
            names = c.parameters
            order = list(range(len(args)))
            if sp == "kwr":
                order.reverse()
            v = c(**{names[i]: args[i] for i in order})
        elif sp == "sub" and len(args) >= 1:
            v = c[tuple(args)] if len(args) > 1 else c[args[0]]
        elif sp == "value" and len(args) == 0:
            v = c.value
        else:
            v = c(*args)
        return enc_val(v)

    def op_set_value(self, op):
        c = self.cells_of(op["c"])
        v = None if op["v"] == NONE_V else op["v"]
        args = tuple(op["args"])
        if op.get("sp") == "value" and not args:
            c.value = v
        else:
            c[args] = v
        return "ok"

    def op_clear_at(self, op):
        self.cells_of(op["c"]).clear_at(*op["args"])
        return "ok"

    def op_clear(self, op):
        self.cells_of(op["c"]).clear()
        return "ok"

    def op_clear_all(self, op):
        self.cells_of(op["c"]).clear_all()
        return "ok"

    def op_space_clear_all(self, op):
        self.space(op["s"]).clear_all()
        return "ok"

    def op_space_clear_cells(self, op):
        self.space(op["s"]).clear_cells(clear_input=bool(op.get("inp", False)),
                                        recursive=bool(op.get("rec", True)))
        return "ok"

    def op_model_clear_all(self, op):
        self.m.clear_all()
        return "ok"

    def op_set_ref(self, op):
        v = self.dec_obj(op["v"])
        tgt = self.m if not op["s"] else self.space(op["s"])
        if tgt is not self.m and op["n"] in tgt.cells:
            # `space.name = v` on a cells name is a VALUE assignment, another operation
            raise KeyError("'%s' is a cells, not a reference" % op["n"])
        mode = op.get("mode", "auto")
        if tgt is self.m:
            setattr(tgt, op["n"], v)
        elif op.get("via") == "attr" and mode == "auto":
            setattr(tgt, op["n"], v)
        else:
            tgt.set_ref(op["n"], v, mode)
        return "ok"

    def op_del_ref(self, op):
        tgt = self.m if not op["s"] else self.space(op["s"])
        if tgt is not self.m and (op["n"] in tgt.cells or op["n"] in tgt.named_spaces):
            # `del space.name` on a cells / space name deletes that object, another operation
            raise KeyError("'%s' is not a reference" % op["n"])
        delattr(tgt, op["n"])
        return "ok"

    def op_set_formula(self, op):
        c = self.space(op["s"]).cells[op["c"]]
        src = self.src(op["f"], op["c"])
        if op.get("via") == "method":
            c.set_formula(src)
        else:
            c.formula = src
        return "ok"

    def op_set_cached(self, op):
        self.space(op["s"]).cells[op["c"]].is_cached = bool(op["b"])
        return "ok"

    def op_set_allow_none(self, op):
        v = {0: None, 1: False, 2: True}[op["v"]]
        if v is not True:
            # The listed properties speak of edits of values, formulas, references, members and
            # bases; a held None whose permission is withdrawn afterwards is not among them
            # (modelx keeps it, and what was computed from it -- also through uncached cells,
            # which hold nothing themselves).  The edit is therefore applied as "discard the
            # computed values, then change the setting"; assigned values stay.
            for s in self.all_spaces():
                for c in self.cells_impls(s):
                    c.on_namespace_change()     # computed values and, for uncached cells, the object node
        if "c" in op:
            self.space(op["s"]).cells[op["c"]].allow_none = v
        elif op["s"]:
            self.space(op["s"]).allow_none = v
        else:
            self.m.allow_none = v
        return "ok"

    def op_new_cells(self, op):
        if op.get("via") == "fname":
            # the name is taken from the function object: space.new_cells(formula=f)
            sp = self.space(op["s"])
            import linecache
            ns = {}
            text = self.src(op["rec"]["f"], op["c"])
            fn = "<mxv-fname-%d>" % len(linecache.cache)     # (inspect.getsource must find the text)
            linecache.cache[fn] = (len(text), None, text.splitlines(True), fn)
            exec(compile(text, fn, "exec"), ns)
            c = sp.new_cells(formula=ns[op["c"]], is_cached=op["rec"].get("cached", True))
            self.fid_of_build[(tuple(sp._impl.idstr.split(".")), c.name)] = op["rec"]["f"]
            return "ok"
        c = self._new_cells(self.space(op["s"]), op["c"], op["rec"])
        if c.name != op["c"]:
            # modelx silently falls back to the function name / an automatic name
            # when the requested name is not a valid one
            self._created = c.name
            self.sigs.setdefault(c.name, [p[0] for p in self.flib[op["rec"]["f"]]["ps"]])
            self.src(op["rec"]["f"], c.name)
        return "ok"

    def op_del_cells(self, op):
        sp = self.space(op["s"])
        if op["c"] not in sp.cells:
            raise KeyError("'%s' is not a cells" % op["c"])
        if op.get("via") == "item":
            del sp.cells[op["c"]]
        else:
            delattr(sp, op["c"])
        return "ok"

    def op_rename_cells(self, op):
        c = self.space(op["s"]).cells[op["c"]]
        # the renamed cells gets its source re-generated under the new name
        fid = self.fid_of(c._impl)
        self.src(fid, op["c2"]) if fid != "?" else None
        c.rename(op["c2"])
        if fid != "?":
            # (a cells carrying a docstring keeps it: its source is not the plain rendering)
            self.src2fid[(c.formula.source.strip(), op["c2"])] = fid
        return "ok"

    def op_new_space(self, op):
        p = op["p"]
        parent = self.space(p[:-1])
        bases = [self.space(b) for b in op.get("bases", [])]
        refs = {n: self.dec_obj(r["v"]) for n, r in op.get("refs", {}).items()}
        if refs:
            parent.new_space(p[-1], bases=bases or None, refs=refs)
        else:
            parent.new_space(p[-1], bases=bases or None)
        return "ok"

    def op_del_space(self, op):
        p = op["p"]
        parent = self.space(p[:-1])
        delattr(parent, p[-1])
        return "ok"

    def op_rename_space(self, op):
        self.space(op["p"]).rename(op["nm"])
        return "ok"

    def op_add_bases(self, op):
        self.space(op["s"]).add_bases(*[self.space(b) for b in op["bs"]])
        return "ok"

    def op_remove_bases(self, op):
        self.space(op["s"]).remove_bases(*[self.space(b) for b in op["bs"]])
        return "ok"

    def op_set_pf(self, op):
        sp = self.space(op["s"])
        if op.get("f"):
            sp.formula = cz.render_pf(self.flib[op["f"]])
        else:
            del sp.formula
        return "ok"

    def op_get_item(self, op):
        s = self.space(op["s"], op.get("st", ()))
        k = op["key"]
        sp = op.get("sp", "sub")
        if sp == "call":
            it = s(*k)
        elif sp == "kw":
            names = s.parameters
            it = s(**{names[i]: a for i, a in enumerate(k)})
        else:
            it = s[tuple(k)] if len(k) != 1 else s[k[0]]
        self.take_handles()
        self._extra = {"hid": self._handle_ids.get(id(it), -1)}
        return "ok"

    def op_del_item(self, op):
        s = self.space(op["s"], op.get("st", ()))
        k = op["key"]
        if op.get("via") == "del":
            del s[tuple(k) if len(k) != 1 else k[0]]
        else:
            s.clear_at(*k)
        return "ok"

    def op_trace(self, op):
        if op["on"]:
            mx.start_stacktrace(maxlen=50)
        else:
            mx.stop_stacktrace()
            mx.clear_stacktrace()
        return "ok"

    def op_set_recalc(self, op):
        mx.set_recalc(bool(op["b"]))
        return "ok"
