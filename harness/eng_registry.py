"""C19 -- model registry: unique names, no model dropped, models isolated from each other.

  1. design level: TLC model-checks the algorithm layer of spec/MxRegistry.tla (System.new_model /
     rename_model / _rename_samename / close_model, ModelImpl.rename, AutoNamer.get_next,
     read_model) exhaustively on small constants against the C19 predicates (one INVARIANT each);
  2. code -> spec: seeded random histories of new_model / read_model / rename / close / edits /
     references between models / evaluations are executed on the real modelx
     (harness/registry_driver.py); after every operation the registry, the names reported by the
     handles and a projection of every open model are recorded; TLC judges the recorded executions
     with the same predicates (Trace_MxRegistry.cfg);
  3. spec -> code: the histories TLC enumerates from the model (one per explored transition) are
     replayed on the real library and judged the same way;
  4. negative controls: recorded executions corrupted in a way each predicate forbids must be
     rejected with the expected label;
  5. evidence.
"""
import collections
import copy
import hashlib
import json
import multiprocessing as mp
import os
import random
import re
import shutil
import sys
import tempfile
import time
from concurrent.futures import ThreadPoolExecutor

if os.environ.get("VERIF_REPO"):          # mutation testing: import modelx from a scratch copy
    sys.path.insert(0, os.environ["VERIF_REPO"])

from . import tlc
from . import registry_driver as rd

PIDS = ["C19"]
LEVEL = {"C19": "model_checking"}

ROOT = os.path.dirname(os.path.dirname(os.path.abspath(__file__)))
NCPU = min(16, os.cpu_count() or 1)
MODULE, TRACE_CFG = "MxRegistry", "Trace_MxRegistry.cfg"
MAX_REPORTS_PER_LABEL = 5       # replays saved / violations listed per label and run (all are counted)

SIZES = {
    "quick": dict(mc=["MC_MxRegistry_quick.cfg", "MC_MxRegistry_quick_deep.cfg"],
                  mbt="MBT_MxRegistry_quick.cfg", mbt_limit=1600,
                  traces=240, nops=25, mc_timeout=600),
    "thorough": dict(mc=["MC_MxRegistry_thorough.cfg", "MC_MxRegistry_thorough_link.cfg",
                         "MC_MxRegistry_thorough_deep.cfg"],
                     mbt="MBT_MxRegistry_thorough.cfg", mbt_limit=25000,
                     traces=3000, nops=40, mc_timeout=3000),
}

ASSUMPTIONS = [
    "models are identified by object identity: the driver numbers every Model object the first time "
    "it sees it (returned by new_model/read_model or found in mx.get_models())",
    "a name is invalid iff it is one of the listed bad names (1x, _A, for, 'a b'); every other name "
    "the drivers use is an identifier that util.is_valid_name accepts",
    "operations are made on open models only (rename/close/edit through the handle of a model that "
    "was closed before are outside the quantifier of C19)",
    "values of two models connected by references between models (in either direction, transitively) "
    "are exempt from Isolation: evaluating through such a reference computes values in the referenced "
    "model and an edit there discards values of the referring model",
    "definitions are projected as spaces, formula sources and reference values (objects of other "
    "models by the driver's model number, so that renaming a model is not seen as a change of the "
    "models that refer to it); values as dict(cells) with the input flag",
    "the design-level model check identifies states up to the current model, the history and the "
    "remains of closed models (TLC VIEW); every transition is still generated and judged",
    "exact backup / automatic names (the process-global AutoNamer counters, first values observed at "
    "the start of each case) belong to the algorithm layer: a disagreement there is reported as "
    "DRIFT in the evidence, not as a violation",
]


KF_STALE = "KF:C19.StaleHandleCloseDropsNamesake"


def stale_enabled():
    """Histories ending with close() through the handle of an already closed model are outside
    the quantifier of C19 ("operations on open models"); they are generated only when the finding
    they expose is registered in known_findings.json (or VERIF_C19_STALE=1)."""
    if os.environ.get("VERIF_C19_STALE") == "1":
        return True
    try:
        kf = json.load(open(os.path.join(ROOT, "known_findings.json")))
        return any(f.get("label") == KF_STALE and f.get("status") == "known"
                   for f in kf.get("findings", []))
    except Exception:
        return False


# ---------------------------------------------------------------------------
# trace production (real library, worker processes)

def _worker_init():
    import warnings
    warnings.simplefilter("ignore")
    import modelx  # noqa: F401


def produce(jobs, procs=NCPU):
    if not jobs:
        return []
    ctx = mp.get_context("fork")
    with ctx.Pool(min(procs, max(1, len(jobs))), initializer=_worker_init) as pool:
        return pool.map(rd.run_case, jobs, chunksize=max(1, min(50, len(jobs) // (procs * 4) + 1)))


def ops_of(tr):
    return [{k: v for k, v in e.items() if k not in ("post", "res", "new")} for e in tr["ev"]]


def trace_hash(tr):
    h = hashlib.sha1()
    h.update(json.dumps(ops_of(tr), sort_keys=True).encode())
    return h.hexdigest()[:16]


# ---------------------------------------------------------------------------
# judgement (TLC)

def judge(traces, procs=NCPU, batch=None):
    """Validate traces with the trace specification, several TLC runs in parallel.
    Returns (verdicts in order, stats)."""
    if not traces:
        return [], {"states": 0, "transitions": 0, "tlc_wall_s": 0.0, "batches": 0}
    batch = batch or max(10, min(150, len(traces) // procs + 1))
    chunks = [traces[i:i + batch] for i in range(0, len(traces), batch)]

    def one(chunk):
        v, r = tlc.validate_traces(chunk, module=MODULE, cfg=TRACE_CFG, timeout=1800)
        return [v[i + 1] for i in range(len(chunk))], r
    t0 = time.time()
    with ThreadPoolExecutor(max_workers=procs) as ex:
        results = list(ex.map(one, chunks))
    verdicts = [v for vs, _ in results for v in vs]
    stats = {"states": sum(r.get("states", 0) for _, r in results),
             "transitions": sum(r.get("transitions", 0) for _, r in results),
             "tlc_wall_s": time.time() - t0, "batches": len(chunks)}
    return verdicts, stats


# ---------------------------------------------------------------------------
# design-level model checking and enumeration of histories

def run_mc(cfgs, timeout):
    out = []
    for cfg in cfgs:
        r = tlc.run_tlc(MODULE, cfg=cfg, workers=NCPU, timeout=timeout)
        viol = re.findall(r"Invariant (Inv_\w+) is violated", r["out"])
        out.append({"cfg": cfg, "states": r.get("states", 0), "transitions": r.get("transitions", 0),
                    "depth": r.get("depth"), "wall_s": round(r["wall_s"], 1), "ok": bool(r["ok"]),
                    "violated": viol,
                    "error": None if r["ok"] or viol else _err_excerpt(r["out"])})
    return out


def _err_excerpt(out):
    i = out.find("Error:")
    return out[max(0, i - 200):i + 1500] if i >= 0 else out[-1500:]


def enumerate_histories(cfg, timeout):
    """Histories printed by TLC (one per explored transition); prefixes of other printed
    histories are dropped (replaying the longer one replays them)."""
    r = tlc.run_tlc(MODULE, cfg=cfg, workers=NCPU, timeout=timeout)
    if not r["ok"]:
        raise tlc.TLCError("enumeration with %s failed:\n%s" % (cfg, _err_excerpt(r["out"])))
    hists = [json.loads(tlc.tla_to_py(t)[1]) for t in tlc._match_tuples(r["out"], "MBT")]
    keyed = {}
    for h in hists:
        keyed[tuple(json.dumps(op, sort_keys=True) for op in h)] = h
    prefixes = set()
    for k in keyed:
        for i in range(1, len(k)):
            prefixes.add(k[:i])
    maximal = [keyed[k] for k in sorted(keyed) if k not in prefixes]
    return maximal, {"cfg": cfg, "printed": len(hists), "distinct": len(keyed),
                     "maximal": len(maximal), "states": r.get("states", 0),
                     "transitions": r.get("transitions", 0), "wall_s": round(r["wall_s"], 1)}


# ---------------------------------------------------------------------------
# what the explored cases contain (measured; used for the vacuity check)

def situations(tr):
    """Classify every event of a trace from the operation and the registry observed BEFORE it."""
    out = collections.Counter()
    pre = tr["hdr"]["post"]
    opened = set()
    concurrent = 0
    for e in tr["ev"]:
        names = {m[0]: m[1] for m in pre["models"]}
        k = e["op"]
        nm = e["name"]
        if k == "read_model" and not nm and 1 <= e["file"] <= len(tr["hdr"]["stored"]):
            nm = tr["hdr"]["stored"][e["file"] - 1]
        bad = nm in tr["hdr"]["bad"]
        if k in ("new_model", "read_model"):
            tag = "auto" if (k == "new_model" and not nm) else "invalid" if bad else \
                "taken" if nm in names else "free"
            out["%s:%s" % (k, tag)] += 1
        elif k == "rename":
            own = dict((h[0], h[1]) for h in pre["handles"]).get(e["m"])
            tag = "invalid" if bad else "same" if nm == own else \
                ("taken_ro" if e["ro"] else "taken_refused") if nm in names else \
                ("free_ro" if e["ro"] else "free")
            out["rename:%s" % tag] += 1
        elif k == "edit":
            out["edit:%s" % (e.get("what") or "skip")] += 1
        else:
            out[k] += 1
        post_names = {m[1]: m[0] for m in e["post"]["models"]}
        for n0, i in names.items():
            if i in post_names and post_names[i] != n0 and i != (e["new"] if k != "rename" else e["m"]) \
                    and post_names[i].startswith(n0 + "_BAK"):
                out["displaced"] += 1
        if e["res"] not in ("ok", "err"):
            out["res:%s" % e["res"]] += 1
        if k in ("edit", "eval", "xref") and len(e["post"]["models"]) >= 2:
            out["edit_or_eval_with_other_models_open"] += 1
        concurrent = max(concurrent, len(e["post"]["models"]))
        pre = e["post"]
    out["max_concurrent_%d" % min(concurrent, 4)] += 1
    return out


REQUIRED_SITUATIONS = [
    "new_model:auto", "new_model:free", "new_model:taken", "new_model:invalid",
    "read_model:free", "read_model:taken", "read_model:invalid",
    "rename:free", "rename:free_ro", "rename:taken_ro", "rename:taken_refused", "rename:same",
    "rename:invalid", "close", "xref", "eval", "displaced", "edit_or_eval_with_other_models_open",
]


def is_nontrivial(tr):
    s = situations(tr)
    collision = s["displaced"] + s["rename:taken_refused"]
    conc = any(k.startswith("max_concurrent_") and int(k[-1]) >= 2 for k in s)
    return collision >= 1 and conc


# ---------------------------------------------------------------------------
# negative controls

def corrupt(tr, kind, rng):
    """Return (corrupted copy, expected label) or None when the trace offers no place."""
    t = copy.deepcopy(tr)
    idx = list(range(len(t["ev"])))
    rng.shuffle(idx)
    for i in idx:
        e = t["ev"][i]
        post = e["post"]
        pre = t["ev"][i - 1]["post"] if i else t["hdr"]["post"]
        if kind == "own_name" and post["models"]:
            rng.choice(post["models"])[2] += "x"
            return t, "C19.NamesUniqueAndCurrent"
        if kind == "handle_name" and post["models"]:
            mid = rng.choice(post["models"])[1]
            for h in post["handles"]:
                if h[0] == mid:
                    h[1] += "y"
                    return t, "C19.HandlesFollow"
        if kind == "dropped" and e["op"] != "close" and len(post["models"]) >= 1:
            subject = e["new"] if e["op"] in ("new_model", "read_model") else e["m"]
            others = [m for m in post["models"] if m[1] != subject]
            if others:
                post["models"].remove(rng.choice(others))
                return t, "C19.NoModelDropped"
        if kind == "overwritten" and e["op"] in ("new_model", "read_model") and e["new"]:
            # the displaced model keeps a name without the backup suffix
            moved = [m for m in post["models"]
                     if m[1] != e["new"] and any(p[1] == m[1] and p[0] != m[0] for p in pre["models"])]
            if moved:
                m = moved[0]
                m[0] = m[2] = "Zz9"
                for h in post["handles"]:
                    if h[0] == m[1]:
                        h[1] = "Zz9"
                return t, "C19.NoModelDropped"
        if kind == "close_keeps" and e["op"] == "close" and e["res"] == "ok":
            gone = [m for m in pre["models"] if m[1] == e["m"]]
            if gone:
                post["models"].append(list(gone[0]))
                return t, "C19.CloseRemovesExactlyOne"
        if kind == "close_two" and e["op"] == "close" and len(post["models"]) >= 1:
            post["models"].remove(rng.choice(post["models"]))
            return t, "C19.CloseRemovesExactlyOne"
        if kind in ("other_defs", "other_vals"):
            subject = e["new"] if e["op"] in ("new_model", "read_model") else e["m"]
            field = "defs" if kind == "other_defs" else "vals"
            pre_ids = {d[0] for d in pre[field]}
            cand = [d for d in post[field] if d[0] != subject and d[0] in pre_ids]
            if kind == "other_vals":
                # only models that are not connected to the subject by references
                linked = _component(t, i, subject)
                cand = [d for d in cand if d[0] not in linked]
            if cand:
                d = rng.choice(cand)
                if field == "defs":
                    d[1].append(["Zz", "space"])
                else:
                    d[1].append(["Zz.c()", 1, 0])
                return t, "C19.Isolation"
    return None


def _component(tr, upto, subject):
    links = set()
    for e in tr["ev"][:upto]:
        if e["op"] == "xref" and e["res"] == "ok":
            links.add((e["m"], e["t"]))
    comp = {subject}
    changed = True
    while changed:
        changed = False
        for a, b in links:
            if (a in comp) != (b in comp):
                comp |= {a, b}
                changed = True
    return comp


CONTROL_KINDS = ["own_name", "handle_name", "dropped", "overwritten", "close_keeps", "close_two",
                 "other_defs", "other_vals"]


def negative_controls(traces, verdicts, rng):
    good = [tr for tr, v in zip(traces, verdicts) if not any(l.startswith("C19.") for l, _ in v["viol"])]
    rng.shuffle(good)
    made = []
    for kind in CONTROL_KINDS:
        for tr in good[:60]:
            c = corrupt(tr, kind, rng)
            if c:
                made.append((kind,) + c)
                break
    if not made:
        return {"attempted": 0, "rejected": 0, "kinds": []}
    vs, _ = judge([c[1] for c in made], procs=1, batch=len(made))
    rejected = [k for (k, _, lab), v in zip(made, vs) if any(l == lab for l, _ in v["viol"])]
    return {"attempted": len(made), "rejected": len(rejected),
            "kinds": [k for k, _, _ in made],
            "not_rejected": [k for k, _, _ in made if k not in rejected],
            "labels": sorted(set(lab for _, _, lab in made)),
            "kinds_without_a_place": [k for k in CONTROL_KINDS if k not in [m[0] for m in made]]}


# ---------------------------------------------------------------------------
def save_replay(tr, extra=None):
    d = os.path.join(ROOT, "replays", "C19")
    os.makedirs(d, exist_ok=True)
    path = os.path.join(d, trace_hash(tr) + ".json")
    rec = {"property": "C19", "kind": "history", "ops": ops_of(tr), "seed": tr["hdr"].get("seed"),
           "origin": tr["hdr"].get("origin")}
    rec.update(extra or {})
    with open(path, "w") as f:
        json.dump(rec, f)
    return path


def sample_of(tr, maxev=8):
    evs = []
    for e in tr["ev"][:maxev]:
        x = {k: v for k, v in e.items() if k != "post" and v not in ("", 0, False)}
        x["registry_after"] = [[m[0], m[1]] for m in e["post"]["models"]]
        evs.append(x)
    return {"origin": tr["hdr"].get("origin"), "seed": tr["hdr"].get("seed"),
            "first_backup_counter": tr["hdr"]["bctr"], "first_model_counter": tr["hdr"]["mctr"],
            "n_events": len(tr["ev"]), "first_events": evs}


def collect(traces, verdicts, res):
    """Turn TLC's verdicts into violations / drift statistics."""
    labels = collections.Counter()
    reported = collections.Counter()
    drift_traces = 0
    for tr, v in zip(traces, verdicts):
        if v["matched"] != v["total"]:
            res["machinery_failure"] = "trace (origin=%s seed=%s) consumed %d of %d events" % (
                tr["hdr"].get("origin"), tr["hdr"].get("seed"), v["matched"], v["total"])
        mine = sorted([(lab, l) for lab, l in v["viol"]
                       if lab.startswith("C19.") or lab.startswith("KF:C19.")], key=lambda x: x[1])
        for lab, _ in v["viol"]:
            labels[lab] += 1
        if any(lab.startswith("DRIFT:") for lab, _ in v["viol"]):
            drift_traces += 1
        mine = [(lab, l) for lab, l in mine if reported[lab] < MAX_REPORTS_PER_LABEL]
        if mine:
            path = save_replay(tr)
            for lab, l in mine[:3]:
                reported[lab] += 1
                res["violations"].append({"label": lab, "line": l, "replay": path})
    return labels, drift_traces


def run(pid, tier, seed):
    size = SIZES[tier]
    rng = random.Random(seed)
    res = {"level": LEVEL[pid], "violations": [], "assumptions": list(ASSUMPTIONS)}
    t_start = time.time()

    # 1. design-level model checking
    mcs = run_mc(size["mc"], size["mc_timeout"])
    for m in mcs:
        for inv in m["violated"]:
            lab = inv.replace("Inv_C19_", "C19.").replace("Inv_Algo_", "ALGO.")
            d = os.path.join(ROOT, "replays", "C19")
            os.makedirs(d, exist_ok=True)
            path = os.path.join(d, "mc_%s_%s.json" % (m["cfg"].replace(".cfg", ""), inv))
            with open(path, "w") as f:
                json.dump({"property": "C19", "kind": "model_check", "cfg": m["cfg"],
                           "invariant": inv}, f)
            if lab.startswith("C19."):
                res["violations"].append({"label": lab + "(design)", "line": 0, "replay": path})
            else:
                res["machinery_failure"] = "algorithm-layer sanity invariant %s failed" % inv
        if not m["ok"] and not m["violated"]:
            res["machinery_failure"] = "model check %s did not complete: %s" % (m["cfg"], m["error"])

    files_dir = tempfile.mkdtemp(prefix="mxv_c19_")
    try:
        # the saved models are written by a worker process, not by this one
        ctx = mp.get_context("fork")
        with ctx.Pool(1) as pool:
            files = pool.apply(rd.prepare_files, (files_dir,))

        # 2. code -> spec: random histories
        t0 = time.time()
        # histories ending with close() through the handle of a model closed before (the
        # defect they exposed is repaired -- fix: 9b6a51e; they stay as a tripwire: the label
        # KF:C19.StaleHandleCloseDropsNamesake is a VIOLATION unless listed as known)
        stale = os.environ.get("VERIF_C19_STALE", "1") != "0"
        jobs = [{"files": files, "seed": (seed * 100003 + i) % (2 ** 31), "origin": "random",
                 "nops": size["nops"], "stale_final": stale and i % 3 == 0}
                for i in range(size["traces"])]
        rtraces = produce(jobs)
        # 3. spec -> code: histories enumerated by TLC
        hists, enum = enumerate_histories(size["mbt"], size["mc_timeout"])
        enum["replayed"] = len(hists)
        if len(hists) > size["mbt_limit"]:
            random.Random(seed).shuffle(hists)
            hists = hists[:size["mbt_limit"]]
            enum["replayed"] = len(hists)
            enum["note"] = "seeded sample of the enumerated histories"
        mjobs = [{"files": files, "seed": (seed * 7919 + i) % (2 ** 31), "origin": "model", "ops": h}
                 for i, h in enumerate(hists)]
        mtraces = produce(mjobs)
        t_prod = time.time() - t0
    finally:
        shutil.rmtree(files_dir, ignore_errors=True)

    traces = rtraces + mtraces
    verdicts, stats = judge(traces)
    labels, drift_traces = collect(traces, verdicts, res)

    # 4. negative controls
    nc = negative_controls(traces, verdicts, rng)
    if nc["attempted"] < len(CONTROL_KINDS) or nc["rejected"] != nc["attempted"]:
        if not res["violations"]:
            res["machinery_failure"] = "negative controls: %r" % (nc,)

    # vacuity: every kind of operation / situation occurred
    sit = collections.Counter()
    nontrivial = set()
    hashes = set()
    for tr in traces:
        sit.update(situations(tr))
        h = trace_hash(tr)
        hashes.add(h)
        if is_nontrivial(tr):
            nontrivial.add(h)
    missing = [s for s in REQUIRED_SITUATIONS if not sit[s]]
    if missing and not res.get("machinery_failure"):
        res["machinery_failure"] = "vacuous run: no case with %s" % ", ".join(missing)

    mc_states = sum(m["states"] for m in mcs)
    mc_trans = sum(m["transitions"] for m in mcs)
    if mc_states == 0 and not res.get("machinery_failure"):
        res["machinery_failure"] = "design-level model check explored no state"
    cov = {
        "states": mc_states + stats["states"],
        "transitions": mc_trans + stats["transitions"],
        "traces_validated_against_impl": len(traces),
        "random_histories": len(rtraces),
        "model_enumerated_histories_replayed": len(mtraces),
        "evaluations": sum(len(t["ev"]) for t in traces),
        "distinct_cases": len(hashes),
        "distinct_nontrivial": len(nontrivial),
        "rule": "one case = one history of registry operations/edits/evaluations on the real library "
                "(distinct by SHA-1 of the concrete operation sequence); non-trivial = at least two "
                "models open at the same time and at least one name collision (a model displaced to a "
                "backup name, or a rename refused because the name is taken)",
        "samples": [sample_of(t) for t in (rtraces[:1] + mtraces[:1])],
        "situations": dict(sit),
        "design_model_check": mcs,
        "design_model_check_exhaustive_within_bounds": all(m["ok"] for m in mcs),
        "history_enumeration": enum,
        "trace_validation": {"states": stats["states"], "transitions": stats["transitions"],
                             "batches": stats["batches"], "tlc_wall_s": round(stats["tlc_wall_s"], 1)},
        "labels_raised": dict(labels),
        "impl_model_agreement": {"traces_without_drift": len(traces) - drift_traces,
                                 "traces": len(traces)},
        "negative_controls": nc,
        "stale_handle_histories": stale,
        "trace_production_s": round(t_prod, 1),
        "exhaustive": False,
    }
    if stale_enabled():
        # the split-off configuration that exposes the known finding at design level: it must
        # produce exactly that counterexample (any other invariant failing there is a violation)
        k = run_mc(["MC_MxRegistry_kf.cfg"], 900)[0]
        cov["kf_model_check"] = {"cfg": k["cfg"], "violated": k["violated"], "states": k["states"],
                                 "expected": ["Inv_KF_StaleHandleClose"]}
        for inv in k["violated"]:
            if inv.startswith("Inv_C19_"):
                res["violations"].append({"label": inv.replace("Inv_C19_", "C19.") + "(design)",
                                          "line": 0, "replay": os.path.join(ROOT, "spec", k["cfg"])})
        if not k["violated"] and not k["ok"] and not res.get("machinery_failure"):
            res["machinery_failure"] = "model check %s did not complete: %s" % (k["cfg"], k["error"])
    res["coverage"] = cov
    res["summary"] = "mc_states=%d traces=%d (random %d, model %d) events=%d drift=%d neg=%d/%d %.0fs" % (
        mc_states, len(traces), len(rtraces), len(mtraces), cov["evaluations"], drift_traces,
        nc["rejected"], nc["attempted"], time.time() - t_start)
    return res


def replay(pid, path):
    rec = json.load(open(path))
    res = {"level": LEVEL[pid], "violations": [], "coverage": {}}
    if rec.get("kind") == "model_check":
        m = run_mc([rec["cfg"]], 3000)[0]
        for inv in m["violated"]:
            res["violations"].append({"label": inv.replace("Inv_C19_", "C19.") + "(design)",
                                      "line": 0, "replay": path})
        res["summary"] = "model check %s: violated=%r" % (rec["cfg"], m["violated"])
        return res
    files_dir = tempfile.mkdtemp(prefix="mxv_c19_")
    try:
        ctx = mp.get_context("fork")
        with ctx.Pool(1) as pool:
            files = pool.apply(rd.prepare_files, (files_dir,))
            tr = pool.apply(rd.run_case, ({"files": files, "seed": rec.get("seed") or 0,
                                           "origin": "replay", "ops": rec["ops"]},))
    finally:
        shutil.rmtree(files_dir, ignore_errors=True)
    verdicts, _ = judge([tr], procs=1)
    v = verdicts[0]
    if v["matched"] != v["total"]:
        res["machinery_failure"] = "replay consumed %d of %d events" % (v["matched"], v["total"])
    for lab, l in sorted(v["viol"], key=lambda x: x[1]):
        if lab.startswith("C19.") or lab.startswith("KF:C19."):
            res["violations"].append({"label": lab, "line": l, "replay": path})
    res["summary"] = "replayed %d events, labels=%r" % (v["total"], v["viol"])
    return res
