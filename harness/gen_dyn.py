"""Generator for the dynamic-space world (C07, and the ItemSpace parts of C10/C13):
a parametrised space P (one or two parameters, the second with a default), a
child space P.C replicated inside every instance, optionally a nested
parametrised child P.Q, a plain space S whose cells reach into instances
(P[k].c(a)), references the instances see (incl. object-valued ones pointing
into P's tree), and every kind of edit of the base interleaved with evaluations
inside instances and with handles taken earlier.
"""
import random

from .gen import Gen, tp, INT_VALUES

KEYS = [0, 1, 2]

PROFILE_DYN = dict(call_dyn=30, call=8, get_item=10, del_item=4, set_value_dyn=6, set_value=2,
                   clear_at_dyn=3, set_formula=9, set_cached=3, set_ref=10, del_ref=3,
                   new_cells=3, del_cells=2, set_pf=3, add_bases=4, remove_bases=2,
                   new_space=2, del_space=0.4, invalid=3)


# deletion-heavy schedule (C13 in the ItemSpace world): several instances alive,
# then members / instances / bases taken away
PROFILE_DYN_DELETE = dict(PROFILE_DYN, get_item=16, del_item=8, del_cells=10, new_cells=6,
                          set_formula=4, set_ref=5, remove_bases=6, add_bases=5, set_pf=2, del_space=2)
# the instances are built from a space OUTSIDE the parametrised space's tree (formula returning
# {'base': R}), and R itself is edited: members, references, bases gained and lost
PROFILE_DYN_OUTER = dict(PROFILE_DYN, add_bases=10, remove_bases=7, new_cells=5, del_cells=3, set_ref=12)
PROFILES_DYN = {"dyn": PROFILE_DYN, "dyn-delete": PROFILE_DYN_DELETE, "dyn-outer": PROFILE_DYN_OUTER}


class GenDyn(Gen):
    def __init__(self, seed, profile="dyn", **kw):
        super().__init__(seed, "eval", **kw)
        self.dyn_profile = PROFILES_DYN.get(profile, PROFILE_DYN)
        self.nested = False
        self.pps = None
        self.force_outer = profile == "dyn-outer"

    def program(self):
        rng = self.rng
        self.nested = rng.random() < 0.4 or self.force_outer
        sp = [["S"], ["P"], ["P", "C"]]
        if self.nested:
            sp.append(["P", "Q"])
        if rng.random() < 0.45:
            sp.append(["B"])           # a plain base for P
        self.outer_base = self.nested and (rng.random() < 0.5 or self.force_outer)
        if self.outer_base:
            sp.append(["R"])           # the nested ItemSpaces P[i].Q[k] replicate R, outside P's tree
            if ["B"] not in sp and (rng.random() < 0.7 or self.force_outer):
                sp.append(["B"])       # ... and R may gain / lose B as a base later
            if rng.random() < 0.6 or self.force_outer:
                sp.append(["T"])       # a top-level parametrised space whose instances T[i] are built from R
        self.deep = rng.random() < 0.35
        if self.deep:
            # two levels of child spaces with the SAME name on two paths: P.C.K and P.E.K
            sp += [["P", "C", "K"], ["P", "E"], ["P", "E", "K"]]
        mir = {"sp": [list(p) for p in sp], "cells": {tp(p): {} for p in sp},
               "refs": {tp(p): {} for p in sp}, "grefs": {}, "bases": {tp(p): [] for p in sp},
               "span": {tp(p): 0 for p in sp}, "an": False, "inp": {}, "pf": {}}
        self.mir = mir
        two = rng.random() < 0.4
        self.pps = [["p", 0, 0]] + ([["pp", 1, 1]] if two else [])
        mir["pf"][("P",)] = self.new_pf(self.pps, rng.random() < 0.3)
        if self.nested:
            # half of the nested spaces reuse the OUTER parameter name: in P[a].Q[b] the name
            # denotes b (the nearest instance), also in Q's child spaces
            self.qname = "p" if rng.random() < 0.5 else "q"
            mir["pf"][("P", "Q")] = self.new_pf([[self.qname, 0, 0]], False,
                                               base=["R"] if self.outer_base else None)
        if ["T"] in sp:
            mir["pf"][("T",)] = self.new_pf([["t", 0, 0]], False, base=["R"])
        if ["B"] in sp and rng.random() < 0.7:
            mir["bases"][("P",)] = [["B"]]
        elif ["B"] in sp and rng.random() < 0.6:
            # the CHILD space derives from B: P[i].C replicates derived members
            mir["bases"][("P", "C")] = [["B"]]
        names = ["x", "y", "z", "w"]
        for i, nm in enumerate(names):
            self.rank[nm] = i
            self.sigs[nm] = [] if rng.random() < 0.35 else [["i", 0, 0]]
        self.rank["v"] = 0
        self.sigs["v"] = [] if rng.random() < 0.5 else [["i", 0, 0]]
        for nm in ("r", "s", "g", "u"):
            self.refkind[nm] = "int"
        self.refkind["o"] = "obj"
        mir["refs"][("P",)]["r"] = {"v": ["int", rng.choice(INT_VALUES), [], ""], "mode": "auto"}
        if rng.random() < 0.5:
            mir["refs"][("P", "C")]["s"] = {"v": ["int", rng.choice(INT_VALUES), [], ""], "mode": "auto"}
        if rng.random() < 0.5:
            mir["grefs"]["g"] = {"v": ["int", 70, [], ""]}
        if rng.random() < 0.6:
            tgt = rng.choice([["sp", ["P"], [], ""], ["sp", ["P", "C"], [], ""],
                              ["ce", ["P"], [], "x"], ["sp", ["S"], [], ""]])
            mir["refs"][("P",)]["o"] = {"v": tgt, "mode": rng.choice(["auto", "relative", "absolute"])
                                        if tgt[1][0] == "P" else rng.choice(["auto", "absolute"])}
        if rng.random() < 0.5:
            # a reference defined in the CHILD space that points up / sideways inside P's tree
            tgt = rng.choice([["sp", ["P"], [], ""], ["ce", ["P"], [], "x"], ["sp", ["P", "C"], [], ""]])
            mir["refs"][("P", "C")]["oc"] = {"v": tgt, "mode": rng.choice(["auto", "relative", "absolute"])}
        self.refkind["oc"] = "obj"
        if self.nested and rng.random() < 0.5:
            # a reference of the NESTED parametrised space pointing at a sibling / a cells of the
            # outer tree: in P[i].Q[k] it denotes the object of the enclosing instance P[i]
            tgt = rng.choice([["sp", ["P", "C"], [], ""], ["ce", ["P"], [], "x"]])
            mir["refs"][("P", "Q")]["oq"] = {"v": tgt, "mode": rng.choice(["auto", "relative", "absolute"])}
        self.refkind["oq"] = "obj"
        place = {"x": [["P"], ["B"]], "y": [["P"]], "z": [["P", "C"], ["P", "Q"], ["R"]], "w": [["S"]]}
        if ["R"] in sp:
            mir["refs"][("R",)]["s"] = {"v": ["int", rng.choice(INT_VALUES), [], ""], "mode": "auto"}
            if ["B"] in sp and rng.random() < 0.8:
                # B shadows the model-level g for whatever derives from it
                mir["refs"][("B",)]["g"] = {"v": ["int", rng.choice(INT_VALUES), [], ""], "mode": "auto"}
                if "g" not in mir["grefs"] and rng.random() < 0.8:
                    mir["grefs"]["g"] = {"v": ["int", 70, [], ""]}
        derive_x = ["B"] in mir["bases"][("P",)] and rng.random() < 0.6   # P derives x from B
        for nm in names:
            for p in place[nm]:
                if nm == "x" and derive_x:
                    if p == ["B"]:
                        mir["cells"][tp(p)][nm] = None
                    continue
                if p in sp and (p != ["B"] or rng.random() < 0.7):
                    mir["cells"][tp(p)][nm] = None
        for p in sp:
            for nm in list(mir["cells"][tp(p)]):
                mir["cells"][tp(p)][nm] = {"f": self.formula(p, nm), "an": 0,
                                           "cached": rng.random() >= self.p_uncached}
        if self.deep:
            for p, base in ((["P", "C", "K"], 1000), (["P", "E", "K"], 2000)):
                f = self.new_fid({"ps": self.sigs["v"], "ops": [["const", base], ["read", ["p"]],
                                  ["read", rng.choice([["g"], ["p"], ["_model", "P", "r"]])]],
                                  "catch": False, "onerr": 900, "style": "def"})
                mir["cells"][tp(p)]["v"] = {"f": f, "an": 0, "cached": rng.random() >= self.p_uncached}
        return self.defs_json()

    def new_pf(self, ps, with_refs, base=None):
        rec = {"ps": ps, "ops": [], "catch": False, "onerr": 0, "style": "pf"}
        if base:
            rec["base"] = base
        if with_refs:
            rec["refs"] = {"u": self.rng.choice([100, 200])}
        return self.new_fid(rec)

    def defs_json(self):
        d = super().defs_json()
        d["pf"] = [[list(p), f] for p, f in self.mir["pf"].items()]
        return d

    # ------------------------------------------------------------------
    def formula(self, sp, name):
        rng = self.rng
        ps = self.sigs[name]
        ops = [["const", rng.choice([1, 2, 3, 5]) * (10 ** rng.choice([0, 1, 2]))]]
        rk = self.rank[name]
        sp = list(sp)
        for _ in range(rng.choice([1, 2, 2, 3])):
            k = rng.random()
            if sp == ["S"]:
                # a plain space reaching into instances of P
                if k < 0.6:
                    c = rng.choice(["x", "y"])
                    kargs = [["k", 1] if ps and rng.random() < 0.5 else ["c", rng.choice(KEYS)]]
                    if len(self.pps) == 2 and rng.random() < 0.5:
                        kargs.append(["c", rng.choice([0, 1])])
                    args = [["c", rng.choice([0, 1])] for _ in self.sigs[c]]
                    ops.append(["icall", ["_model", "P"], kargs, c, args, rng.choice(["sub", "call"])])
                else:
                    ops.append(["read", rng.choice([["g"], ["_model", "P", "r"]])])
                continue
            lower = [c for c in ("x", "y", "z") if self.rank[c] < rk]
            if sp == ["R"]:
                if "g" in self.mir["refs"].get(("B",), {}) and len(ops) == 1 and rng.random() < 0.5:
                    # (the name whose meaning changes when R gains or loses the base B)
                    ops.append(["read", ["g"]])
                    continue
                ops.append(["read", rng.choice([["s"], ["q"], ["g"], ["p"], ["_space", "s"]])])
                continue
            oc = self.mir["refs"].get(("P", "C"), {}).get("oc") if sp == ["P", "C"] else None
            if oc and k < 0.4:
                if oc["v"][0] == "ce":
                    ops.append(["call", ["oc"], [["k", 1] if ps and rng.random() < 0.6 else ["c", rng.choice([0, 1])]
                                                 for _ in self.sigs["x"]], "pos"])
                elif oc["v"][1] == ["P"]:
                    ops.append(rng.choice([["read", ["oc", "r"]], ["read", ["oc", "p"]],
                                           ["call", ["oc", "x"], [["c", rng.choice([0, 1])] for _ in self.sigs["x"]], "pos"]]))
                else:
                    ops.append(["read", ["oc", "s"]])
                continue
            oq = self.mir["refs"].get(("P", "Q"), {}).get("oq") if sp == ["P", "Q"] else None
            if oq and k < 0.4:
                if oq["v"][0] == "ce":
                    ops.append(["call", ["oq"], [["k", 1] if ps and rng.random() < 0.6 else ["c", rng.choice([0, 1])]
                                                 for _ in self.sigs["x"]], "pos"])
                else:
                    ops.append(rng.choice([["read", ["oq", "s"]], ["read", ["oq", "p"]],
                                           ["call", ["oq", "z"], [["c", rng.choice([0, 1])] for _ in self.sigs["z"]], "pos"]]))
                continue
            if k < 0.35 and lower:
                c = rng.choice(lower)
                args = [["k", 1] if ps and rng.random() < 0.6 else ["c", rng.choice([0, 1])]
                        for _ in self.sigs[c]]
                if sp == ["P"]:
                    path = rng.choice([[c], ["_space", c], ["o", c]] if c != "z" else [["C", c]])
                else:      # child space: reach the parent's cells through a reference or stay local
                    path = rng.choice([[c]] if c == "z" else [["_model", "P", c]])
                ops.append(["call", path, args, "pos"])
            elif k < 0.45 and ps:
                ops.append(["call", [name], [["dec", 1]], "pos"])
            elif k < 0.9:
                ops.append(["read", rng.choice([["p"], ["p"], ["r"], ["s"], ["g"], ["u"], ["pp"],
                                                ["o", "r"], ["_space", "r"], ["q"]])])
            else:
                ops.append(["const", rng.choice([1, 2])])
        return self.new_fid({"ps": ps, "ops": ops, "catch": False, "onerr": 900, "style": "def"})

    # ------------------------------------------------------------------
    def key(self):
        k = [self.rng.choice(KEYS)]
        if len(self.cur_pps()) == 2:
            k.append(self.rng.choice([0, 1]))
        return k

    def cur_pps(self):
        f = self.mir["pf"].get(("P",))
        return self.flib[f]["ps"] if f else []

    def dyn_ctx(self):
        """A random existing-or-not dynamic space: P[k], P[k].C, P[k].Q[j]."""
        rng = self.rng
        if not self.cur_pps():
            return None
        if ("T",) in self.mir["pf"] and ["T"] in self.mir["sp"] and rng.random() < 0.25:
            return ["T"], [["i", "", [rng.choice(KEYS)]]]
        steps = [["i", "", self.key()]]
        path = ["P"]
        k = rng.random()
        if getattr(self, "outer_base", False) and k < 0.5:
            k = 0.4                     # favour the nested instances that replicate R
        if getattr(self, "deep", False) and rng.random() < 0.4 and ["P", "E", "K"] in self.mir["sp"] \
                and ["P", "C", "K"] in self.mir["sp"]:
            steps.append(["c", rng.choice(["C", "E"]), []])
            steps.append(["c", "K", []])
        elif k < 0.3 and ["P", "C"] in self.mir["sp"]:
            steps.append(["c", "C", []])
        elif k < 0.45 and ("P", "Q") in self.mir["pf"] and ["P", "Q"] in self.mir["sp"]:
            steps.append(["c", "Q", []])
            steps.append(["i", "", self.qkey()])
        return path, steps

    def qkey(self):
        """Full-length arguments of the nested parametrised space (steps are written with
        every argument; defaults are exercised by get_item spellings only)."""
        f = self.mir["pf"].get(("P", "Q"))
        n = len(self.flib[f]["ps"]) if f else 1
        return [self.rng.choice(KEYS)] + [self.rng.choice([0, 1]) for _ in range(n - 1)]

    def base_of(self, path, steps):
        p = list(path)
        for st in steps:
            if st[0] == "c":
                p = p + [st[1]]
            else:
                f = self.mir["pf"].get(tp(p))
                if f and self.flib[f].get("base"):
                    p = list(self.flib[f]["base"])
        return p

    def enames_cells(self, p):
        out = list(self.mir["cells"].get(tp(p), {}))
        for b in self.mir["bases"].get(tp(p), []):
            for n in self.mir["cells"].get(tp(b), {}):
                if n not in out:
                    out.append(n)
        return out

    def next_op(self):
        rng = self.rng
        if self.queue:
            return self.queue.pop(0)
        prof = self.dyn_profile
        kinds = list(prof)
        for _ in range(60):
            kind = rng.choices(kinds, [prof[k] for k in kinds])[0]
            try:
                op = getattr(self, "mk_" + kind)()
            except (IndexError, KeyError, ValueError):
                op = None       # nothing of that kind can be generated in the current state
            if op is not None:
                return op
        return {"op": "set_ref", "s": [], "n": "g", "v": ["int", 71, [], ""], "mode": "auto"}

    def mk_call_dyn(self):
        ctx = self.dyn_ctx()
        if not ctx:
            return None
        path, steps = ctx
        cs = self.enames_cells(self.base_of(path, steps))
        if not cs:
            return None
        c = self.rng.choice(cs)
        return {"op": "call", "c": [path, steps, c], "args": self.rand_args(c), "sp": "pos"}

    def mk_set_value_dyn(self):
        op = self.mk_call_dyn()
        if not op:
            return None
        return {"op": "set_value", "c": op["c"], "args": self.rand_args(op["c"][2], False),
                "v": self.rng.choice([500, 600])}

    def mk_clear_at_dyn(self):
        op = self.mk_call_dyn()
        if not op:
            return None
        return {"op": "clear_at", "c": op["c"], "args": self.rand_args(op["c"][2], False)}

    def mk_get_item(self):
        rng = self.rng
        pps = self.cur_pps()
        if not pps:
            return None
        key = self.key()
        sp = rng.choice(["sub", "call", "kw"])
        if len(pps) == 2 and rng.random() < 0.5:
            key = key[:1]           # rely on the default of the second parameter
        if sp == "sub" and len(key) != len(pps) and len(key) != 1:
            sp = "call"
        if rng.random() < 0.25 and ("P", "Q") in self.mir["pf"] and ["P", "Q"] in self.mir["sp"]:
            return {"op": "get_item", "s": ["P"], "st": [["i", "", self.key()], ["c", "Q", []]],
                    "key": self.qkey(), "sp": rng.choice(["sub", "call"])}
        return {"op": "get_item", "s": ["P"], "st": [], "key": key, "sp": sp}

    def mk_del_item(self):
        if not self.cur_pps():
            return None
        return {"op": "del_item", "s": ["P"], "st": [], "key": self.key(),
                "via": self.rng.choice(["del", "clear_at"])}

    def all_cells(self):
        return [(p, c) for p in self.mir["sp"] for c in self.mir["cells"][tp(p)]]

    def mk_set_formula(self):
        cells = [(p, c) for p, c in self.all_cells() if self.rng.random() < 0.9 or p == ["S"]]
        if getattr(self, "outer_base", False) and self.rng.random() < 0.4:
            cells = [(p, c) for p, c in cells if p == ["R"]] or cells
        elif ["B"] in self.mir["bases"].get(("P",), []) and self.rng.random() < 0.35:
            cells = [(p, c) for p, c in cells if p == ["B"]] or cells
        if not cells:
            return None
        p, c = self.rng.choice(cells)
        return {"op": "set_formula", "s": list(p), "c": c, "f": self.formula(p, c), "via": "prop"}

    def mk_set_ref(self):
        rng = self.rng
        m = self.mir
        k = rng.random()
        if k < 0.15:
            return {"op": "set_ref", "s": [], "n": "g", "v": ["int", rng.choice([70, 80, 90]), [], ""],
                    "mode": "auto"}
        p = rng.choice([q for q in m["sp"] if q[0] in ("P", "B", "R")])
        name = rng.choice(["r", "s", "o", "g"])
        if name in self.enames_cells(p) or any(q[:-1] == list(p) and q[-1] == name for q in m["sp"]):
            return None
        if name == "o":
            if list(p) != ["P"]:
                return None
            v = rng.choice([["sp", ["P"], [], ""], ["sp", ["P", "C"], [], ""], ["ce", ["P"], [], "x"],
                            ["sp", ["S"], [], ""]])
            if v[0] == "ce" and "x" not in self.enames_cells(["P"]):
                return None
            if v[0] == "sp" and v[1] not in m["sp"]:
                return None
            mode = rng.choice(["auto", "relative", "absolute"]) if v[1][0] == "P" else \
                rng.choice(["auto", "absolute"])
        else:
            v = ["int", rng.choice(INT_VALUES), [], ""]
            mode = rng.choice(["auto", "auto", "absolute"])
        return {"op": "set_ref", "s": list(p), "n": name, "v": v, "mode": mode, "via": "set_ref"}

    def mk_del_ref(self):
        cand = [(p, n) for p in self.mir["sp"] for n in self.mir["refs"][tp(p)]]
        if not cand:
            return None
        p, n = self.rng.choice(cand)
        return {"op": "del_ref", "s": list(p), "n": n}

    def mk_new_cells(self):
        rng = self.rng
        p = rng.choice([q for q in self.mir["sp"] if q[0] == "P" or q in (["B"], ["R"])])
        free = [n for n in ("x", "y", "z") if n not in self.enames_cells(p)
                and n not in self.mir["refs"][tp(p)]]
        if not free:
            return None
        c = rng.choice(free)
        return {"op": "new_cells", "s": list(p), "c": c,
                "rec": {"f": self.formula(p, c), "cached": rng.random() >= self.p_uncached, "an": 0}}

    def mk_invalid(self):
        """An edit that modelx must refuse, made while instances are alive and hold assigned
        values: refused means nothing changed, INSIDE the instances too."""
        rng = self.rng
        bases = [q for q in self.mir["sp"] if q[0] == "P" or q in (["B"], ["R"])]
        p = rng.choice(bases)
        k = rng.randrange(5)
        op = None
        if k <= 1:      # malformed formula text, for a new or an existing cells
            if "BAD" not in self.flib:
                self.flib["BAD"] = {"ps": [], "ops": [], "catch": False, "onerr": 0,
                                    "style": "def", "bad": True}
            cs = self.enames_cells(p)
            free = [n for n in ("x", "y", "z") if n not in cs and n not in self.mir["refs"][tp(p)]]
            own = [c for c in cs if c in self.mir["cells"][tp(p)]]
            if k == 0 and free:
                op = {"op": "new_cells", "s": list(p), "c": rng.choice(free),
                      "rec": {"f": "BAD", "cached": True, "an": 0}, "expect": "syntax"}
            elif own:
                op = {"op": "set_formula", "s": list(p), "c": rng.choice(own), "f": "BAD",
                      "via": "prop", "expect": "syntax"}
        elif k == 2:    # a cells named like a reference of the space
            taken = [n for n in self.mir["refs"][tp(p)] if n in ("r", "s", "g")]
            if taken:
                nm = rng.choice(taken)
                self.sigs.setdefault(nm, [])
                self.rank.setdefault(nm, 0)
                op = {"op": "new_cells", "s": list(p), "c": nm,
                      "rec": {"f": self.formula(p, "x" if "x" in self.sigs else nm), "cached": True, "an": 0},
                      "expect": "clash"}
        elif k == 3:    # None assigned where None is not allowed
            cells = [(q, c) for q, c in self.all_cells() if q in bases]
            if cells:
                q, c = rng.choice(cells)
                op = {"op": "set_value", "c": [list(q), [], c], "args": self.rand_args(c, False),
                      "v": -2, "expect": "none"}
        else:           # a derived cells cannot be deleted
            der = [(q, c) for q in bases for c in self.enames_cells(q) if c not in self.mir["cells"][tp(q)]]
            if der:
                q, c = rng.choice(der)
                op = {"op": "del_cells", "s": list(q), "c": c, "via": "attr", "expect": "derived"}
        if op is None:
            return None
        if rng.random() < 0.6:
            pre = self.mk_set_value_dyn()       # an assigned value inside an instance, first
            if pre:
                self.queue.append(op)
                return pre
        return op

    def mk_del_cells(self):
        cells = [(p, c) for p, c in self.all_cells() if p != ["S"]]
        if len(cells) <= 1:
            return None
        p, c = self.rng.choice(cells)
        return {"op": "del_cells", "s": list(p), "c": c, "via": "attr"}

    def mk_set_pf(self):
        rng = self.rng
        if self.nested and ["P", "Q"] in self.mir["sp"] and rng.random() < 0.3:
            # the parameter formula of the NESTED parametrised space changes (one or two
            # parameters): existing P[i] hold a replica of Q built for the old signature
            two = rng.random() < 0.5
            qps = [[getattr(self, "qname", "q"), 0, 0]] + ([["qq", 1, rng.choice([0, 1])]] if two else [])
            return {"op": "set_pf", "s": ["P", "Q"],
                    "f": self.new_pf(qps, False, base=["R"] if getattr(self, "outer_base", False) else None)}
        if rng.random() < 0.2:
            return {"op": "set_pf", "s": ["P"]}             # delete the parameter formula
        two = rng.random() < 0.4
        pps = [["p", 0, 0]] + ([["pp", 1, rng.choice([0, 1])]] if two else [])
        return {"op": "set_pf", "s": ["P"], "f": self.new_pf(pps, rng.random() < 0.3)}

    def mk_new_space(self):
        """A grandchild space appears under a child of P (then gets a cells): instances built
        before must show it."""
        rng = self.rng
        parents = [q for q in self.mir["sp"] if q[0] == "P" and len(q) == 2 and q != ["P", "Q"]]
        if not parents:
            return None
        par = rng.choice(parents)
        nm = rng.choice(["N", "M"])
        if par + [nm] in self.mir["sp"]:
            return None
        self.rank.setdefault("v", 0)
        self.sigs.setdefault("v", [])
        f = self.new_fid({"ps": self.sigs["v"], "ops": [["const", rng.choice([3000, 4000])], ["read", ["p"]]],
                          "catch": False, "onerr": 900, "style": "def"})
        self.queue.append({"op": "new_cells", "s": par + [nm], "c": "v",
                           "rec": {"f": f, "cached": True, "an": 0}})
        key = self.key()
        self.queue.append({"op": "call", "c": [["P"], [["i", "", key], ["c", par[1], []], ["c", nm, []]], "v"],
                           "args": [self.rng.choice([0, 1]) for _ in self.sigs["v"]], "sp": "pos"})
        return {"op": "new_space", "p": par + [nm], "bases": []}

    def mk_del_space(self):
        # the parametrised space itself goes away (late in a history: little is left afterwards)
        cand = [q for q in (["P"], ["B"], ["B"]) if q in self.mir["sp"]]   # (B: a base of P, P.C or R)
        if not cand:
            return None
        op = {"op": "del_space", "p": self.rng.choice(cand)}
        if op["p"] == ["B"]:
            return self.around_child(op)
        return op

    def around_child(self, op):
        """Scenario: the child space P.C derives members from B; an instance P[i].C is evaluated,
        then the derivation goes away INDIRECTLY (base removed / base deleted), then the same
        instance is asked again."""
        if ["B"] not in self.mir["bases"].get(("P", "C"), []) or not self.cur_pps():
            return op
        der = [c for c in self.enames_cells(["P", "C"]) if c not in self.mir["cells"][("P", "C")]]
        own = [c for c in self.mir["cells"][("P", "C")]]
        if not der or self.rng.random() < 0.25:
            return op
        st = [["i", "", self.key()], ["c", "C", []]]
        calls = [{"op": "call", "c": [["P"], st, c], "args": self.rand_args(c), "sp": "pos"}
                 for c in [self.rng.choice(der)] + own[:1]]
        self.queue += [op] + [dict(c) for c in calls]
        return calls[0]

    def mk_add_bases(self):
        # B becomes a base of P, or of R (the space the nested instances P[i].Q[k] are built from)
        cand = [t for t in (["P"], ["R"], ["P", "C"]) if t in self.mir["sp"] and ["B"] in self.mir["sp"]
                and ["B"] not in self.mir["bases"][tp(t)]
                and not (t == ["P", "C"] and ["B"] in self.mir["bases"][("P",)])
                and not (t == ["P"] and ["B"] in self.mir["bases"].get(("P", "C"), []))]
        if not cand:
            return None
        t = self.rng.choice(cand)
        if ["R"] in cand and self.rng.random() < 0.4:
            t = ["R"]
        op = {"op": "add_bases", "s": t, "bs": [["B"]]}
        if t == ["R"] and (("P", "Q") in self.mir["pf"] and self.cur_pps() or ("T",) in self.mir["pf"]):
            # scenario: an instance built from R is evaluated, R gains the base, the same
            # instance is asked again (its own cells and one it must now derive from B)
            calls = self.instance_calls()
            self.queue += [calls[0], op] + [dict(c) for c in calls]
            # (first an edit of R itself: its lazily refreshed namespace is then out of date
            #  when the instance is built and when the base is added)
            free = [n for n in ("x", "y") if n not in self.enames_cells(["R"])
                    and n not in self.mir["refs"][("R",)]]
            if free and self.rng.random() < 0.6:
                c = self.rng.choice(free)
                return {"op": "new_cells", "s": ["R"], "c": c,
                        "rec": {"f": self.formula(["R"], c), "cached": True, "an": 0}}
            return {"op": "set_ref", "s": ["R"], "n": "s", "v": ["int", self.rng.choice(INT_VALUES), [], ""],
                    "mode": "auto", "via": "attr"}
        return op

    def instance_calls(self):
        """Calls into one instance built from R: P[i].Q[k] or T[i]."""
        st = [["i", "", self.key()], ["c", "Q", []], ["i", "", self.qkey()]]
        root = ["P"]
        if ("T",) in self.mir["pf"] and (self.rng.random() < 0.6 or not (("P", "Q") in self.mir["pf"] and self.cur_pps())):
            root, st = ["T"], [["i", "", [self.rng.choice(KEYS)]]]
        return [{"op": "call", "c": [root, st, c], "args": self.rand_args(c), "sp": "pos"}
                for c in ("z", "x") if c in self.sigs]

    def mk_remove_bases(self):
        cand = [t for t in (["P"], ["R"], ["P", "C"]) if ["B"] in self.mir["bases"].get(tp(t), [])]
        if not cand:
            return None
        t = self.rng.choice(cand)
        op = {"op": "remove_bases", "s": t, "bs": [["B"]]}
        if t == ["R"] and (("P", "Q") in self.mir["pf"] and self.cur_pps() or ("T",) in self.mir["pf"]):
            # scenario: an instance built from R is evaluated, R loses the base, the instance is asked again
            calls = self.instance_calls()
            self.queue += [op] + [dict(c) for c in calls]
            return calls[0]
        if t == ["P", "C"]:
            return self.around_child(op)
        return op

    def update(self, op, res, ev=None):
        if res != "ok":
            return
        m = self.mir
        k = op["op"]
        if k == "set_pf":
            if op.get("f"):
                m["pf"][tp(op["s"])] = op["f"]
            else:
                m["pf"].pop(tp(op["s"]), None)
        elif k == "add_bases":
            m["bases"][tp(op["s"])] += [list(b) for b in op["bs"]]
        elif k == "remove_bases":
            m["bases"][tp(op["s"])] = [b for b in m["bases"][tp(op["s"])] if b not in op["bs"]]
        elif k == "del_space":
            super().update(op, res, ev)
            gone = list(op["p"])
            for key_ in list(m["bases"]):
                m["bases"][key_] = [b for b in m["bases"][key_] if b[:len(gone)] != gone]
            for key_ in [x for x in m["pf"] if list(x[:len(gone)]) == gone]:
                m["pf"].pop(key_, None)
        elif k == "new_space":
            m["sp"].append(list(op["p"]))
            for key_ in ("cells", "refs"):
                m[key_][tp(op["p"])] = {}
            m["bases"][tp(op["p"])] = []
            m["span"][tp(op["p"])] = 0
        elif k == "set_formula":
            cur = dict(m["cells"][tp(op["s"])].get(op["c"]) or {"an": 0, "cached": True})
            cur["f"] = op["f"]
            m["cells"][tp(op["s"])][op["c"]] = cur
        else:
            super().update(op, res, ev)
