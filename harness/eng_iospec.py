"""C18 -- an IOSpec lives exactly as long as a reference to its value.

  1. design level : TLC model-checks spec/MxIOSpec.tla (algorithm layer: ReferenceManager,
                    IOManager, new_pandas/new_module, set_attr/del_attr, update_value, close)
                    against the property layer spec/MxIOSpecProps.tla
  2. code -> spec : seeded random histories on the real library, recorded by
                    harness/iospec_world.py, judged by TLC with spec/MxIOSpecTrace.tla
  3. spec -> code : histories TLC enumerated from the model, replayed on the real library and
                    judged the same way (the model's predicted post state is compared as well:
                    DRIFT labels = implementation/model agreement, never a violation)
  4. negative controls, evidence.
Verdicts are the labels TLC prints; nothing is asserted in Python.
"""
import collections
import concurrent.futures
import copy
import json
import multiprocessing
import os
import random
import time

from . import tlc

PIDS = ["C18"]
LEVEL = {"C18": "model_checking"}

ROOT = os.path.dirname(os.path.dirname(os.path.abspath(__file__)))
NCPU = min(16, os.cpu_count() or 1)
TRACE_MODULE, TRACE_CFG = "MxIOSpecTrace", "MxIOSpecTrace.cfg"

TIERS = {
    "quick": dict(mc=[("MC_MxIOSpec_quick.cfg", 6), ("MC_MxIOSpec_quick1.cfg", 6)],
                  random=112, nops=24, mbt=700, mbt_short=3),
    "thorough": dict(mc=[("MC_MxIOSpec_thorough1.cfg", 8), ("MC_MxIOSpec_thorough3.cfg", 4),
                         ("MC_MxIOSpec_thorough.cfg", 2), ("MC_MxIOSpec_quick.cfg", 2)],
                     random=2000, nops=40, mbt=10000, mbt_short=4),
}

ASSUME = [
    "values are identified by identity by the harness (small ints); pandas values are small "
    "integer DataFrames/Series saved as csv, modules are one-line files; excel files and "
    "absolute (external) paths are outside the vocabulary",
    "two spaces per model (B may derive from A), references at model level and in both spaces",
    "references may also be bound to modelx objects of the same model (the spaces A, B and their "
    "cells c); a space is not deleted while a reference outside it points into it",
    "the abstract state is read after every public call from model.iospecs, model.get_spec, "
    "the spaces' own references, ReferenceManager._valid_to_refs, mxsys.iomanager.ios and "
    "mxsys._check_sanity(); TLC evaluates every predicate on these observations",
    "write/read round trip: the saved model is read back under another name in the same session, "
    "compared and closed again",
]

RAND_INIT = {"models": ["M1", "M2"], "base": ["M1"], "pvals": [1, 2, 3], "mvals": [4, 5], "child": True}
RAND_NAMES = ["x", "y", "z"]
RAND_CSV = ["p.csv", "q.csv", "d/r.csv"]
RAND_MOD = ["mo.py", "d/mo2.py"]
RAND_OBJ = [101, 102, 103, 104]     # modelx objects of the same model: A, A.c, B, B.c
OBJ_SPACE = {101: "A", 102: "A", 103: "B", 104: "B"}


# ---------------------------------------------------------------------------
# random histories (generated online from the observed state)

def make_gen(seed, nops):
    rng = random.Random(seed)
    risky = rng.random() < 0.25        # this history may walk into known-finding situations

    def gen(w, obs, i):
        if i >= nops:
            return None
        openm = [m for m in obs["M"] if obs["M"][m]["open"]]
        if not openm:
            return None
        for _ in range(50):
            m = rng.choice(openm)
            om = obs["M"][m]
            parents = [""] + om["sp"]
            sp = rng.choice(parents)
            live = {r["v"] for mm in obs["M"].values() for r in mm["refs"]} | \
                   {y["v"] for y in obs["ios"]}
            fresh_m = [v for v in RAND_INIT["mvals"] if v not in live]
            has_spec = {s["v"] for s in om["specs"]}
            bound = {r["v"] for r in om["refs"]}
            k = rng.choices(
                ["new_csv", "new_mod", "bad", "assign", "del", "update", "base", "wr", "close",
                 "delsp"],
                [22, 7, 5, 24, 14, 10, 6, 6, 1.2, 0.8 if risky else 0])[0]
            if k == "new_csv":
                vs = [v for v in RAND_INIT["pvals"] if risky or v not in has_spec]
                if not vs:
                    continue
                v = rng.choice(vs)
                n = rng.choice(RAND_NAMES)
                if not risky and any(r["sp"] == sp and r["n"] == n and r["v"] == v
                                     for r in om["refs"]):
                    continue
                return {"op": "new_spec", "m": m, "sp": sp, "n": n, "loc": rng.choice(RAND_CSV),
                        "kind": "csv", "v": v}
            if k == "new_mod":
                if not fresh_m:
                    continue
                return {"op": "new_spec", "m": m, "sp": sp, "n": rng.choice(RAND_NAMES),
                        "loc": rng.choice(RAND_MOD), "kind": "module", "v": fresh_m[0]}
            if k == "bad":
                n = "A" if sp == "" else rng.choice(["c", "1x"])
                return {"op": "new_spec", "m": m, "sp": sp, "n": n, "loc": rng.choice(RAND_CSV),
                        "kind": "csv", "v": rng.choice(RAND_INIT["pvals"])}
            if k == "assign":
                # (a module is only bound again where it has its spec: a model holding a
                #  module without a spec cannot be saved, which is not C18's subject)
                vs = [0] + RAND_INIT["pvals"] + [v for v in RAND_INIT["mvals"] if v in has_spec]
                if rng.random() < 0.3:
                    # a modelx object of the same model (space or cells)
                    vs = [o for o in RAND_OBJ if OBJ_SPACE[o] in om["sp"]] or vs
                v = rng.choice(vs)
                n = rng.choice(RAND_NAMES)
                if not risky and any(r["sp"] == sp and r["n"] == n and r["v"] == v
                                     for r in om["refs"]):
                    continue
                return {"op": "assign", "m": m, "sp": sp, "n": n, "v": v}
            if k == "del":
                mine = [r for r in om["refs"] if r["sp"] == sp]
                if mine and rng.random() < 0.85:
                    n = rng.choice(mine)["n"]
                else:
                    n = rng.choice(RAND_NAMES)
                return {"op": "del_ref", "m": m, "sp": sp, "n": n}
            if k == "update":
                cands = [v for v in bound if 0 < v < 100] or RAND_INIT["pvals"]
                old = rng.choice(sorted(cands))
                if old in RAND_INIT["mvals"]:
                    if not fresh_m or old not in has_spec or any(old in {r["v"] for r in obs["M"][o]["refs"]}
                                          for o in openm if o != m):
                        continue
                    return {"op": "update", "m": m, "old": old, "new": fresh_m[0]}
                if rng.random() < 0.5:
                    return {"op": "update", "m": m, "old": old, "new": old,
                            "inplace": rng.random() < 0.5}
                news = [v for v in RAND_INIT["pvals"] if v != old and (risky or v not in bound)]
                if not news:
                    continue
                return {"op": "update", "m": m, "old": old, "new": rng.choice(news)}
            if k == "base":
                if len(om["sp"]) < 2:
                    continue
                return {"op": "remove_base" if om["base"] else "add_base", "m": m}
            if k == "wr":
                return {"op": "write_read", "m": m}
            if k == "close":
                if i < nops // 2:
                    continue
                return {"op": "close", "m": m}
            if k == "delsp":
                # (not a space that references outside it point into: dangling handles are
                #  not C18's subject)
                free = [s for s in om["sp"]
                        if not any(r["v"] >= 100 and OBJ_SPACE.get(r["v"]) == s and r["sp"] != s
                                   for r in om["refs"])]
                if not free:
                    continue
                return {"op": "del_space", "m": m, "sp": rng.choice(free)}
        return None
    return gen


def _work_random(job):
    from . import iospec_world as iw
    seed, nops = job
    tr = iw.run_case({"init": RAND_INIT, "ops": [], "src": "random", "seed": seed},
                     gen=make_gen(seed, nops))
    return tr


def _work_replay(job):
    from . import iospec_world as iw
    init, ops, src, model_labels = job
    tr = iw.run_case({"init": init, "ops": ops, "src": src})
    tr["hdr"]["model_labels"] = model_labels
    return tr


def make_pool(procs=NCPU):
    """Worker processes are forked BEFORE any thread of this process starts a TLC subprocess
    (forking a process whose other threads hold locks can deadlock the child) and are never
    re-forked (no maxtasksperchild)."""
    return multiprocessing.get_context("fork").Pool(processes=procs)


def produce(pool, fn, jobs):
    if not jobs:
        return []
    return pool.map(fn, jobs, chunksize=max(1, min(16, len(jobs) // (NCPU * 4) or 1)))


# ---------------------------------------------------------------------------
def judge(traces, procs=NCPU):
    """Validate traces with TLC in parallel batches; returns (verdict per trace, stats)."""
    if not traces:
        return [], {"states": 0, "transitions": 0, "tlc_wall_s": 0.0, "batches": 0}
    bs = max(8, min(200, len(traces) // procs + 1))
    batches = [traces[i:i + bs] for i in range(0, len(traces), bs)]

    def one(b):
        v, r = tlc.validate_traces(b, module=TRACE_MODULE, cfg=TRACE_CFG, timeout=1500)
        return [v[i + 1] for i in range(len(b))], r

    out = []
    stats = {"states": 0, "transitions": 0, "tlc_wall_s": 0.0, "batches": len(batches)}
    with concurrent.futures.ThreadPoolExecutor(max_workers=procs) as ex:
        for vs, r in ex.map(one, batches):
            out.extend(vs)
            stats["states"] += r.get("states") or 0
            stats["transitions"] += r.get("transitions") or 0
            stats["tlc_wall_s"] += r["wall_s"]
    return out, stats


# ---------------------------------------------------------------------------
def init_of_cfg(cfgfile):
    """Read the vocabulary of an MC configuration (the driver builds the same initial state)."""
    txt = open(os.path.join(tlc.SPEC_DIR, cfgfile)).read()

    def setof(name):
        import re
        m = re.search(r"^\s*%s\s*=\s*\{([^}]*)\}" % name, txt, re.M)
        items = [x.strip() for x in m.group(1).split(",") if x.strip()]
        return [json.loads(x) for x in items]
    import re
    child = bool(re.search(r"^\s*WithChild\s*=\s*TRUE", txt, re.M))
    return {"models": setof("Models"), "base": setof("BaseInit"), "pvals": setof("PVals"),
            "mvals": setof("MVals"), "child": child}


def with_kind(ops):
    out = []
    for op in ops:
        op = {k: v for k, v in op.items() if k != "res"}
        if op["op"] == "new_spec":
            op["kind"] = "module" if op["loc"].endswith(".py") else "csv"
        out.append(op)
    return out


def run_mc(tier, seed):
    """Design-level model checking (all configurations concurrently) + the histories they emit."""
    conf = TIERS[tier]

    def one(item):
        cfgfile, workers = item
        r = tlc.run_tlc("MxIOSpec", cfg=cfgfile, workers=workers, timeout=3300,
                        heap="6g")
        hists = {}
        outcomes = collections.Counter()
        pre = '<<"MBT", '
        for line in r["out"].splitlines():
            # (one tuple per line; PrintT writes a line atomically)
            if not (line.startswith(pre) and line.endswith(">>")):
                continue
            rec = json.loads(json.loads(line[len(pre):-2]))
            h = rec["h"]
            if not h:
                continue
            key = json.dumps(h, sort_keys=True)
            if key in hists:
                continue
            hists[key] = (with_kind(h), sorted(rec["lab"]))
            for op in h:
                outcomes["%s:%s" % (op["op"], op["res"])] += 1
        r["model_outcomes"] = dict(outcomes)
        r["cfg"] = cfgfile
        first = open(os.path.join(tlc.SPEC_DIR, cfgfile)).readline().strip()
        r["instance"] = first.lstrip("\\* ").strip()
        r["complete_state_space"] = "VIEW ViewU" in open(os.path.join(tlc.SPEC_DIR, cfgfile)).read()
        r["hists"] = hists
        r.pop("out")
        return r

    with concurrent.futures.ThreadPoolExecutor(max_workers=len(conf["mc"])) as ex:
        return list(ex.map(one, conf["mc"]))


def pick_histories(mcs, tier, seed):
    """All short histories, every history that reaches a known-finding situation in the model,
    and a seeded sample of the rest."""
    conf = TIERS[tier]
    rng = random.Random(seed)
    jobs = []
    enumerated = 0
    for r in mcs:
        init = init_of_cfg(r["cfg"])
        items = sorted(r["hists"].items())
        enumerated += len(items)
        must = [(h, lab) for _, (h, lab) in items if len(h) < conf["mbt_short"] or lab]
        rest = [(h, lab) for _, (h, lab) in items if not (len(h) < conf["mbt_short"] or lab)]
        rng.shuffle(rest)
        rng.shuffle(must)
        quota = conf["mbt"] // max(1, len([x for x in mcs if x["hists"]]))
        chosen = must[:quota * 2 // 3]
        chosen += rest[:max(0, quota - len(chosen))]
        for h, lab in chosen:
            jobs.append((init, h, "mbt:" + r["cfg"], lab))
    return jobs, enumerated


# ---------------------------------------------------------------------------
def corrupt(tr, rng):
    """Negative controls: (corrupted trace, label TLC must raise)."""
    out = []
    evs = tr["ev"]
    idx = list(range(len(evs)))
    rng.shuffle(idx)
    want = {"C18.SpecsEqBoundValues", "C18.NoOrphanSpec", "C18.LocationsUnique",
            "C18.RejectedLeavesNothing", "C18.SanityChecks", "C18.SavedSpecsRoundTrip"}
    for i in idx:
        e = evs[i]
        for m, om in e["post"]["M"].items():
            if "C18.SpecsEqBoundValues" in want and om["open"] and om["specs"]:
                t = copy.deepcopy(tr)
                pm = t["ev"][i]["post"]["M"][m]
                gone = pm["specs"].pop()
                pm["gs"] = [g for g in pm["gs"] if g != gone]
                t["ev"][i]["post"]["ios"] = [y for y in t["ev"][i]["post"]["ios"]
                                             if not (y["g"] == m and y["loc"] == gone["loc"])]
                out.append((t, "C18.SpecsEqBoundValues", i + 1))
                want.discard("C18.SpecsEqBoundValues")
        if "C18.NoOrphanSpec" in want and e["res"] == "ok":
            t = copy.deepcopy(tr)
            t["ev"][i]["post"]["ios"].append({"g": "M1", "loc": "zz.csv", "v": 1})
            out.append((t, "C18.NoOrphanSpec", i + 1))
            want.discard("C18.NoOrphanSpec")
        if "C18.LocationsUnique" in want and e["post"]["ios"]:
            t = copy.deepcopy(tr)
            y = dict(t["ev"][i]["post"]["ios"][0])
            t["ev"][i]["post"]["ios"].append(y)
            out.append((t, "C18.LocationsUnique", i + 1))
            want.discard("C18.LocationsUnique")
        if "C18.RejectedLeavesNothing" in want and e["res"] == "rejected" and \
                e["op"] == "new_spec" and e["post"]["M"][e["m"]]["open"]:
            t = copy.deepcopy(tr)
            t["ev"][i]["post"]["M"][e["m"]]["refs"].append(
                {"sp": e["sp"], "n": "zz", "v": e["v"], "d": False})
            out.append((t, "C18.RejectedLeavesNothing", i + 1))
            want.discard("C18.RejectedLeavesNothing")
        if "C18.SanityChecks" in want:
            t = copy.deepcopy(tr)
            t["ev"][i]["post"]["sane"] = False
            out.append((t, "C18.SanityChecks", i + 1))
            want.discard("C18.SanityChecks")
        if "C18.SavedSpecsRoundTrip" in want and e["op"] == "write_read" and e.get("rt"):
            t = copy.deepcopy(tr)
            t["ev"][i]["rt"][0]["rd"] = t["ev"][i]["rt"][0]["rd"][:-1] + [99]
            out.append((t, "C18.SavedSpecsRoundTrip", i + 1))
            want.discard("C18.SavedSpecsRoundTrip")
    return out


def negative_controls(traces, verdicts, rng):
    """Corrupt one recorded field of accepted executions; TLC must raise the predicate's label at
    the corrupted event (or, when the corrupted value went through the situation of a known
    finding earlier in that trace, that finding's label)."""
    good = [tr for tr, v in zip(traces, verdicts)
            if not [l for l, _ in v["viol"] if not l.startswith("DRIFT")] and tr["ev"]]
    rng.shuffle(good)
    made, labels = [], set()
    for tr in good[:40]:
        for t, lab, line in corrupt(tr, rng):
            if lab not in labels:
                labels.add(lab)
                made.append((t, lab, line))
    if not made:
        return {"attempted": 0, "rejected": 0, "labels": []}
    vs, _ = judge([t for t, _, _ in made], procs=1)

    def caught(lab, line, v):
        return any(ln == line and (l == lab or l.startswith("KF:C18.")) for l, ln in v["viol"])
    rej = sum(1 for (t, lab, line), v in zip(made, vs) if caught(lab, line, v))
    return {"attempted": len(made), "rejected": rej, "labels": sorted(labels),
            "missed": sorted(lab for (t, lab, line), v in zip(made, vs) if not caught(lab, line, v))}


# ---------------------------------------------------------------------------
def save_replay(tr):
    from . import iospec_world as iw
    ops = iw.ops_of(tr)
    init = tr["hdr"]["cfg"]
    h = iw.case_hash(init, ops)
    d = os.path.join(ROOT, "replays", "C18")
    os.makedirs(d, exist_ok=True)
    path = os.path.join(d, h + ".json")
    with open(path, "w") as f:
        json.dump({"property": "C18", "init": init, "ops": ops, "src": tr["hdr"].get("src"),
                   "seed": tr["hdr"].get("seed")}, f)
    return path


def sample_of(tr, maxev=8):
    return {"src": tr["hdr"].get("src"), "seed": tr["hdr"].get("seed"), "n_events": len(tr["ev"]),
            "first_events": [{k: v for k, v in e.items() if k not in ("post", "rt")}
                             for e in tr["ev"][:maxev]],
            "state_after_first_events": tr["ev"][min(maxev, len(tr["ev"])) - 1]["post"]
            if tr["ev"] else tr["hdr"]["init"]}


def is_property_label(lab):
    return lab.startswith("C18.") or lab.startswith("KF:C18.")


def run(pid, tier, seed):
    from . import iospec_world as iw
    conf = TIERS[tier]
    rng = random.Random(seed)
    res = {"level": LEVEL[pid], "violations": [], "assumptions": list(ASSUME)}
    t0 = time.time()
    pool = make_pool()
    try:
        with concurrent.futures.ThreadPoolExecutor(max_workers=1) as bg:
            fut = bg.submit(run_mc, tier, seed)
            # code -> spec: random histories (while TLC explores the model)
            jobs = [(seed * 100003 + i, conf["nops"]) for i in range(conf["random"])]
            rtraces = produce(pool, _work_random, jobs)
            t_rand = time.time() - t0
            mcs = fut.result()
        t_mc = time.time() - t0
        # spec -> code
        mjobs, enumerated = pick_histories(mcs, tier, seed)
        mtraces = produce(pool, _work_replay, mjobs)
    finally:
        pool.terminate()
        pool.join()
    traces = rtraces + mtraces
    verdicts, stats = judge(traces)

    for tr, v in zip(traces, verdicts):
        if v["matched"] != v["total"]:
            res["machinery_failure"] = "trace (%s seed=%s) consumed %d of %d events" % (
                tr["hdr"].get("src"), tr["hdr"].get("seed"), v["matched"], v["total"])
    labels_seen = collections.Counter()
    reported = collections.Counter()
    drift_events = 0
    drift_traces = 0
    for tr, v in zip(traces, verdicts):
        mine = sorted([(lab, l) for lab, l in v["viol"] if is_property_label(lab)],
                      key=lambda x: x[1])
        for lab, l in v["viol"]:
            labels_seen[lab] += 1
        if any(lab.startswith("DRIFT") for lab, _ in v["viol"]):
            drift_traces += 1
        # at most a few replays per label (every occurrence is counted in labels_raised)
        mine = [(lab, l) for lab, l in mine if reported[lab] < 3]
        if mine:
            path = save_replay(tr)
            for lab, l in mine[:4]:
                reported[lab] += 1
                res["violations"].append({"label": lab, "line": l, "replay": path})
    # agreement between the labels the model predicted for its own histories and the labels
    # TLC found on the replayed executions
    agree = sum(1 for tr, v in zip(mtraces, verdicts[len(rtraces):])
                if sorted({lab for lab, _ in v["viol"] if is_property_label(lab)} &
                          set(tr["hdr"]["model_labels"])) == sorted(tr["hdr"]["model_labels"]))
    nc = negative_controls(traces, verdicts, rng)
    if (nc["attempted"] < 6 or nc["rejected"] != nc["attempted"]) and not res["violations"]:
        res["machinery_failure"] = "negative controls: %r" % (nc,)

    mc_states = sum(r.get("states") or 0 for r in mcs)
    mc_trans = sum(r.get("transitions") or 0 for r in mcs)
    for r in mcs:
        if not r.get("ok"):
            res["machinery_failure"] = "design-level model check %s did not complete cleanly" % r["cfg"]
    opk = collections.Counter()
    outcomes = collections.Counter()
    hashes, nontrivial = set(), set()
    for tr in traces:
        ops = iw.ops_of(tr)
        h = iw.case_hash(tr["hdr"]["cfg"], ops)
        hashes.add(h)
        kinds = {e["op"] for e in tr["ev"]}
        if any(e["op"] == "new_spec" and e["res"] == "ok" for e in tr["ev"]) and \
                kinds & {"assign", "del_ref", "update", "close", "remove_base", "add_base",
                         "write_read", "del_space"}:
            nontrivial.add(h)
        for e in tr["ev"]:
            opk[e["op"]] += 1
            outcomes["%s:%s" % (e["op"], e["res"])] += 1
    need = {"new_spec", "assign", "del_ref", "update", "add_base", "remove_base", "close",
            "write_read"}
    if not need <= set(opk):
        res["machinery_failure"] = "operation kinds never exercised: %r" % sorted(need - set(opk))
    for must in ("new_spec:ok", "new_spec:rejected", "assign:ok", "del_ref:ok", "del_ref:rejected",
                 "update:ok", "update:rejected", "write_read:ok", "close:ok", "add_base:ok",
                 "remove_base:ok"):
        if not outcomes[must]:
            res["machinery_failure"] = "no %s event in this run" % must
    # vacuity: how often the antecedent of each predicate was true on the real executions
    ante = collections.Counter()
    for tr in traces:
        prev = tr["hdr"]["init"]
        for e in tr["ev"]:
            post = e["post"]
            nspec_pre = sum(len(m["specs"]) for m in prev["M"].values())
            nspec_post = sum(len(m["specs"]) for m in post["M"].values())
            if nspec_post:
                ante["states_with_live_specs"] += 1
            if nspec_post < nspec_pre:
                ante["events_where_a_spec_ended"] += 1
            if nspec_post > nspec_pre:
                ante["events_where_a_spec_began"] += 1
            if any(len(m["specs"]) >= 2 for m in post["M"].values()):
                ante["states_with_two_specs_in_a_model"] += 1
            if len({y["g"] for y in post["ios"]}) >= 2:
                ante["states_with_specs_in_two_models"] += 1
            if any(r["d"] and r["v"] in {s["v"] for s in m["specs"]}
                   for m in post["M"].values() for r in m["refs"]):
                ante["states_with_derived_ref_to_spec_value"] += 1
            if e["res"] == "rejected":
                ante["rejected_events"] += 1
                if e["op"] == "new_spec":
                    ante["rejected_creation:" + e.get("exc", "")] += 1
            if e["op"] == "write_read" and e["res"] == "ok" and e["rt"]:
                ante["saves_with_live_specs"] += 1
                ante["spec_files_compared"] += len(e["rt"])
            # modelx objects as values
            pm = prev["M"].get(e["m"], {"refs": []})
            tgt = [r for r in pm["refs"] if r["sp"] == e.get("sp") and r["n"] == e.get("n")] \
                if "n" in e else []
            if e["op"] == "assign" and e["res"] == "ok" and e["v"] >= 100:
                ante["object_bound"] += 1
                if e["sp"] == "":
                    ante["object_bound_at_model_level"] += 1
                if nspec_post < nspec_pre:
                    ante["spec_ended_by_rebinding_to_object"] += 1
            if e["op"] in ("assign", "new_spec") and e["res"] == "ok" and e["v"] < 100 and \
                    tgt and tgt[0]["v"] >= 100:
                ante["object_ref_rebound_to_value"] += 1
                if e["op"] == "new_spec":
                    ante["spec_created_on_name_bound_to_object"] += 1
            if e["op"] == "del_ref" and tgt and tgt[0]["v"] >= 100:
                ante["object_ref_deleted:%s:%s" % ("derived" if tgt[0]["d"] else "defined",
                                                   e["res"])] += 1
            if any(r["d"] and r["v"] >= 100 for m in post["M"].values() for r in m["refs"]):
                ante["states_with_derived_object_ref"] += 1
            if e["op"] == "write_read" and e["res"] == "ok" and \
                    any(r["v"] >= 100 for r in pm["refs"]):
                ante["saves_with_object_refs"] += 1
            if e["op"] == "close" and nspec_post < nspec_pre:
                ante["closes_ending_specs"] += 1
            if e["op"] == "update" and e["res"] == "ok" and e["old"] != e["new"] and \
                    any(s["v"] == e["new"] for s in post["M"][e["m"]]["specs"]):
                ante["updates_moving_a_spec"] += 1
            prev = post
    for k in ("events_where_a_spec_ended", "events_where_a_spec_began", "rejected_events",
              "saves_with_live_specs", "closes_ending_specs", "updates_moving_a_spec",
              "states_with_two_specs_in_a_model", "states_with_specs_in_two_models",
              "states_with_derived_ref_to_spec_value", "object_bound",
              "object_bound_at_model_level", "spec_ended_by_rebinding_to_object",
              "object_ref_rebound_to_value", "object_ref_deleted:defined:ok",
              "states_with_derived_object_ref", "saves_with_object_refs"):
        if not ante[k] and not res["violations"]:
            res["machinery_failure"] = "vacuous run: %s never happened" % k

    cov = {
        "states": mc_states + stats["states"],
        "transitions": mc_trans + stats["transitions"],
        "traces_validated_against_impl": len(traces),
        "random_histories": len(rtraces),
        "model_enumerated_histories": enumerated,
        "model_enumerated_histories_replayed": len(mtraces),
        "evaluations": sum(len(t["ev"]) for t in traces),
        "distinct_nontrivial": len(nontrivial),
        "distinct_cases": len(hashes),
        "rule": "one case = (initial configuration, operation history); distinct by SHA-1 of both; "
                "non-trivial = at least one accepted spec creation followed or preceded by a "
                "reference/base/model edit or a save",
        "samples": [sample_of(t) for t in (rtraces[:1] + mtraces[:1])],
        "operation_kinds": dict(opk),
        "operation_outcomes": dict(outcomes),
        "labels_raised": dict(labels_seen),
        "antecedents": dict(ante),
        "design_model_check": [{k: r.get(k) for k in ("cfg", "instance", "complete_state_space", "states",
                                                       "transitions", "depth", "wall_s", "ok",
                                                       "model_outcomes")}
                               for r in mcs],
        "impl_model_agreement": {
            "traces_without_drift": len(traces) - drift_traces, "traces": len(traces),
            "replayed_histories_with_predicted_labels_confirmed": agree,
            "replayed_histories": len(mtraces)},
        "negative_controls": nc,
        "wall": {"random_s": round(t_rand, 1), "mc_s": round(t_mc, 1),
                 "trace_tlc_s": round(stats["tlc_wall_s"], 1)},
        "exhaustive": False,
    }
    res["coverage"] = cov
    res["summary"] = "mc_states=%d traces=%d (random %d, model-enumerated %d) events=%d drift_traces=%d neg=%d/%d" % (
        mc_states, len(traces), len(rtraces), len(mtraces), cov["evaluations"], drift_traces,
        nc["rejected"], nc["attempted"])
    return res


def replay(pid, path):
    from . import iospec_world as iw
    rec = json.load(open(path))
    tr = iw.run_case({"init": rec["init"], "ops": rec["ops"], "src": rec.get("src", "replay"),
                      "seed": rec.get("seed") or 0})
    vs, _ = judge([tr], procs=1)
    v = vs[0]
    res = {"level": LEVEL[pid], "violations": [], "coverage": {}}
    for lab, l in sorted(v["viol"], key=lambda x: x[1]):
        if is_property_label(lab):
            res["violations"].append({"label": lab, "line": l, "replay": path})
    res["summary"] = "replayed %d events, labels=%r" % (v["total"], v["viol"])
    if v["matched"] != v["total"]:
        res["machinery_failure"] = "replay consumed %d of %d events" % (v["matched"], v["total"])
    return res
