"""C15 driver: programs -> live model -> model.export() -> package queried without modelx.

Everything that touches the real library for C15 lives here:

  make_program(kind, seed)     seeded program of one of the three worlds (static / inheritance /
                               dynamic), restricted to the export subset, plus decorations
                               (pickled reference values, global names shadowing built-ins)
  variants_of(defs, seed, n)   which syntactic templates (harness/export_templates.py) the formulas
                               are rendered with
  run_batch(jobs)              builds every (program, variant) with harness.world.World, evaluates
                               every element in the live model, exports it (and the same program
                               with all cached flags flipped), queries all packages of the batch in
                               ONE subprocess in which modelx cannot be imported
                               (harness/export_child.py), and returns one trace per
                               (program, variant) for spec/MxExportTrace.tla.

No expected value is computed here: the oracle is MxSem.Den, evaluated by TLC.
"""
import copy
import inspect
import json
import numbers
import os
import random
import shutil
import subprocess
import sys
import tempfile
import time

if os.environ.get("VERIF_REPO"):          # mutation testing: import modelx from a scratch copy
    sys.path.insert(0, os.environ["VERIF_REPO"])

from . import export_templates as xt

HERE = os.path.dirname(os.path.abspath(__file__))
CHILD = os.path.join(HERE, "export_child.py")
KINDS = ["static", "inh", "dyn"]
KEYS = [0, 1, 2]
MAX_QUERIES = 64

# global names that shadow built-ins: references / cells are renamed to these
# (never sum / len / int / range: the templates use those as the real built-ins)
BUILTIN_REF_NAMES = ["max", "min", "abs", "all"]
BUILTIN_CELL_NAMES = ["pow", "hash", "id"]


# ---------------------------------------------------------------------------
# programs

def _rename(defs, mapping):
    """Rename global names (cells / references) consistently in a definitions record."""
    if not mapping:
        return defs
    R = lambda n: mapping.get(n, n)
    d = defs
    d["sigs"] = {R(k): v for k, v in d.get("sigs", {}).items()}
    for row in d["cells"]:
        row[1] = {R(k): v for k, v in row[1].items()}
    for row in d["refs"]:
        row[1] = {R(k): v for k, v in row[1].items()}
        for r in row[1].values():
            if r["v"][0] == "ce":
                r["v"][3] = R(r["v"][3])
    d["grefs"] = {R(k): v for k, v in d["grefs"].items()}
    for r in d["grefs"].values():
        if r["v"][0] == "ce":
            r["v"][3] = R(r["v"][3])
    for f in d["flib"].values():
        for op in f["ops"]:
            if op[0] in ("call", "read", "icall"):
                op[1] = [R(x) for x in op[1]]
            if op[0] == "icall":
                op[3] = R(op[3])
    return d


def all_names(defs):
    out = set()
    for p in defs["sp"]:
        out.update(p)
    for _, cs in defs["cells"]:
        out.update(cs)
    for _, rs in defs["refs"]:
        out.update(rs)
    out.update(defs["grefs"])
    for f in defs["flib"].values():
        out.update(p[0] for p in f["ps"])
        out.update(f.get("refs", {}))
    return out


def _rank(name):
    if name[:1] == "c" and name[1:].isdigit():
        return int(name[1:])
    return "xyzwv".index(name) if name in "xyzwv" else 99


def _attr_like_global(defs, rng, calls=True):
    """Attribute access whose attribute is spelled like a global name of the space: a reference
    `n` of space S' is bound to another space T' that has a member (cells or integer reference)
    also called `n`, and a formula of S' uses `n.n` / `n.n(...)`.  The transformer must rewrite
    the object (self.n) and leave the attribute alone (transformer.py, visit_Attribute /
    leave_Name).  Returns [[owner path, n, "read" | "call", user cells]] (at most one)."""
    cells_at = {tuple(q): cs for q, cs in defs["cells"]}
    refs_at = {tuple(q): rs for q, rs in defs["refs"]}
    bases_at = {tuple(q): [tuple(b) for b in bs] for q, bs in defs["bases"]}
    spaces = [tuple(q) for q in defs["sp"]]

    def ancestors(q):
        out, todo = set(), list(bases_at.get(q, []))
        while todo:
            b = todo.pop()
            if b not in out:
                out.add(b)
                todo += bases_at.get(b, [])
        return out

    def members(q):
        return set(cells_at[q]) | set(refs_at[q]) | {t[-1] for t in spaces if t[:-1] == q}
    cands = []
    for owner in spaces:
        family = {owner} | {t for t in spaces if owner in ancestors(t)}      # owner and its subs
        family |= set().union(*[ancestors(q) for q in family])               # and all they derive from
        taken = set().union(*[members(q) for q in family])
        used = set()
        for q in family:
            for crec in cells_at[q].values():
                for op in defs["flib"][crec["f"]]["ops"]:
                    if op[0] in ("call", "read", "icall"):
                        used.update(op[1])
        for tgt in spaces:
            if tgt in family:
                continue
            for n in (sorted(cells_at[tgt]) if calls else []):
                if n not in taken and n not in used and n not in defs["grefs"]:
                    users = [c for c in sorted(cells_at[owner]) if _rank(c) > _rank(n)]
                    if users:
                        cands.append((owner, tgt, n, "call", users))
            for n, r in sorted(refs_at[tgt].items()):
                if r["v"][0] == "int" and n not in taken and n not in used and n not in defs["grefs"] \
                        and cells_at[owner]:
                    cands.append((owner, tgt, n, "read", sorted(cells_at[owner])))
    if not cands:
        return []
    owner, tgt, n, how, users = rng.choice(cands)
    refs_at[owner][n] = {"v": ["sp", list(tgt), [], ""], "mode": rng.choice(["auto", "absolute"])}
    user = rng.choice(users)
    crec = cells_at[owner][user]
    f = copy.deepcopy(defs["flib"][crec["f"]])
    if how == "call":
        op = ["call", [n, n], [["c", rng.choice([0, 1])] for _ in defs["sigs"][n]], "pos"]
    else:
        op = ["read", [n, n]]
    f["ops"].insert(rng.randrange(1, len(f["ops"]) + 1), op)
    defs["flib"]["Z1"] = f
    crec["f"] = "Z1"
    return [[list(owner), n, how, user]]


def make_program(kind, seed, extra=()):
    """Definitions record (JSON form of MxSem's D + flib + sigs + "deco") of a seeded program in
    the export subset.  `extra` may contain "sub" / "pfrefs" to switch on features outside it."""
    from .gen import Gen
    from .gen_inh import GenInh
    from .gen_dyn import GenDyn
    rng = random.Random(seed * 9176 + 11)
    if kind == "static":
        with_none = rng.random() < 0.3
        g = Gen(seed, p_raise=0.06, p_none=0.06 if with_none else 0.0, p_catch=0.08,
                p_uncached=0.3, p_lambda=0.3, obj_refs=True)
        defs = g.program()
        if with_none:
            defs["an"] = True        # the package has no None check: None must be an allowed value
    elif kind == "inh":
        g = GenInh(seed, p_uncached=0.3)
        g.program()
        for _ in range(rng.choice([0, 1, 2, 3])):      # object-valued references in the three modes
            op = g.mk_set_ref()
            if op:
                g.update(op, "ok")
        defs = g.defs_json()
    else:
        g = GenDyn(seed, p_uncached=0.3)
        defs = g.program()
    defs = copy.deepcopy(defs)
    nested_kind, attr_like = "", []
    if kind == "dyn":
        nf = [0]
        inner = "q"
        pf_rows = {tuple(q): row for row in defs["pf"] for q in [row[0]]}
        if ("P", "Q") in pf_rows:
            # Outer[a].Inner[b]: the parameter of the inner space has its own name (q) or THE SAME
            # name as the outer one (p): the inner argument then shadows the outer one in
            # Inner[b] and in its static child spaces (exporter.py:406-432: the parameters of the
            # enclosing roots are copied first, then the own ones are assigned)
            nested_kind = "same_name" if rng.random() < 0.5 else "distinct_names"
            if nested_kind == "same_name":
                inner = "p"
                f = copy.deepcopy(defs["flib"][pf_rows[("P", "Q")][1]])
                f["ps"] = [["p", 0, 0]]
                defs["flib"]["Y1"] = f
                pf_rows[("P", "Q")][1] = "Y1"
            if rng.random() < 0.8:
                # a static child of the inner space whose formula reads the parameters
                d = ["P", "Q", "D"]
                defs["sp"].append(d)
                defs["bases"].append([d, []])
                defs["refs"].append([d, {}])
                defs["span"].append([d, 0])
                ops = [["const", rng.choice([4, 6, 9])], ["read", ["p"]]]
                if inner != "p":
                    ops.insert(rng.choice([1, 2]), ["read", [inner]])
                defs["flib"]["Y2"] = {"ps": [], "ops": ops, "catch": False, "onerr": 900, "style": "def"}
                defs["cells"].append([d, {"v": {"f": "Y2", "an": 0, "cached": rng.random() < 0.7}}])
                defs["sigs"]["v"] = []
                nested_kind += "+child"
        # the children of an instance and the nested instances see the parameters of the
        # enclosing ItemSpaces (_mx_copy_params / _mx_assign_params): make a share of their
        # formulas read them
        for path, cs in defs["cells"]:
            if path[:1] == ["P"] and len(path) == 2:
                for cn, crec in cs.items():
                    if rng.random() < 0.6:
                        f = copy.deepcopy(defs["flib"][crec["f"]])
                        names = [["p"]] + ([[inner]] if tuple(path) in pf_rows and inner != "p" else [])
                        for nm in names:
                            f["ops"].insert(rng.randrange(1, len(f["ops"]) + 1), ["read", nm])
                        nf[0] += 1
                        fid = "X%d" % nf[0]
                        defs["flib"][fid] = f
                        crec["f"] = fid
        # object-valued references into the tree of P in the three modes, USED in a way that
        # tells the instance from the base (exporter.py:220-247, ref_copies): `o.p` is the
        # argument of the instance when o is re-bound into it, a NameError when o stays the base
        cells_at = {tuple(q): cs for q, cs in defs["cells"]}
        refs_at = {tuple(q): rs for q, rs in defs["refs"]}
        if rng.random() < 0.75:
            tgts = [["sp", ["P"], [], ""], ["sp", ["P", "C"], [], ""]]
            if "x" in cells_at[("P",)]:
                tgts.append(["ce", ["P"], [], "x"])
            tgt = rng.choice(tgts)
            refs_at[("P",)]["o"] = {"v": tgt, "mode": rng.choice(["auto", "relative", "absolute"])}
            users = [(q, c) for q in (("P",), ("P", "C"), ("P", "Q")) if q in cells_at
                     for c in cells_at[q] if c != "x"]
            for q, c in rng.sample(users, min(len(users), rng.choice([1, 2]))):
                crec = cells_at[q][c]
                f = copy.deepcopy(defs["flib"][crec["f"]])
                if tgt[0] == "ce":
                    op = ["call", ["o"], [["c", rng.choice([0, 1])] for _ in defs["sigs"]["x"]], "pos"]
                elif tgt[1] == ["P"] and "x" in cells_at[("P",)] and rng.random() < 0.5:
                    op = ["call", ["o", "x"], [["c", rng.choice([0, 1])] for _ in defs["sigs"]["x"]], "pos"]
                else:
                    op = ["read", ["o", "p"]]
                f["ops"].insert(rng.randrange(1, len(f["ops"]) + 1), op)
                nf[0] += 1
                fid = "X%d" % nf[0]
                defs["flib"][fid] = f
                crec["f"] = fid
    if kind in ("inh", "dyn") and rng.random() < 0.7:
        # the formulas of these worlds read r / s / g / u wherever they stand; a model-level
        # reference of that name makes the read succeed where no space-level one shadows it
        # (otherwise more than half of all elements end in a NameError before the later ops run)
        names = [("r", 40), ("s", 50), ("g", 70), ("u", 90)]
        if kind == "dyn":
            # also names of ItemSpace parameters: inside an instance the argument shadows the
            # model-level reference (exporter.py:406-432: references are copied first, then
            # the parameters are assigned), in the base space the reference is read
            # (less often: such a reference also hides a lost parameter, because the value of
            #  the enclosing instance's attribute is then copied along with the references)
            names += [("p", 20), ("pp", 60), ("q", 30)]
        for nm, v in names:
            if nm not in defs["grefs"] and rng.random() < (0.3 if nm in ("p", "pp", "q") else 0.75):
                defs["grefs"][nm] = {"v": ["int", v, [], ""]}
        if kind == "dyn":
            # the object-valued reference of P is also defined in its plain child space.
            # (Not in the parametrised child Q: for a reference DEFINED in Q that points into P's
            #  tree but outside Q, the live model binds P[1].Q[2].o to the STATIC target (P.C)
            #  although P[1].Q.o is P[1].C; MxSem.DynRebind and the exported package both say
            #  P[1].C.  That disagreement is between the model and the oracle (C10 territory),
            #  not about export -- reported to the coordinator, not generated here.)
            refs_at = {tuple(q): rs for q, rs in defs["refs"]}
            if "o" in refs_at[("P",)] and ("P", "C") in refs_at and rng.random() < 0.7:
                refs_at[("P", "C")]["o"] = copy.deepcopy(refs_at[("P",)]["o"])
    if kind in ("static", "inh") and rng.random() < 0.6:
        # (inheritance world: `n.n` reads only -- its formulas reach members of other spaces by
        #  name whether they exist or not, and CALLING what has become a space-valued reference
        #  is an AttributeError in the model but a TypeError for the oracle and the package)
        attr_like = _attr_like_global(defs, rng, calls=(kind == "static"))
    # --- restriction to the export subset (see ASSUMPTIONS in eng_export.py) ---
    for f in defs["flib"].values():
        if "pfrefs" not in extra and f.get("style") == "pf":
            # a parameter formula returns None: no {'refs': ...}, no {'base': ...} (the exporter
            # reads the signature of a parameter formula only, exporter.py:520-544)
            for k in [k for k in f if k not in ("ps", "ops", "catch", "onerr", "style")]:
                del f[k]
        for op in f["ops"]:
            if op[0] in ("call", "read", "icall"):
                op[1] = ["_space" if x == "_self" else x for x in op[1]]      # _self is deprecated
            if op[0] == "call" and op[3] in ("sub", "value") and "sub" not in extra:
                op[3] = rng.choice(["pos", "kw"])     # exported cells are plain methods
    # --- decorations ---
    deco = {"kind": kind, "seed": seed, "pickled": [], "renamed": {}, "nested": nested_kind,
            "attr_like_global": attr_like, "modules": ["datetime"]}
    if rng.random() < 0.5:
        names = all_names(defs)
        # A renamed name must resolve wherever a formula uses it (the oracle knows no built-ins:
        # an unresolvable `r` is a NameError, an unresolvable `max` is the built-in).  The static
        # generator only uses names that exist; in the other worlds only model-level references
        # are visible everywhere.
        grefs = {n for n, r in defs["grefs"].items() if r["v"][0] == "int"}
        refs = sorted(({n for _, rs in defs["refs"] for n, r in rs.items() if r["v"][0] == "int"}
                       if kind == "static" else set()) | grefs)
        cells = sorted({n for _, cs in defs["cells"] for n in cs}) if kind == "static" else []
        mapping = {}
        pool = [b for b in BUILTIN_REF_NAMES if b not in names]
        rng.shuffle(pool)
        for n in rng.sample(refs, min(len(refs), rng.choice([1, 2]))):
            if pool and n not in cells:
                mapping[n] = pool.pop()
        pool = [b for b in BUILTIN_CELL_NAMES if b not in names]
        if cells and pool and rng.random() < 0.6:
            c = rng.choice(cells)
            # (a cells name that is also a reference name somewhere keeps its name)
            if c not in refs and c not in mapping:
                mapping[c] = rng.choice(pool)
        defs = _rename(defs, mapping)
        deco["renamed"] = mapping
    for p, rs in defs["refs"]:
        for n, r in sorted(rs.items()):
            if r["v"][0] == "int" and rng.random() < 0.35:
                deco["pickled"].append([p, n])
    for n, r in sorted(defs["grefs"].items()):
        if r["v"][0] == "int" and rng.random() < 0.35:
            deco["pickled"].append([[], n])
    defs["deco"] = deco
    return defs


def flipped(defs):
    d = copy.deepcopy(defs)
    for _, cs in d["cells"]:
        for rec in cs.values():
            rec["cached"] = not rec["cached"]
    return d


def variants_of(defs, seed, tier="quick", only=None):
    """Template assignments: [{"name":..., "tmap": [[path, cells, template]...], "pick": k,
    "flip": bool}].  "plain" first; then uniform templates rotating with the seed; then "mixed"
    (every defined cells its own template).  `flip`: also export with all cached flags flipped."""
    rng = random.Random(seed * 31 + 7)
    cells = [(p, c) for p, cs in defs["cells"] for c in sorted(cs)]
    T = [t for t in xt.TEMPLATES if t != "plain"]
    if only:
        names = list(only)
    elif tier == "all":
        names = ["plain"] + T + ["mixed"]
    else:
        k = seed % len(T)
        names = ["plain", T[k], T[(k + len(T) // 2) % len(T)], "mixed"]
    out = []
    for nm in names:
        if nm == "mixed":
            tmap = [[p, c, rng.choice(xt.TEMPLATES)] for p, c in cells]
        else:
            tmap = [[p, c, nm] for p, c in cells]
        flib = defs["flib"]
        syn = [[p, c, ft] for p, c, t in tmap
               for ft in xt.features(flib[dict((tuple(q), cs) for q, cs in defs["cells"])[tuple(p)][c]["f"]], t)]
        out.append({"name": nm, "tmap": tmap, "pick": rng.randrange(100), "syn": syn,
                    "flip": nm in ("plain", "mixed") or tier == "all"})
    return out


# ---------------------------------------------------------------------------
# the live model

def _world_class():
    from .world import World

    class TWorld(World):
        """World whose formulas are rendered through a template assignment."""

        def __init__(self, defs, variant):
            self._tmap = {(tuple(p), c): t for p, c, t in variant["tmap"]}
            self._ctx = {"globals": sorted(all_names(defs)), "pick": variant.get("pick", 0),
                         "modules": list(defs["deco"].get("modules", []))}
            self.texts = {}
            super().__init__(defs)

        def _new_cells(self, sp, cname, crec):
            path = tuple(sp.fullname.split(".")[1:])
            tname = self._tmap.get((path, cname), "plain")
            text = xt.render_t(self.flib[crec["f"]], cname, self.sigs, tname, self._ctx)
            self.texts["%s.%s" % (".".join(path), cname)] = [tname, text]
            c = sp.new_cells(cname, text, is_cached=crec.get("cached", True))
            if crec.get("an", 0):
                c.allow_none = (crec["an"] == 2)
            return c
    return TWorld


def enc_val(v):
    if v is None:
        return -2
    if isinstance(v, bool):
        return int(v)
    if isinstance(v, numbers.Integral):
        return int(v)
    return -9999


def _sig(func):
    ps = list(inspect.signature(func).parameters.values())
    names = [p.name for p in ps]
    nreq = sum(1 for p in ps if p.default is inspect.Parameter.empty)
    return names, nreq


def _arg_tuples(names, nreq):
    """Argument tuples over keys 0..2 (second parameter 0..1), incl. the spelling that relies on
    the default."""
    n = len(names)
    if n == 0:
        return [[]]
    if n == 1:
        out = [[k] for k in KEYS]
        return out + ([[]] if nreq == 0 else [])
    out = [[k, j] for k in KEYS for j in (0, 1)]
    if nreq < n:
        out += [[k] for k in KEYS]
    return out


def enumerate_queries(w, rng):
    """Every cells x argument tuples of every static space, of ItemSpaces for keys 0..2 (incl.
    nested ones) and of the children of instances -- enumerated from the live model."""
    qs = []

    def cells_of(space, path, steps, klass):
        for cn, c in space.cells.items():
            names, nreq = _sig(c.formula.func)
            for i, args in enumerate(_arg_tuples(names, nreq)):
                sp = "kw" if (args and (i + len(qs)) % 3 == 2) else "pos"
                qs.append({"path": list(path), "steps": copy.deepcopy(steps), "cells": cn,
                           "args": args, "sp": sp, "names": names, "class": klass})

    def walk(space, path, steps, depth):
        dyn = any(st[0] == "i" for st in steps)
        derived = any(c._is_derived() for c in space.cells.values()) if not dyn else False
        klass = (("nested_child" if steps[-1][0] == "c" else "nested")
                 if sum(1 for st in steps if st[0] == "i") > 1 else
                 "instance_child" if dyn and steps[-1][0] == "c" else
                 "instance" if dyn else "derived" if derived else "static")
        cells_of(space, path, steps, klass)
        if space.formula is not None and depth < 2 and not (steps and steps[-1][0] == "i"):
            names, nreq = _sig(space.formula.func)
            for i, args in enumerate(_arg_tuples(names, nreq)):
                if not args:
                    continue
                spell = ("call", "sub", "kw")[i % 3]
                try:
                    item = _call_spelled(space, args, spell, names)
                except Exception:
                    continue          # the model itself cannot create this instance
                walk(item, path, steps + [["i", "", args, spell, names]], depth + 1)
        for nm, ch in space.named_spaces.items():
            if dyn:
                walk(ch, path, steps + [["c", nm, [], "", []]], depth)
            else:
                walk(ch, list(path) + [nm], [], depth)

    for nm, s in w.m.spaces.items():
        walk(s, [nm], [], 0)
    if len(qs) > MAX_QUERIES:
        # keep every class represented: sample within classes proportionally, at least 12 each
        by = {}
        for q in qs:
            by.setdefault(q["class"], []).append(q)
        keep = []
        share = MAX_QUERIES // len(by)
        for k in sorted(by):
            lst = by[k]
            rng.shuffle(lst)
            keep += lst[:max(8, share)]
        ids = {id(q) for q in keep}
        qs = [q for q in qs if id(q) in ids]
    return qs


def _call_spelled(obj, args, sp, names):
    if sp == "kw":
        return obj(**{names[i]: a for i, a in enumerate(args)})
    if sp == "sub":
        return obj[tuple(args)] if len(args) != 1 else obj[args[0]]
    return obj(*args)


def eval_live(w, q):
    import modelx as mx
    from modelx.core.errors import FormulaError
    from .world import exc_code
    try:
        obj = w.m
        for nm in q["path"]:
            obj = obj.spaces[nm] if obj is w.m else obj.named_spaces[nm]
        for st in q["steps"]:
            if st[0] == "i":
                obj = _call_spelled(obj, st[2], st[3], st[4])
            else:
                obj = obj.named_spaces[st[1]]
        c = obj.cells[q["cells"]]
        return enc_val(_call_spelled(c, q["args"], q["sp"], q["names"]))
    except FormulaError:
        return exc_code(mx.get_error())
    except Exception as e:
        return exc_code(e)


def _install_pickled(w, defs):
    """Replace the literal value of the chosen integer references by an object that export has to
    pickle (numpy.int64 and IntEnum members are not literals; they behave like the integer)."""
    import importlib
    import numpy as np
    # module-valued model-level references (not part of D: no op of the oracle's grammar reads
    # them; the template attr_module uses them with a contribution of 0); export writes them as
    # _mx_sys.import_module('<name>') (exporter.py:262-265)
    for mod in defs["deco"].get("modules", []):
        setattr(w.m, mod, importlib.import_module(mod))
    refs = {tuple(p): rs for p, rs in defs["refs"]}
    import signal

    def obj(v, i):
        # every second one: an instance of a SUBCLASS of int (a member of the standard library's
        # IntEnum signal.Signals) -- not a literal either: type(value) is not int
        if i % 2 == 1:
            try:
                return signal.Signals(v)
            except ValueError:
                pass
        return np.int64(v)
    for i, (p, n) in enumerate(defs["deco"]["pickled"]):
        if p:
            r = refs[tuple(p)][n]
            w.space(p).set_ref(n, obj(r["v"][1], i), r["mode"])
        else:
            setattr(w.m, n, obj(defs["grefs"][n]["v"][1], i))


def build_export(defs, variant, outdir, pkg, want_live=True, rng=None, queries=None):
    """Build the live model, (evaluate it,) export it.  Returns a dict with queries / live values
    / texts / export status."""
    TWorld = _world_class()
    rec = {"built": False, "exported": False, "err": "", "queries": queries, "live": [],
           "texts": {}, "flags_ok": True}
    w = None
    try:
        try:
            w = TWorld(defs, variant)
            _install_pickled(w, defs)
            rec["built"] = True
            rec["texts"] = w.texts
        except Exception as e:
            rec["err"] = "build: %s: %s" % (type(e).__name__, e)
            return rec
        # the flags of the model are the flags of the definitions
        for p, cs in defs["cells"]:
            for c, crec in cs.items():
                if bool(w.space(p).cells[c].is_cached) != bool(crec["cached"]):
                    rec["flags_ok"] = False
        if queries is None:
            rec["queries"] = queries = enumerate_queries(w, rng or random.Random(0))
        if want_live:
            rec["live"] = [eval_live(w, q) for q in queries]
        try:
            w.m.export(os.path.join(outdir, pkg))
            rec["exported"] = True
        except Exception as e:
            import traceback
            rec["err"] = "export: %s: %s\n%s" % (type(e).__name__, e, traceback.format_exc()[-1200:])
    finally:
        if w is not None:
            w.close()
    return rec


# ---------------------------------------------------------------------------
def run_child(packages, timeout=900):
    """packages: [{"dir", "pkg", "queries"}] -> result of harness/export_child.py"""
    d = tempfile.mkdtemp(prefix="mxv_c15job_")
    try:
        jf, rf = os.path.join(d, "job.json"), os.path.join(d, "res.json")
        json.dump({"packages": packages}, open(jf, "w"))
        env = {k: v for k, v in os.environ.items() if not k.startswith("PYTHON")}
        p = subprocess.run([sys.executable, "-I", CHILD, jf, rf], capture_output=True, text=True,
                           timeout=timeout, env=env, cwd=d)
        if p.returncode != 0 or not os.path.exists(rf):
            raise RuntimeError("export_child failed rc=%s\n%s" % (p.returncode, (p.stdout + p.stderr)[-3000:]))
        return json.load(open(rf))
    finally:
        shutil.rmtree(d, ignore_errors=True)


def _strip(q):
    return {k: q[k] for k in ("path", "steps", "cells", "args", "sp", "names")}


def run_batch(jobs):
    """jobs: [{"defs":..., "variant":...}]  ->  [trace]   (one subprocess for the whole batch)"""
    root = tempfile.mkdtemp(prefix="mxv_c15_")
    try:
        recs, packages = [], []
        for i, job in enumerate(jobs):
            defs, variant = job["defs"], job["variant"]
            rng = random.Random(defs["deco"]["seed"] * 7 + 3)
            d = os.path.join(root, "p%d" % i)
            os.makedirs(d)
            r = build_export(defs, variant, d, "pk%d" % i, rng=rng, queries=job.get("queries"))
            r["slot"] = r["fslot"] = None
            if r["exported"]:
                r["slot"] = len(packages)
                packages.append({"dir": d, "pkg": "pk%d" % i, "queries": [_strip(q) for q in r["queries"]]})
            rf = None
            if variant.get("flip") and r["built"]:
                df = os.path.join(root, "f%d" % i)
                os.makedirs(df)
                rf = build_export(flipped(defs), variant, df, "fk%d" % i, want_live=False,
                                  queries=r["queries"])
                if rf["exported"]:
                    r["fslot"] = len(packages)
                    packages.append({"dir": df, "pkg": "fk%d" % i,
                                     "queries": [_strip(q) for q in r["queries"]]})
            recs.append((job, r, rf))
        res = run_child(packages) if packages else {"packages": [], "modelx_loaded": []}
        return [assemble(job, r, rf, res) for job, r, rf in recs]
    finally:
        shutil.rmtree(root, ignore_errors=True)


def assemble(job, r, rf, res):
    """One trace for spec/MxExportTrace.tla: header = definitions, events = the export event and
    one event per queried element."""
    defs, variant = job["defs"], job["variant"]
    hdr = {"init": defs, "kind": defs["deco"]["kind"], "seed": defs["deco"]["seed"],
           "variant": variant["name"], "tmap": variant["tmap"], "pick": variant.get("pick", 0),
           "syn": variant.get("syn", []),
           "flip": bool(variant.get("flip")), "built": r["built"], "builderr": r["err"] if not r["built"] else ""}
    aux = {"texts": r["texts"]}
    if not r["built"]:
        return {"hdr": hdr, "ev": [], "aux": aux}
    pk = res["packages"][r["slot"]] if r["slot"] is not None else None
    fk = res["packages"][r["fslot"]] if r["fslot"] is not None else None
    hasf = bool(variant.get("flip"))
    ev0 = {"op": "export", "exported": r["exported"],
           "imported": bool(pk and pk["imported"]),
           "hasf": hasf,
           "fexported": bool(rf and rf["exported"]) if hasf else True,
           "fimported": bool(fk and fk["imported"]) if hasf else True,
           "nomodelx": not res["modelx_loaded"],
           "flagsok": bool(r["flags_ok"] and (rf["flags_ok"] if rf else True)),
           "err": (r["err"] or (pk["err"] if pk else "") or (rf["err"] if rf else "")
                   or (fk["err"] if fk else ""))[:2000]}
    ev0["errkind"] = ev0["err"].split(":")[0] if ev0["err"] else ""
    evs = [ev0]
    if pk and pk["imported"]:
        fok = bool(fk and fk["imported"])
        for i, q in enumerate(r["queries"]):
            evs.append({"op": "query", "c": [q["path"], [st[:3] for st in q["steps"]], q["cells"]],
                        "args": q["args"], "sp": q["sp"], "isp": [st[3] for st in q["steps"]],
                        "class": q["class"],
                        "live": r["live"][i], "pkg": pk["vals"][i], "pkg2": pk["vals2"][i],
                        "hasf": fok,
                        "pkgf": fk["vals"][i] if fok else pk["vals"][i],
                        "pkgf2": fk["vals2"][i] if fok else pk["vals"][i],
                        "pe": pk["errs"][i][:300]})
    return {"hdr": hdr, "ev": evs, "aux": aux}


def replay_case(case):
    """Re-execute a saved case {"defs", "variant", "queries"} on the current tree."""
    return run_batch([{"defs": case["defs"], "variant": case["variant"],
                       "queries": case.get("queries")}])[0]
