"""Observation of formula execution without touching modelx or the formulas.

Uses sys.monitoring (Python 3.12): PY_START / PY_RETURN are enabled per formula
code object, PY_UNWIND globally (it cannot be set locally) and filtered.  The
element a frame belongs to is recovered from the frame itself: its globals are
the namespace of the (possibly dynamic) space, so `_space` identifies the space;
the cells is the one in that space whose formula owns the code object.
"""
import sys

mon = sys.monitoring
TOOL = 4  # free tool id (0..5); 4 is not claimed by debugger/coverage/profiler


class FormulaRecorder:
    def __init__(self, node_of_frame):
        """node_of_frame(space_interface, code, frame_locals) -> node json or None."""
        self.node_of_frame = node_of_frame
        self.codes = {}     # id(code) -> code (code objects compare by value: key by identity)
        self.fx = []
        self.active = False
        self.stack = []   # (frame id, node)
        self.frames = {}  # frame id -> node (frames entered in this operation; last wins)
        self.chain = None  # formula frames in the traceback of the last exception that
                           # left an outermost formula frame: [[node, line], ...] outermost first

    def start(self):
        try:
            mon.use_tool_id(TOOL, "mxverif")
        except ValueError:
            mon.free_tool_id(TOOL)
            mon.use_tool_id(TOOL, "mxverif")
        E = mon.events
        mon.register_callback(TOOL, E.PY_START, self._on_start)
        mon.register_callback(TOOL, E.PY_RETURN, self._on_return)
        mon.register_callback(TOOL, E.PY_UNWIND, self._on_unwind)
        mon.set_events(TOOL, E.PY_UNWIND)
        self.active = True

    def stop(self):
        if not self.active:
            return
        E = mon.events
        mon.set_events(TOOL, 0)
        for code in self.codes.values():
            try:
                mon.set_local_events(TOOL, code, 0)
            except Exception:
                pass
        for ev in (E.PY_START, E.PY_RETURN, E.PY_UNWIND):
            mon.register_callback(TOOL, ev, None)
        mon.free_tool_id(TOOL)
        self.codes.clear()
        self.active = False

    def watch(self, code):
        if id(code) not in self.codes:
            self.codes[id(code)] = code
            E = mon.events
            mon.set_local_events(TOOL, code, E.PY_START | E.PY_RETURN)

    def take(self):
        out, self.fx = self.fx, []
        self.stack = []
        self.frames = {}
        return out

    def take_chain(self):
        out, self.chain = self.chain, None
        return out

    # -- callbacks ---------------------------------------------------------
    def _on_start(self, code, offset):
        if id(code) not in self.codes:
            return mon.DISABLE
        frame = sys._getframe(1)
        if frame.f_code is not code:
            return
        sp = frame.f_globals.get("_space")
        if sp is None:
            return
        try:
            node = self.node_of_frame(sp, code, frame.f_locals)
        except Exception as e:  # never let observation disturb the run
            node = None
        if node is None:
            return
        self.stack.append((id(frame), node))
        self.frames[id(frame)] = node
        self.fx.append(["enter", node])

    def _on_return(self, code, offset, retval):
        if id(code) not in self.codes:
            return mon.DISABLE
        frame = sys._getframe(1)
        if self.stack and self.stack[-1][0] == id(frame):
            _, node = self.stack.pop()
            self.fx.append(["exit", node, retval])

    def _on_unwind(self, code, offset, exc):
        if id(code) not in self.codes:
            return
        frame = sys._getframe(1)
        if self.stack and self.stack[-1][0] == id(frame):
            _, node = self.stack.pop()
            self.fx.append(["unwind", node, type(exc).__name__, frame.f_lineno])
            if not self.stack:
                # the interpreter's own account of the escaping exception: the formula
                # frames its traceback lists (frames in a traceback are alive, so their
                # ids are unambiguous among the frames entered in this operation)
                chain, tb = [], exc.__traceback__
                while tb is not None:
                    f = tb.tb_frame
                    if id(f.f_code) in self.codes and id(f) in self.frames:
                        chain.append([self.frames[id(f)], tb.tb_lineno])
                    tb = tb.tb_next
                if not chain or chain[0][0] != node:
                    chain.insert(0, [node, frame.f_lineno])   # (entry of this frame not added yet)
                self.chain = chain
