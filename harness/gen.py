"""Seeded generation of abstract programs (definitions) and operation histories.

The generator keeps a *mirror* of the defined members (bookkeeping only — it
never evaluates anything) so that it can choose operations that make sense.
Termination of every generated formula is by construction: cells names carry a
rank; a formula calls cells of strictly lower rank with arbitrary arguments, or
itself with a strictly smaller first argument (guarded k > 0).
"""
import copy
import random

KEYS = [0, 1, 2, 3]
INT_VALUES = [1, 2, 3, 4, 5, 6]

PROFILES = {
    # weights of operation kinds
    "eval": dict(call=50, set_value=8, clear_at=4, clear=2, clear_all=2, set_ref=12,
                 del_ref=3, set_formula=8, set_cached=4, set_allow_none=1,
                 new_cells=2, del_cells=1),
    "edit": dict(call=35, set_value=6, clear_at=3, clear=2, clear_all=2, set_ref=20,
                 del_ref=8, set_formula=10, set_cached=6, set_allow_none=2,
                 new_cells=4, del_cells=3, del_space=2, rename_space=2),
    "value": dict(call=45, set_value=25, clear_at=15, clear=5, clear_all=5, set_ref=3,
                  set_formula=2, del_space=1),
    "fail": dict(call=60, set_formula=20, set_ref=8, del_ref=6, set_value=4, clear_at=2, trace=2),
    "flags": dict(call=45, set_cached=20, set_ref=12, del_ref=4, set_formula=8,
                  set_value=4, clear_at=2, set_allow_none=3, new_cells=1, del_cells=1,
                  del_space=1, rename_space=2),
}


def tp(p):
    return tuple(p)


class Gen:
    def __init__(self, seed, profile="eval", nspaces=3, ncells=6, p_raise=0.06,
                 p_none=0.05, p_catch=0.08, p_uncached=0.25, p_lambda=0.2,
                 obj_refs=True, allow_catch=True, p_base_exc=0.0, p_rr=0.0, p_chain=0.35):
        self.rng = random.Random(seed)
        self.profile = profile
        self.p_raise, self.p_none, self.p_catch = p_raise, p_none, p_catch
        self.p_uncached, self.p_lambda = p_uncached, p_lambda
        self.p_base_exc = p_base_exc
        self.p_rr = p_rr
        self.p_chain = p_chain
        self.obj_refs = obj_refs
        self.allow_catch = allow_catch
        self.hot = []        # cells whose formulas ran in the most recent call (locality bias)
        self.queue = []      # operations scheduled by scenarios
        self.last_call = None
        self.nf = 0
        self.flib = {}
        self.sigs = {}
        self.rank = {}
        self.refkind = {}
        self.mir = None
        self.nspaces, self.ncells = nspaces, ncells

    # ------------------------------------------------------------------
    def new_fid(self, frec):
        for fid, old in self.flib.items():
            if old == frec:        # identical records render to identical text
                return fid
        self.nf += 1
        fid = "F%d" % self.nf
        self.flib[fid] = frec
        return fid

    def program(self):
        rng = self.rng
        shapes = [
            [["S"], ["T"], ["S", "U"]],
            [["S"], ["T"]],
            [["S"], ["S", "U"], ["S", "U", "V"]],
            [["S"], ["T"], ["T", "W"], ["S", "U"]],
        ]
        sp = rng.choice(shapes)[: max(2, self.nspaces + rng.choice([0, 0, 1]))]
        mir = {"sp": [list(p) for p in sp], "cells": {tp(p): {} for p in sp},
               "refs": {tp(p): {} for p in sp}, "grefs": {}, "bases": {tp(p): [] for p in sp},
               "span": {tp(p): 0 for p in sp}, "an": False, "inp": {}}
        self.mir = mir
        # references: ints per space, some model-level, optionally space-valued
        for p in sp:
            for i in range(rng.choice([0, 1, 1, 2])):
                name = "r%d" % rng.randrange(3)
                self.refkind[name] = "int"
                mir["refs"][tp(p)][name] = {"v": ["int", rng.choice(INT_VALUES), [], ""],
                                            "mode": rng.choice(["auto", "auto", "absolute", "relative"])}
        for i in range(rng.choice([0, 1, 2])):
            name = rng.choice(["g0", "g1", "r0"])
            self.refkind[name] = "int"
            mir["grefs"][name] = {"v": ["int", rng.choice(INT_VALUES) * 10, [], ""]}
        if self.obj_refs and rng.random() < 0.6:
            owner = rng.choice(sp)
            tgt = rng.choice(sp)
            self.refkind["t0"] = "sp"
            mir["refs"][tp(owner)]["t0"] = {"v": ["sp", list(tgt), [], ""],
                                            "mode": rng.choice(["auto", "absolute"])}
        self.chainy = rng.random() < self.p_chain
        cand = [(tp(p), rn) for p in sp for rn, r in mir["refs"][tp(p)].items() if r["v"][0] == "int"]
        self.hot_ref = rng.choice(cand) if cand and rng.random() < 0.7 else None
        # cells names with rank and signature
        n = self.ncells + rng.choice([-1, 0, 1])
        names = ["c%d" % i for i in range(max(2, n))]
        for i, nm in enumerate(names):
            self.rank[nm] = i
            k = rng.random()
            if k < 0.2:
                ps = []
            elif k < 0.8:
                ps = [["i", 0, 0]]
            else:
                ps = [["i", 0, 0], ["j", 1, rng.choice([0, 1])]]
            self.sigs[nm] = ps
        # place cells (same name may live in several spaces)
        for nm in names:
            for p in rng.sample(sp, rng.choice([1, 1, 1, 2])):
                mir["cells"][tp(p)][nm] = None
        # "sandwich" programs: cached, uncached, uncached, cached, ... by rank, so that a cached
        # cells reaches the next cached one through two nested uncached cells
        sandwich = self.chainy and self.p_uncached >= 0.3 and rng.random() < 0.5
        for p in sp:
            for nm in list(mir["cells"][tp(p)]):
                mir["cells"][tp(p)][nm] = {
                    "f": self.formula(p, nm), "an": rng.choice([0, 0, 0, 0, 2]),
                    "cached": (self.rank[nm] % 3 == 0) if sandwich else rng.random() >= self.p_uncached}
        return self.defs_json()

    def defs_json(self):
        m = self.mir
        return {
            "flib": self.flib,
            "sigs": {k: [p[0] for p in v] for k, v in self.sigs.items()},
            "sp": [list(p) for p in m["sp"]],
            "bases": [[list(p), [list(b) for b in m["bases"][tp(p)]]] for p in m["sp"]],
            "cells": [[list(p), copy.deepcopy(m["cells"][tp(p)])] for p in m["sp"]],
            "refs": [[list(p), copy.deepcopy(m["refs"][tp(p)])] for p in m["sp"]],
            "grefs": copy.deepcopy(m["grefs"]),
            "pf": [], "inp": [], "an": m["an"],
            "span": [[list(p), m["span"][tp(p)]] for p in m["sp"]],
        }

    # ------------------------------------------------------------------
    # paths from a space to another space, as a formula would spell them
    def space_paths(self, frm, to):
        frm, to = list(frm), list(to)
        out = []
        if frm == to:
            out += [[], ["_space"], ["_self"]]
        if len(to) == len(frm) + 1 and to[:-1] == frm:
            out += [[to[-1]], ["_space", to[-1]]]
        if len(to) == len(frm) + 2 and to[:-2] == frm:
            out.append([to[-2], to[-1]])
        out.append(["_model"] + to)
        for rn, r in self.mir["refs"][tp(frm)].items():
            if r["v"][0] == "sp" and r["v"][1] == to:
                out.append([rn])
        for rn, r in self.mir["grefs"].items():
            if r["v"][0] == "sp" and r["v"][1] == to and rn not in self.mir["refs"][tp(frm)]:
                out.append([rn])
        return out

    def visible_int_refs(self, frm):
        out = []
        for rn, r in self.mir["refs"][tp(frm)].items():
            if r["v"][0] == "int":
                out.append([rn])
        for rn, r in self.mir["grefs"].items():
            if r["v"][0] == "int" and rn not in self.mir["cells"][tp(frm)]:
                out.append([rn])     # (a sibling cells of that name would shadow it)
        for p in self.mir["sp"]:
            if list(p) == list(frm):
                continue
            for rn, r in self.mir["refs"][tp(p)].items():
                if r["v"][0] == "int":
                    for sp_ in self.space_paths(frm, p):
                        if sp_:
                            out.append(sp_ + [rn])
            for rn, r in self.mir["grefs"].items():
                if r["v"][0] == "int" and rn not in self.mir["cells"][tp(p)]:
                    for sp_ in self.space_paths(frm, p)[:2]:
                        if sp_:
                            out.append(sp_ + [rn])
        return out

    def formula(self, sp, name, force=None):
        rng = self.rng
        ps = self.sigs[name]
        ops = [["const", rng.choice([1, 2, 3, 5, 8]) * (10 ** rng.choice([0, 1, 2]))]]
        nops = rng.choice([1, 2, 2, 3, 3, 4])
        rk = self.rank[name]
        lower = [(p, c) for p in self.mir["sp"] for c in self.mir["cells"][tp(p)]
                 if self.rank[c] < rk]
        uses_stmt = False
        for _ in range(nops):
            k = rng.random()
            if k < 0.45 and lower:
                ops.append(self.mk_call_op(sp, ps, lower))
            elif k < 0.55 and ps:
                # self recursion on the first parameter, guarded
                args = [["dec", 1]] + [["k", i + 1] for i in range(1, len(ps))]
                ops.append(["call", [name], args, rng.choice(["pos", "kw"])])
            elif k < 0.85:
                refs = self.visible_int_refs(sp)
                # locality: one space-level reference is read from many places, by attribute
                # path where possible (the same reference at several depths of one evaluation)
                hot = getattr(self, "hot_ref", None)
                if hot and rng.random() < 0.45:
                    hp = [r for r in refs if len(r) > 1 and r[-1] == hot[1]
                          and r[:-1] in self.space_paths(sp, list(hot[0]))]
                    refs = hp or refs
                if refs:
                    ops.append(["read", rng.choice(refs)])
                else:
                    ops.append(["const", rng.choice([1, 2, 3])])
            elif k < 0.85 + self.p_raise:
                e = rng.randrange(8) if rng.random() > self.p_base_exc else 8 + rng.randrange(4)
                if ps and rng.random() < 0.5:
                    ops.append(["raiseif", rng.choice(KEYS), e])    # fails for some arguments only
                else:
                    ops.append(["raise", e])
                uses_stmt = True
            elif k < 0.85 + self.p_raise + self.p_none:
                ops.append(["none"])
                uses_stmt = True
            else:
                ops.append(["const", rng.choice([1, 2, 3])])
        if getattr(self, "chainy", False):
            # deep chains: every cells also calls one of the next lower rank
            prev = [(p, c) for p, c in lower if self.rank[c] == rk - 1]
            if prev and not any(op[0] == "call" and op[1][-1] == prev[0][1] for op in ops):
                ops.insert(rng.randrange(1, len(ops) + 1), self.mk_call_op(sp, ps, prev))
        catch = self.allow_catch and rng.random() < self.p_catch
        style = "def"
        if not uses_stmt and not catch and rng.random() < self.p_lambda:
            style = "lambda"
        frec = {"ps": ps, "ops": ops, "catch": catch, "onerr": rng.choice([900, 901]),
                "style": style}
        if style == "def" and not catch and lower and rng.random() < self.p_rr:
            # a handler that looks at another element (whose failure it handles itself)
            # and then re-raises: transparent for the value, not for the bookkeeping
            frec["style"] = "defrr"
            frec["probe"] = self.mk_call_op(sp, ps, lower)
        return self.new_fid(frec)

    def mk_call_op(self, sp, ps, lower):
        rng = self.rng
        p, c = rng.choice(lower)
        paths = self.space_paths(sp, p)
        path = rng.choice(paths) + [c]
        cps = self.sigs[c]
        args = []
        nargs = len(cps)
        if cps and cps[-1][1] == 1 and rng.random() < 0.5:
            nargs -= 1          # rely on the default
        for i in range(nargs):
            if ps and rng.random() < 0.7:
                args.append([rng.choice(["k", "k", "dec"]), rng.randrange(len(ps)) + 1])
            else:
                args.append(["c", rng.choice(KEYS[:3])])
        spell = rng.choice(["pos", "pos", "kw", "kwr"])
        if len(path) > 1:
            spell = rng.choice(["pos", "kw", "kwr", "sub", "value"])
        if spell == "sub" and not args:
            spell = "pos"
        if spell == "value" and args:
            spell = "pos"
        return ["call", path, args, spell]

    # ------------------------------------------------------------------
    def all_cells(self):
        return [(p, c) for p in self.mir["sp"] for c in self.mir["cells"][tp(p)]]

    def rand_args(self, name, allow_default=True):
        ps = self.sigs[name]
        n = len(ps)
        if allow_default and ps and ps[-1][1] == 1 and self.rng.random() < 0.4:
            n -= 1
        return [self.rng.choice(KEYS) for _ in range(n)]

    def next_op(self):
        op = self._next_op()
        if op["op"] == "call":
            self.last_call = dict(op)
        elif getattr(self, "last_call", None) and self.rng.random() < 0.45:
            # ask again what was asked before the edit: staleness shows at once
            self.queue.append(dict(self.last_call))
        return op

    def _next_op(self):
        rng = self.rng
        if self.queue:
            return self.queue.pop(0)
        w = PROFILES[self.profile]
        kinds = list(w)
        if self.profile == "flags" and self.hot and rng.random() < 0.12:
            # scenario: flip the flag of a cells that just ran, edit a reference near it
            try:
                a, b = self.mk_set_cached(), self.mk_set_ref()
                if a and b:
                    self.queue.append(b)
                    return a
            except (IndexError, KeyError, ValueError):
                pass
        if self.last_call and w.get("clear_at", 0) and rng.random() < 0.08:
            # scenario: an element is cleared and computed AGAIN (its dependency edges are
            # recorded a second time), then something it was computed from is edited
            try:
                sc = self.mk_recompute_scenario()
                if sc:
                    self.queue.extend(sc[1:])
                    return sc[0]
            except (IndexError, KeyError, ValueError):
                pass
        if w.get("set_value", 0) and w.get("set_formula", 0) and rng.random() < 0.06:
            # scenario: an element is assigned, its cells gets another formula (which discards the
            # assignment), the element is computed, and then a reference the formula reads changes
            try:
                sc = self.mk_input_then_formula_scenario()
                if sc:
                    self.queue.extend(sc[1:])
                    return sc[0]
            except (IndexError, KeyError, ValueError):
                pass
        if w.get("clear_at", 0) and w.get("set_ref", 0) and rng.random() < 0.05:
            # scenario: two elements read one reference by attribute path; one of them is
            # cleared alone; then the reference is edited and the other one asked again
            try:
                sc = self.mk_partial_clear_scenario()
                if sc:
                    self.queue.extend(sc[1:])
                    return sc[0]
            except (IndexError, KeyError, ValueError):
                pass
        for _ in range(50):
            kind = rng.choices(kinds, [w[k] for k in kinds])[0]
            try:
                op = getattr(self, "mk_" + kind)()
            except (IndexError, KeyError, ValueError):
                op = None       # nothing of that kind can be generated in the current state
            if op is not None:
                return op
        return {"op": "set_ref", "s": [], "n": "g0", "v": ["int", 10, [], ""], "mode": "auto"}

    def path_readers(self):
        """{(space of the reference, name): [(space, cells)]} for direct attribute-path reads
        by cached cells."""
        out = {}
        for p, c in self.cached_cells():
            frec = self.flib[self.mir["cells"][tp(p)][c]["f"]]
            for op in frec["ops"]:
                if op[0] == "read" and len(op[1]) > 1:
                    for q in self.mir["sp"]:
                        if op[1][:-1] in self.space_paths(p, q) and op[1][-1] in self.mir["refs"][tp(q)] \
                                and self.mir["refs"][tp(q)][op[1][-1]]["v"][0] == "int":
                            out.setdefault((tp(q), op[1][-1]), [])
                            if (p, c) not in out[(tp(q), op[1][-1])]:
                                out[(tp(q), op[1][-1])].append((p, c))
        return out

    def mk_partial_clear_scenario(self):
        rng = self.rng
        rd = self.path_readers()
        if not rd:
            return None
        (q, r), readers = rng.choice(sorted(rd.items()))
        a = rng.choice(readers)
        b = rng.choice(readers)
        aa, ba = self.rand_args(a[1], False), self.rand_args(b[1], False)
        if a == b and aa == ba:
            if not aa:
                return None
            ba = [(aa[0] + 1) % 4] + aa[1:]
        ca = {"op": "call", "c": [list(a[0]), [], a[1]], "args": aa, "sp": "pos"}
        cb = {"op": "call", "c": [list(b[0]), [], b[1]], "args": ba, "sp": "pos"}
        edit = rng.choice([
            {"op": "set_ref", "s": list(q), "n": r, "v": ["int", rng.choice(INT_VALUES), [], ""],
             "mode": self.mir["refs"][q][r]["mode"], "via": "attr"},
            {"op": "del_ref", "s": list(q), "n": r}])
        return [ca, cb, {"op": "clear_at", "c": [list(a[0]), [], a[1]], "args": aa}, edit, dict(cb), dict(ca)]

    def mk_input_then_formula_scenario(self):
        rng = self.rng
        cells = self.cached_cells()
        p, c = self.pick_cells(cells)
        args = self.rand_args(c, False)
        for _ in range(4):      # (a formula that reads a reference by name)
            f = self.formula(p, c)
            reads = [op[1][0] for op in self.flib[f]["ops"] if op[0] == "read" and len(op[1]) == 1]
            own = [n for n in reads if n in self.mir["refs"][tp(p)] and self.mir["refs"][tp(p)][n]["v"][0] == "int"]
            glob = [n for n in reads if n in self.mir["grefs"] and n not in self.mir["refs"][tp(p)]]
            if own or glob:
                break
        if own:
            n = rng.choice(own)
            edit = {"op": "set_ref", "s": list(p), "n": n, "v": ["int", rng.choice(INT_VALUES), [], ""],
                    "mode": self.mir["refs"][tp(p)][n]["mode"], "via": "attr"}
        elif glob:
            edit = {"op": "set_ref", "s": [], "n": rng.choice(glob),
                    "v": ["int", rng.choice(INT_VALUES) * 10, [], ""], "mode": "auto"}
        else:
            return None
        call = {"op": "call", "c": [list(p), [], c], "args": args, "sp": "pos"}
        return [{"op": "set_value", "c": [list(p), [], c], "args": args, "v": rng.choice([500, 600])},
                {"op": "set_formula", "s": list(p), "c": c, "f": f, "via": "prop"},
                call, edit, dict(call)]

    def mk_recompute_scenario(self):
        lc = self.last_call
        p, st, c = lc["c"]
        if st or tp(p) not in self.mir["cells"] or c not in self.mir["cells"][tp(p)]:
            return None
        rec = self.mir["cells"][tp(p)][c]
        ps = self.sigs[c]
        if not rec["cached"] or len(lc["args"]) != len(ps):
            return None
        args = list(lc["args"])
        frec = self.flib[rec["f"]]
        edits = []
        for op in frec["ops"]:
            if op[0] == "call":
                tgt = [q for q in self.mir["sp"] if op[1][:-1] in self.space_paths(p, q)
                       and op[1][-1] in self.mir["cells"][tp(q)]]
                if not tgt or not self.mir["cells"][tp(tgt[0])][op[1][-1]]["cached"]:
                    continue
                cargs = []
                for a in op[2]:
                    cargs.append(args[a[1] - 1] if a[0] == "k" else
                                 args[a[1] - 1] - 1 if a[0] == "dec" else a[1])
                if len(cargs) == len(self.sigs[op[1][-1]]) and all(x >= 0 for x in cargs):
                    edits.append({"op": "set_value", "c": [list(tgt[0]), [], op[1][-1]], "args": cargs,
                                  "v": self.rng.choice([500, 600, 700])})
            elif op[0] == "read" and len(op[1]) == 1 and op[1][0] in self.mir["refs"][tp(p)]:
                edits.append({"op": "set_ref", "s": list(p), "n": op[1][0],
                              "v": ["int", self.rng.choice(INT_VALUES), [], ""],
                              "mode": self.mir["refs"][tp(p)][op[1][0]]["mode"], "via": "attr"})
        if not edits:
            return None
        call = {"op": "call", "c": [list(p), [], c], "args": args, "sp": "pos"}
        clr = {"op": "clear_at", "c": [list(p), [], c], "args": args}
        rounds = self.rng.choice([1, 2, 2, 3])      # (edges re-recorded once, twice, ...)
        out = []
        for _ in range(rounds):
            out += [dict(clr), dict(call)]
        return out + [self.rng.choice(edits), dict(call)]

    def mk_call(self):
        cells = self.all_cells()
        if not cells:
            return None
        p, c = self.rng.choice(cells)
        args = self.rand_args(c)
        sp = self.rng.choice(["pos", "pos", "kw", "kwr", "sub", "value"])
        if sp == "sub" and not args:
            sp = "pos"
        if sp == "value" and args:
            sp = "pos"
        return {"op": "call", "c": [list(p), [], c], "args": args, "sp": sp}

    def cached_cells(self):
        return [(p, c) for p, c in self.all_cells() if self.mir["cells"][tp(p)][c]["cached"]]

    def mk_set_value(self):
        cells = self.cached_cells()
        if not cells:
            return None
        p, c = self.pick_cells(cells)
        return {"op": "set_value", "c": [list(p), [], c], "args": self.rand_args(c, False),
                "v": self.rng.choice([500, 600, 700])}

    def mk_clear_at(self):
        cells = self.cached_cells()
        if not cells:
            return None
        p, c = self.pick_cells(cells)
        return {"op": "clear_at", "c": [list(p), [], c], "args": self.rand_args(c, False)}

    def mk_clear(self):
        cells = self.all_cells()
        p, c = self.pick_cells(cells)
        return {"op": "clear", "c": [list(p), [], c]}

    def mk_clear_all(self):
        cells = self.all_cells()
        p, c = self.pick_cells(cells)
        return {"op": "clear_all", "c": [list(p), [], c]}

    def mk_set_ref(self):
        rng = self.rng
        m = self.mir
        k = rng.random()
        if k < 0.25:
            # model-level reference (new or changed)
            name = rng.choice(list(m["grefs"]) or ["g0"]) if rng.random() < 0.7 else rng.choice(["g0", "g1", "r0"])
            if rng.random() < 0.25:
                # a model-level name that is also a cells somewhere: the sibling
                # cells must keep shadowing it (Look: cells, refs, model refs)
                name = rng.choice(sorted(self.sigs))
            if self.refkind.get(name, "int") != "int":
                return None
            self.refkind[name] = "int"
            return {"op": "set_ref", "s": [], "n": name,
                    "v": ["int", rng.choice(INT_VALUES) * 10, [], ""], "mode": "auto"}
        p = rng.choice(m["sp"])
        hs = [q for q in self.hot_spaces() if q in m["sp"]]
        if hs and rng.random() < 0.5:
            p = rng.choice(hs)
        existing = list(m["refs"][tp(p)])
        if k < 0.40 and m["grefs"]:
            # shadow a model-level reference in a space
            name = rng.choice(list(m["grefs"]))
        elif existing and rng.random() < 0.75:
            name = rng.choice(existing)
        else:
            name = rng.choice(["r0", "r1", "r2"])
        kind = self.refkind.get(name, "int")
        if name in m["cells"][tp(p)] or any(list(q[:-1]) == list(p) and q[-1] == name for q in m["sp"]):
            return None
        if kind == "sp":
            v = ["sp", list(rng.choice(m["sp"])), [], ""]
            mode = rng.choice(["auto", "absolute"])
        else:
            self.refkind[name] = "int"
            v = ["int", rng.choice(INT_VALUES), [], ""]
            mode = rng.choice(["auto", "auto", "absolute", "relative"])
        return {"op": "set_ref", "s": list(p), "n": name, "v": v, "mode": mode,
                "via": rng.choice(["attr", "set_ref"])}

    def mk_del_ref(self):
        rng = self.rng
        m = self.mir
        if m["grefs"] and rng.random() < 0.3:
            return {"op": "del_ref", "s": [], "n": rng.choice(list(m["grefs"]))}
        cands = [(p, n) for p in m["sp"] for n in m["refs"][tp(p)]]
        if not cands:
            return None
        p, n = rng.choice(cands)
        return {"op": "del_ref", "s": list(p), "n": n}

    def mk_set_formula(self):
        cells = self.all_cells()
        p, c = self.pick_cells(cells)
        return {"op": "set_formula", "s": list(p), "c": c, "f": self.formula(p, c),
                "via": self.rng.choice(["prop", "method"])}

    def mk_set_cached(self):
        cells = self.all_cells()
        p, c = self.pick_cells(cells)
        cur = self.mir["cells"][tp(p)][c]["cached"]
        return {"op": "set_cached", "s": list(p), "c": c, "b": not cur}

    def mk_set_allow_none(self):
        rng = self.rng
        k = rng.random()
        if k < 0.6:
            p, c = rng.choice(self.all_cells())
            return {"op": "set_allow_none", "s": list(p), "c": c, "v": rng.choice([0, 1, 2])}
        if k < 0.85:
            return {"op": "set_allow_none", "s": list(rng.choice(self.mir["sp"])),
                    "v": rng.choice([0, 1, 2])}
        return {"op": "set_allow_none", "s": [], "v": rng.choice([1, 2])}

    def mk_new_cells(self):
        rng = self.rng
        p = rng.choice(self.mir["sp"])
        free = [n for n in self.sigs if n not in self.mir["cells"][tp(p)]
                and n not in self.mir["refs"][tp(p)]]
        if not free:
            return None
        c = rng.choice(free)
        return {"op": "new_cells", "s": list(p), "c": c,
                "rec": {"f": self.formula(p, c), "cached": rng.random() >= self.p_uncached,
                        "an": 0}}

    def mk_trace(self):
        # a call-stack trace session is switched on or off (mx.start_stacktrace / stop_stacktrace:
        # the executor's stack object is replaced; nothing else may change)
        self.tracing = not getattr(self, "tracing", False)
        return {"op": "trace", "on": self.tracing}

    def mk_del_space(self):
        sp = self.mir["sp"]
        if len(sp) <= 2:
            return None
        hs = [q for q in self.hot_spaces() if q in sp]
        p = self.rng.choice(hs) if hs and self.rng.random() < 0.6 else self.rng.choice(sp)
        if len(p) > 1 and self.rng.random() < 0.4:
            p = p[:self.rng.randrange(1, len(p))]        # an ancestor: the whole subtree goes
        return {"op": "del_space", "p": list(p)}

    def mk_rename_space(self):
        sp = self.mir["sp"]
        hs = [q for q in self.hot_spaces() if q in sp]
        p = self.rng.choice(hs) if hs and self.rng.random() < 0.6 else self.rng.choice(sp)
        if len(p) > 1 and self.rng.random() < 0.5:
            p = p[:self.rng.randrange(1, len(p))]        # an ANCESTOR of the space that was just used
        nm = self.rng.choice(["X", "Y", "Z"])
        if any(q[:-1] == list(p[:-1]) and q[-1] == nm for q in sp):
            return None
        return {"op": "rename_space", "p": list(p), "nm": nm}

    def mk_del_cells(self):
        cells = self.all_cells()
        if len(cells) <= 2:
            return None
        p, c = self.rng.choice(cells)
        return {"op": "del_cells", "s": list(p), "c": c, "via": self.rng.choice(["attr", "item"])}

    # ------------------------------------------------------------------
    def pick_cells(self, cells):
        """Prefer cells that took part in the last evaluation: edits right next to an
        evaluation are where invalidation bugs show."""
        hot = [pc for pc in cells if [list(pc[0]), pc[1]] in self.hot]
        if hot and self.rng.random() < 0.55:
            return self.rng.choice(hot)
        return self.rng.choice(cells)

    def hot_spaces(self):
        return [p for p, _ in self.hot]

    def update(self, op, res, ev=None):
        """Bookkeeping after an operation was accepted by the implementation."""
        if ev is not None and op["op"] == "call":
            seen = []
            for f in ev.get("fx", []):
                if f[0] == "enter" and not f[1][1] and [f[1][0], f[1][2]] not in seen:
                    seen.append([f[1][0], f[1][2]])
            if seen:
                self.hot = seen
            # scenario "failure and repair": after a failed evaluation, one element of the
            # failing chain gets a formula that does not fail, and what succeeded before the
            # failure is asked again
            if isinstance(res, int) and res >= -2:
                self.ok_calls = (getattr(self, "ok_calls", []) + [dict((k, op[k]) for k in ("op", "c", "args", "sp"))])[-3:]
                # scenario "the callee's space moves": a space of another tree whose cells this
                # evaluation went through (or one of its ancestors) is renamed or deleted
                w0 = PROFILES[self.profile]
                if w0.get("rename_space", 0) and not self.queue and self.rng.random() < 0.25:
                    top = op["c"][0][0]
                    others = sorted({tuple(f[1][0]) for f in ev.get("fx", [])
                                     if f[0] == "enter" and not f[1][1] and f[1][0][0] != top
                                     and list(f[1][0]) in self.mir["sp"]})
                    if others:
                        deep = [x for x in others if len(x) > 1]
                        q = list(self.rng.choice(deep if deep and self.rng.random() < 0.7 else others))
                        # (a strict ancestor more often than the space itself)
                        q = q[:self.rng.randrange(1, len(q))] if len(q) > 1 and self.rng.random() < 0.65 else q
                        nm = self.rng.choice(["X", "Y", "Z"])
                        if self.rng.random() < 0.7 and not any(
                                r[:-1] == q[:-1] and r[-1] == nm for r in self.mir["sp"]):
                            edit = {"op": "rename_space", "p": q, "nm": nm}
                        else:
                            edit = {"op": "del_space", "p": q} if len(self.mir["sp"]) > 2 else None
                        if edit:
                            self.queue += [edit, dict((k, op[k]) for k in ("op", "c", "args", "sp"))]
                # scenario "edit a precedent": one of the elements this evaluation computed (at any
                # depth, through cached or uncached cells) is assigned or cleared; then ask again
                w = PROFILES[self.profile]
                if w.get("set_value", 0) >= 10 and not self.queue and self.rng.random() < (
                        0.6 if getattr(self, "chainy", False) else 0.3):
                    done, depth, stack, bridged = [], 0, [], []

                    def is_cached(nd):
                        return (not nd[1] and tp(nd[0]) in self.mir["cells"]
                                and nd[2] in self.mir["cells"][tp(nd[0])]
                                and self.mir["cells"][tp(nd[0])][nd[2]]["cached"])
                    for f in ev.get("fx", []):
                        depth += 1 if f[0] == "enter" else -1
                        if f[0] == "enter":
                            stack.append(f[1])
                        elif stack:
                            stack.pop()
                        if f[0] == "exit" and f[1][:3] != op["c"] and is_cached(f[1]):
                            done.append((depth, f[1]))
                            # reached from a cached caller through TWO OR MORE uncached cells
                            gap = 0
                            while gap < len(stack) and not is_cached(stack[-1 - gap]):
                                gap += 1
                            if gap >= 2 and gap < len(stack):
                                bridged.append(f[1])
                    if bridged and self.rng.random() < 0.6:
                        done = [(0, x) for x in bridged]
                    if done:
                        # mostly the deepest one: the longest path back to what was asked
                        deepest = max(d for d, _ in done)
                        n = self.rng.choice([x for d, x in done if d == deepest]
                                            if self.rng.random() < 0.7 else [x for _, x in done])
                        edit = ({"op": "set_value", "c": [n[0], [], n[2]], "args": list(n[3]),
                                 "v": self.rng.choice([500, 600, 700])} if self.rng.random() < 0.7 else
                                {"op": "clear_at", "c": [n[0], [], n[2]], "args": list(n[3])})
                        self.queue += [edit, dict((k, op[k]) for k in ("op", "c", "args", "sp"))]
            elif ev.get("tb") and self.profile == "fail" and self.rng.random() < 0.35:
                node = self.rng.choice(ev["tb"])[0]
                if not node[1] and tp(node[0]) in self.mir["cells"] and node[2] in self.mir["cells"][tp(node[0])]:
                    pr, pn, self.p_raise, self.p_none = self.p_raise, self.p_none, 0.0, 0.0
                    try:
                        f = self.formula(node[0], node[2])
                    finally:
                        self.p_raise, self.p_none = pr, pn
                    self.queue.append({"op": "set_formula", "s": list(node[0]), "c": node[2], "f": f,
                                       "via": "prop"})
                    self.queue.extend(dict(c) for c in getattr(self, "ok_calls", []))
                    self.queue.append(dict((k, op[k]) for k in ("op", "c", "args", "sp")))
        if res != "ok":
            return
        m = self.mir
        k = op["op"]
        if k == "set_ref":
            if op["s"]:
                m["refs"][tp(op["s"])][op["n"]] = {"v": op["v"], "mode": op["mode"]}
            else:
                m["grefs"][op["n"]] = {"v": op["v"]}
        elif k == "del_ref":
            if op["s"]:
                m["refs"][tp(op["s"])].pop(op["n"], None)
            else:
                m["grefs"].pop(op["n"], None)
        elif k == "set_formula":
            m["cells"][tp(op["s"])][op["c"]]["f"] = op["f"]
        elif k == "set_cached":
            m["cells"][tp(op["s"])][op["c"]]["cached"] = op["b"]
        elif k == "new_cells":
            m["cells"][tp(op["s"])][op["c"]] = dict(op["rec"])
        elif k == "del_cells":
            m["cells"][tp(op["s"])].pop(op["c"], None)
        elif k == "del_space":
            p = op["p"]
            gone = [q for q in m["sp"] if q[:len(p)] == list(p)]
            for q in gone:
                m["sp"].remove(q)
                for key in ("cells", "refs", "bases", "span"):
                    m[key].pop(tp(q), None)
        elif k == "rename_space":
            p, nm = op["p"], op["nm"]
            new = list(p[:-1]) + [nm]

            def R(q):
                return new + list(q[len(p):]) if list(q[:len(p)]) == list(p) else list(q)
            m["sp"] = [R(q) for q in m["sp"]]
            for key in ("cells", "refs", "span", "bases"):
                m[key] = {tp(R(q)): v for q, v in m[key].items()}
            self.hot = [[R(q), c] for q, c in self.hot]
