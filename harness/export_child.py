"""C15: the process in which exported packages are imported and queried WITHOUT modelx.

Run as a script:  python -I export_child.py <job.json> <result.json>

It must not import anything from the harness (harness.world imports modelx).  `modelx` is made
unimportable before the first package is imported (sys.modules['modelx'] = None makes every
`import modelx[...]` raise ImportError) and afterwards it is reported whether any module called
modelx got loaded nevertheless.

job    = {"packages": [{"dir": <dir containing the package>, "pkg": <package name>,
                        "queries": [{"path": [...], "steps": [[kind, name, args, spelling, names]...],
                                     "cells": name, "args": [...], "sp": "pos"|"kw", "names": [...]}]}]}
result = {"packages": [{"imported": bool, "err": str, "vals": [...], "vals2": [...], "errs": [...]}],
          "modelx_loaded": [...module names...]}

Values are encoded with the error codes of spec/MxSem.tla (None = -2, ValueError("E<n>") =
-(10 + n), NameError / AttributeError = -32, TypeError = -33, anything else = -99; a value that is
not an integer = -9999), i.e. the same table as harness.world.exc_code / enc_val.
"""
import importlib
import json
import numbers
import sys
import traceback


def enc_val(v):
    if v is None:
        return -2
    if isinstance(v, bool):
        return int(v)
    if isinstance(v, numbers.Integral):
        return int(v)
    return -9999


def exc_code(exc):
    if isinstance(exc, ValueError) and exc.args and isinstance(exc.args[0], str) \
            and exc.args[0].startswith("E") and exc.args[0][1:].isdigit():
        return -(10 + int(exc.args[0][1:]))
    if isinstance(exc, (NameError, AttributeError)):
        return -32
    if isinstance(exc, TypeError):
        return -33
    return -99


def call_spelled(obj, args, sp, names):
    if sp == "kw":
        return obj(**{names[i]: a for i, a in enumerate(args)})
    if sp == "sub":
        return obj[tuple(args)] if len(args) != 1 else obj[args[0]]
    return obj(*args)


def navigate(model, q):
    obj = model
    for nm in q["path"]:
        obj = getattr(obj, nm)
    for st in q["steps"]:
        if st[0] == "i":
            obj = call_spelled(obj, st[2], st[3], st[4])
        else:
            obj = getattr(obj, st[1])
    return obj


def query(model, q):
    try:
        sp = navigate(model, q)
        f = getattr(sp, q["cells"])
        return enc_val(call_spelled(f, q["args"], q["sp"], q["names"])), ""
    except BaseException as e:         # RecursionError etc. included
        return exc_code(e), "%s: %s" % (type(e).__name__, e)


def main(jobfile, resfile):
    job = json.load(open(jobfile))
    sys.modules["modelx"] = None          # `import modelx` now raises ImportError
    sys.setrecursionlimit(20000)
    out = []
    for p in job["packages"]:
        rec = {"imported": False, "err": "", "vals": [], "vals2": [], "errs": []}
        out.append(rec)
        sys.path.insert(0, p["dir"])
        try:
            mod = importlib.import_module(p["pkg"])
            model = mod.mx_model
            rec["imported"] = True
        except BaseException as e:
            rec["err"] = "%s: %s\n%s" % (type(e).__name__, e, traceback.format_exc()[-1500:])
            continue
        finally:
            sys.path.remove(p["dir"])
        for q in p["queries"]:
            v, err = query(model, q)
            rec["vals"].append(v)
            rec["errs"].append(err)
        for q in p["queries"]:            # second pass: served by the package's caches
            rec["vals2"].append(query(model, q)[0])
    loaded = sorted(k for k, v in sys.modules.items()
                    if (k == "modelx" or k.startswith("modelx.")) and v is not None)
    json.dump({"packages": out, "modelx_loaded": loaded}, open(resfile, "w"))


if __name__ == "__main__":
    main(sys.argv[1], sys.argv[2])
