"""Verification harness for fumitoh/modelx.

By default modelx is imported from /repo's working tree (the develop install of /venv).
VERIF_REPO=<dir> makes every harness process import modelx from that directory instead
(used to run the checks against scratch copies with seeded changes without touching /repo).
"""
import os
import sys

_alt = os.environ.get("VERIF_REPO")
if _alt and _alt not in sys.path:
    sys.path.insert(0, _alt)
