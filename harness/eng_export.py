"""C15 "An exported package computes the same values as the model".

Plug-in engine (contract: harness/PLUGIN.md).  Level: translation validation.

  source program   a definitions record D of MxSem (spaces, ordered bases, cells with formula
                   records, references incl. object-valued ones, parameter formulas)
  its meaning      the oracle MxSem.Den(D, element), evaluated by TLC
  the translation  the self-contained package written by model.export()
                   (modelx/export/exporter.py, transformer.py, _mx_sys.py), imported and queried in
                   a subprocess in which modelx cannot be imported (harness/export_child.py)
  the judge        spec/MxExportTrace.tla: for every queried element
                      C15.PackageEqOracle      package value = Den(D, element)
                      C15.PackageStable        asking again returns the same (cache hit)
                      C15.CachedUncachedAgree  the package of the same program with all cached
                                               flags flipped returns the same
                      C15.ExportAccepts / C15.PackageImports / C15.SelfContained
                      MACH.LiveDiffersFromOracle   live model value # Den: a finding about the
                                               model or the oracle, not about export -> reported
                                               as machinery failure, never as C15

Programs come from the three seeded generators (static / inheritance / dynamic world) restricted to
the export subset; every program is rendered through several syntactic templates
(harness/export_templates.py) because the exporter's transformer works on syntax.
Verdicts come only from TLC labels.
"""
import collections
import copy
import hashlib
import json
import multiprocessing as mp
import os
import random
import sys
import time

if os.environ.get("VERIF_REPO"):          # mutation testing: import modelx from a scratch copy
    sys.path.insert(0, os.environ["VERIF_REPO"])

from . import tlc
from . import pipeline as pl
from . import export_driver as xd
from . import export_templates as xt

PIDS = ["C15"]
LEVEL = {"C15": "translation_validation"}

ROOT = os.path.dirname(os.path.dirname(os.path.abspath(__file__)))
NCPU = min(16, os.cpu_count() or 1)
MODULE, CFG = "MxExportTrace", "MxExportTrace.cfg"

SIZES = {"quick": {"programs": 150}, "thorough": {"programs": 1800}}
CLASSES = ["static", "derived", "instance", "instance_child", "nested", "nested_child"]

ASSUMPTIONS = [
    "export subset generated: def / lambda formulas rendered through the %d templates of "
    "harness/export_templates.py (comprehensions, generator expressions, nested functions, nonlocal, "
    "lambdas with default capture, conditional chains, locals shadowing built-ins and unused globals); "
    "positional, keyword and default spellings of calls; integer references as literals or pickled "
    "(numpy.int64), object-valued references (spaces, cells) in auto/relative/absolute mode, "
    "model-level references, a module-valued reference (datetime); attribute access whose attribute "
    "is spelled like a global name of the space (datetime.datetime, n.n on a space-valued reference "
    "n whose target has a member n); references / cells named like built-ins (max, min, abs, all, "
    "pow, hash, id); ordered bases with derived members; one- and two-parameter ItemSpaces (second "
    "parameter with default) incl. a plain child and a nested parametrised child whose parameter has "
    "its own name or the same name as the outer one, with a static child of its own; formulas that raise "
    "ValueError, with and without a catch-all handler" % len(xt.TEMPLATES),
    "NOT generated because the exported cells are plain methods / the exporter documents or shows no "
    "support: subscription and .value on cells reached by attribute (`T.c[1]`, `T.c.value`), the "
    "deprecated name _self (written _space), references or another base returned by a parameter "
    "formula ({'refs': ...}, {'base': ...}: the exporter reads the signature of a parameter formula "
    "only), formulas returning None unless the model allows None (the package has no None check), "
    "inputs assigned to cells, edits after export",
    "two templates (paren_global, comp_after_lambda) are the spellings of two transformer defects this "
    "check found and that were repaired in /repo (0ecda46, 5b8fa93); the KF:C15.* predicates of "
    "MxExportTrace.tla stay as regression tripwires for exactly those situations",
    "errors are compared by class through the code table of MxSem (ValueError('E<n>'), "
    "NameError/AttributeError, TypeError); the table is duplicated in harness/export_child.py "
    "because that process must not import modelx; where the model raises DeletedObjectError (a "
    "dangling reference, exported as None) the package must fail too, with AttributeError or TypeError",
    "elements queried: every cells of every static space, of ItemSpaces for keys 0..2 (second "
    "parameter 0..1 and omitted), of their children and of nested ItemSpaces, arguments 0..2; at "
    "most %d elements per program (sampled per class)" % xd.MAX_QUERIES,
    "the scope analysis of the transformer over arbitrary Python is not explored by a model: syntax "
    "comes from the finite template table",
]


# ---------------------------------------------------------------------------
def _jobs(tier, seed, only_kind=None):
    n = int(os.environ.get("VERIF_C15_PROGRAMS") or SIZES[tier]["programs"])   # (override: development)
    # development only: VERIF_C15_EXTRA=sub,pfrefs switches on spellings OUTSIDE the export subset
    extra = tuple(x for x in os.environ.get("VERIF_C15_EXTRA", "").split(",") if x)
    jobs, programs = [], []
    for i in range(n):
        kind = xd.KINDS[i % 3]
        if only_kind and kind != only_kind:
            continue
        pseed = (seed % 1000003) * 1000 + i
        defs = xd.make_program(kind, pseed, extra)
        programs.append(defs)
        for v in xd.variants_of(defs, pseed, "quick"):
            jobs.append({"defs": defs, "variant": v})
    return programs, jobs


def _produce(jobs):
    """run_batch over a pool: one child subprocess per batch of (program, variant)."""
    if not jobs:
        return []
    nb = max(1, min(len(jobs), NCPU * 3))
    size = (len(jobs) + nb - 1) // nb
    batches = [jobs[i:i + size] for i in range(0, len(jobs), size)]
    if len(batches) == 1:
        return xd.run_batch(batches[0])
    ctx = mp.get_context("fork")
    with ctx.Pool(min(NCPU, len(batches))) as pool:
        res = pool.map(xd.run_batch, batches, chunksize=1)
    return [t for b in res for t in b]


def _cpu():
    import resource
    a, b = resource.getrusage(resource.RUSAGE_SELF), resource.getrusage(resource.RUSAGE_CHILDREN)
    return a.ru_utime + a.ru_stime + b.ru_utime + b.ru_stime


def _for_tlc(tr):
    return {"hdr": tr["hdr"], "ev": tr["ev"]}


def _judge(traces):
    if not traces:
        return [], {"states": 0, "transitions": 0, "tlc_wall_s": 0.0, "batches": 0}
    # one JVM start costs ~10 CPU-seconds: few, large batches
    bs = max(20, min(400, (len(traces) + 7) // 8))
    return pl.judge([_for_tlc(t) for t in traces], module=MODULE, cfg=CFG, batch_size=bs, procs=NCPU)


def case_hash(tr):
    h = hashlib.sha1()
    h.update(json.dumps([tr["hdr"]["init"], tr["hdr"]["tmap"]], sort_keys=True).encode())
    return h.hexdigest()[:16]


def save_replay(tr, labels):
    d = os.path.join(ROOT, "replays", "C15")
    if os.environ.get("VERIF_REPO"):       # mutation testing: keep the repository's replays clean
        import tempfile
        d = os.path.join(tempfile.gettempdir(), "mxv_c15_mutant_replays")
    os.makedirs(d, exist_ok=True)
    path = os.path.join(d, case_hash(tr) + ".json")
    variant = {"name": tr["hdr"]["variant"], "tmap": tr["hdr"]["tmap"], "pick": tr["hdr"]["pick"],
               "flip": tr["hdr"]["flip"], "syn": tr["hdr"]["syn"]}
    with open(path, "w") as f:
        json.dump({"property": "C15", "defs": tr["hdr"]["init"], "variant": variant,
                   "labels": labels, "texts": tr.get("aux", {}).get("texts", {}),
                   "first_failing_events": [tr["ev"][l - 1] for _, l in labels[:3]
                                            if 0 < l <= len(tr["ev"])]}, f, indent=1)
    return path


def sample_of(tr, nev=4):
    d = tr["hdr"]["init"]
    texts = tr.get("aux", {}).get("texts", {})
    return {"kind": tr["hdr"]["kind"], "seed": tr["hdr"]["seed"], "variant": tr["hdr"]["variant"],
            "spaces": d["sp"], "bases": [b for b in d["bases"] if b[1]], "pf": d["pf"],
            "decorations": d["deco"],
            "formula_texts": dict(list(texts.items())[:3]),
            "n_events": len(tr["ev"]),
            "first_events": [{k: v for k, v in e.items() if k not in ("pe", "err")} for e in tr["ev"][:nev]]}


# ---------------------------------------------------------------------------
# negative controls
def corruptions(tr, rng):
    """[(corrupted trace, label that must be raised)] -- one per predicate."""
    out = []
    qi = [i for i, e in enumerate(tr["ev"]) if e["op"] == "query"]
    if not qi:
        return out

    def mod(i, field, delta=1):
        t = copy.deepcopy(_for_tlc(tr))
        t["ev"][i][field] += delta
        return t
    vals = [i for i in qi if tr["ev"][i]["pkg"] >= 0]
    if vals:
        i = rng.choice(vals)
        t = mod(i, "pkg")
        t["ev"][i]["pkg2"] += 1          # keep it stable: only the oracle comparison must fire
        if t["ev"][i]["hasf"]:
            t["ev"][i]["pkgf"] += 1
            t["ev"][i]["pkgf2"] += 1
        out.append((t, "C15.PackageEqOracle"))
        out.append((mod(rng.choice(vals), "pkg2"), "C15.PackageStable"))
        out.append((mod(rng.choice(vals), "live"), "MACH.LiveDiffersFromOracle"))
    errs = [i for i in qi if tr["ev"][i]["pkg"] <= -10]
    if errs:                             # an error of another class instead of the expected one
        i = rng.choice(errs)
        t = copy.deepcopy(_for_tlc(tr))
        for f in ("pkg", "pkg2", "pkgf", "pkgf2"):
            t["ev"][i][f] = -33 if tr["ev"][i]["pkg"] != -33 else -32
        out.append((t, "C15.PackageEqOracle"))
    fl = [i for i in qi if tr["ev"][i]["hasf"] and tr["ev"][i]["pkgf"] >= 0]
    if fl:
        i = rng.choice(fl)
        t = mod(i, "pkgf")
        t["ev"][i]["pkgf2"] += 1
        out.append((t, "C15.CachedUncachedAgree"))
    t = copy.deepcopy(_for_tlc(tr))
    t["ev"][0]["imported"] = False
    out.append((t, "C15.PackageImports"))
    t = copy.deepcopy(_for_tlc(tr))
    t["ev"][0]["nomodelx"] = False
    out.append((t, "C15.SelfContained"))
    t = copy.deepcopy(_for_tlc(tr))
    t["ev"][0]["exported"] = False
    out.append((t, "C15.ExportAccepts"))
    return out


def negative_controls(traces, verdicts, rng):
    good = [tr for tr, v in zip(traces, verdicts) if not v["viol"] and len(tr["ev"]) > 1]
    rng.shuffle(good)
    made = []
    for tr in good[:3]:
        made += corruptions(tr, rng)
    if not made:
        return {"attempted": 0, "rejected": 0, "labels": []}
    vs, _ = pl.judge([m[0] for m in made], module=MODULE, cfg=CFG, batch_size=len(made), procs=1)
    rejected, missed = 0, []
    for (t, lab), v in zip(made, vs):
        if any(l == lab for l, _ in v["viol"]):
            rejected += 1
        else:
            missed.append(lab)
    return {"attempted": len(made), "rejected": rejected,
            "labels": sorted(set(lab for _, lab in made)), "missed": missed}


# ---------------------------------------------------------------------------
def _collect(traces, verdicts, res):
    """Violations / machinery failures from the verdicts."""
    labels_seen = collections.Counter()
    reported = collections.Counter()
    path = None
    for tr, v in zip(traces, verdicts):
        if v["matched"] != v["total"]:
            res["machinery_failure"] = "trace %s/%s/%s consumed %d of %d events" % (
                tr["hdr"]["kind"], tr["hdr"]["seed"], tr["hdr"]["variant"], v["matched"], v["total"])
        viol = sorted(v["viol"], key=lambda x: x[1])
        for lab, _ in viol:
            labels_seen[lab] += 1
        mach = [(lab, l) for lab, l in viol if lab.startswith("MACH.")]
        mine = [(lab, l) for lab, l in viol if lab.startswith("C15.") or lab.startswith("KF:C15.")]
        fresh = [lab for lab, _ in mine if not (lab.startswith("KF:") and reported[lab] >= 3)]
        if mach or fresh:
            path = save_replay(tr, viol)
        if mach:
            res["machinery_failure"] = "%s at event %d of %s/%s/%s (replay %s)" % (
                mach[0][0], mach[0][1], tr["hdr"]["kind"], tr["hdr"]["seed"], tr["hdr"]["variant"], path)
        seen = set()
        for lab, l in mine:
            if lab not in seen:
                seen.add(lab)
                reported[lab] += 1
                if lab.startswith("KF:") and reported[lab] > 3:
                    continue          # a known finding is witnessed by its first three cases
                res["violations"].append({"label": lab, "line": l, "replay": path})
    return labels_seen


def run(pid, tier, seed):
    assert pid == "C15"
    rng = random.Random(seed)
    t0 = time.time()
    c0 = _cpu()
    programs, jobs = _jobs(tier, seed)
    traces = _produce(jobs)
    t_prod = time.time() - t0
    c1 = _cpu()
    built = [t for t in traces if t["hdr"]["built"]]
    unbuilt = [t for t in traces if not t["hdr"]["built"]]
    verdicts, stats = _judge(built)
    c2 = _cpu()
    res = {"level": LEVEL[pid], "violations": [], "assumptions": list(ASSUMPTIONS)}
    labels_seen = _collect(built, verdicts, res)
    nc = negative_controls(built, verdicts, rng)
    if nc["attempted"] == 0 or nc["rejected"] != nc["attempted"]:
        res["machinery_failure"] = "negative control not rejected: %r" % (nc,)

    # ---- coverage, all measured ----
    qev = [e for t in built for e in t["ev"] if e["op"] == "query"]
    comparisons = sum(2 + (3 if e["hasf"] else 0) for e in qev)
    by_class = collections.Counter(e["class"] for e in qev)
    by_variant = collections.Counter(t["hdr"]["variant"] for t in built)
    by_template = collections.Counter(x[2] for t in built for x in t["hdr"]["tmap"])
    by_kind = collections.Counter(t["hdr"]["kind"] for t in built)
    prog_hashes = {hashlib.sha1(json.dumps(t["hdr"]["init"], sort_keys=True).encode()).hexdigest()
                   for t in built}
    nontrivial = set()
    for t in built:
        q = [e for e in t["ev"] if e["op"] == "query"]
        uses_global = any(op[0] in ("call", "read", "icall")
                          for f in t["hdr"]["init"]["flib"].values() for op in f["ops"])
        if uses_global and any(e["pkg"] > -10 for e in q) and len(q) >= 2:
            nontrivial.add(case_hash(t))
    feats = collections.Counter()
    for d in programs:
        flags = [rec["cached"] for _, cs in d["cells"] for rec in cs.values()]
        feats["programs_with_cached_cells"] += any(flags)
        feats["programs_with_uncached_cells"] += not all(flags)
        feats["programs_with_pickled_refs"] += bool(d["deco"]["pickled"])
        feats["programs_with_builtin_named_globals"] += bool(d["deco"]["renamed"])
        feats["programs_with_object_refs"] += any(
            r["v"][0] in ("sp", "ce") for _, rs in d["refs"] for r in rs.values())
        feats["programs_with_bases"] += any(b for _, b in d["bases"])
        feats["programs_with_itemspaces"] += bool(d["pf"])
        feats["programs_with_nested_itemspaces"] += len(d["pf"]) > 1
        feats["programs_with_nested_params_same_name"] += d["deco"]["nested"].startswith("same_name")
        feats["programs_with_nested_params_distinct_names"] += d["deco"]["nested"].startswith("distinct")
        feats["programs_with_static_child_of_nested_itemspace"] += d["deco"]["nested"].endswith("+child")
        feats["programs_with_attribute_spelled_like_global"] += bool(d["deco"]["attr_like_global"])
        feats["programs_with_module_refs"] += bool(d["deco"]["modules"])
        feats["programs_with_raise"] += any(op[0] == "raise" for f in d["flib"].values() for op in f["ops"])
        feats["programs_with_handler"] += any(f.get("catch") for f in d["flib"].values())
        feats["programs_with_lambda_formulas"] += any(f.get("style") == "lambda" for f in d["flib"].values())
        feats["programs_with_default_params"] += any(p[1] for f in d["flib"].values() for p in f["ps"])
    vals = collections.Counter("error" if e["pkg"] <= -10 else "none" if e["pkg"] == -2 else "value"
                               for e in qev)
    spell = collections.Counter(e["sp"] for e in qev)
    ispell = collections.Counter(s for e in qev for s in e["isp"] if s)
    # vacuity
    missing = [c for c in CLASSES if not by_class[c]]
    missing += [t for t in xt.TEMPLATES if not by_template[t]]
    missing += [k for k, v in feats.items() if not v]
    missing += [k for k in ("value", "error") if not vals[k]]
    if not any(e["hasf"] for e in qev):
        missing.append("flipped packages")
    if missing and "machinery_failure" not in res:
        res["machinery_failure"] = "vacuous run: nothing of %r was exercised" % (missing,)
    if len(unbuilt) > len(traces) // 5 and "machinery_failure" not in res:
        res["machinery_failure"] = "%d of %d programs could not be built (e.g. %s)" % (
            len(unbuilt), len(traces), unbuilt[0]["hdr"]["builderr"][:200])
    import modelx
    cov = {
        "programs": len(prog_hashes),
        "disagreements_checked": comparisons,
        "samples": [sample_of(t) for t in (built[:1] + [t for t in built if t["hdr"]["kind"] == "dyn"][1:2])],
        "states": stats["states"], "transitions": stats["transitions"],
        "traces_validated_against_impl": len(built),
        "evaluations": len(built),
        "distinct_nontrivial": len(nontrivial),
        "rule": "one case = (generated program, template assignment): built with World, every element "
                "evaluated live, exported twice (as is / all cached flags flipped), packages queried "
                "twice without modelx; distinct by SHA-1 of (definitions, template assignment); "
                "non-trivial = some formula uses a global name (call/read) and the package returned "
                "at least one value for at least two queried elements",
        "elements_compared": len(qev),
        "live_vs_oracle_checked": len(qev),
        "elements_by_class": dict(by_class), "traces_by_world": dict(by_kind),
        "traces_by_variant": dict(by_variant), "cells_by_template": dict(by_template),
        "program_features": dict(feats), "package_results": dict(vals),
        "call_spellings": dict(spell), "itemspace_spellings": dict(ispell),
        "programs_not_buildable_skipped": len({t["hdr"]["seed"] for t in unbuilt}),
        "labels_raised": dict(labels_seen),
        "negative_controls": nc,
        "modelx_from": os.path.dirname(modelx.__file__),
        "cpu_s": {"production": round(c1 - c0, 1), "tlc": round(c2 - c1, 1)},
        "trace_production_s": round(t_prod, 1), "tlc_trace_wall_s": round(stats["tlc_wall_s"], 1),
        "exhaustive": False,
    }
    res["coverage"] = cov
    res["summary"] = "programs=%d cases=%d elements=%d comparisons=%d states=%d neg=%d/%d labels=%s" % (
        cov["programs"], len(built), len(qev), comparisons, cov["states"], nc["rejected"],
        nc["attempted"], dict(labels_seen))
    return res


def replay(pid, path):
    case = json.load(open(path))
    tr = xd.replay_case(case)
    res = {"level": LEVEL[pid], "violations": [], "coverage": {}}
    if not tr["hdr"]["built"]:
        res["machinery_failure"] = "case cannot be built: %s" % tr["hdr"]["builderr"]
        res["summary"] = "not built"
        return res
    verdicts, _ = pl.judge([_for_tlc(tr)], module=MODULE, cfg=CFG, procs=1)
    v = verdicts[0]
    for lab, l in sorted(v["viol"], key=lambda x: x[1]):
        if lab.startswith("C15.") or lab.startswith("KF:C15."):
            res["violations"].append({"label": lab, "line": l, "replay": path})
        elif lab.startswith("MACH."):
            res["machinery_failure"] = "%s at event %d" % (lab, l)
    res["summary"] = "replayed %d events, labels=%r" % (v["total"], v["viol"])
    return res
