"""C20: concretisation of the abstract sources of spec/MxFormulaBase.tla and observation of
what modelx made of them.

A case (printed by TLC from spec/MxFormula.tla) has
    lay    : the layout record
    text   : Text(lay), the abstract physical lines [id, k, col, d]
    via    : "new" | "set" | "dec",  cname: the name the cells must get,  eofnl,  script
render(case) turns the abstract lines into Python text (every line carries its id: a marker
`L<id>_` in a comment, a name such as v<id>, or the literal 1000+id), and Observer maps
formula.source back to <<id, col>> pairs.  Nothing here decides anything about the property:
the observations go to TLC (spec/MxFormulaTrace.tla).
"""
import ast
import inspect
import re
import zlib

ERR = -1000001
SAMPLES = [(1, 2), (3, 0), (4,), ()]
NEWID = 900

ORIG_DOCS = {1: "sq doc", 2: "dq doc", 3: "ml doc\nmore doc\n", 4: 'say "hi"', 5: "raw \\d doc",
             6: "ws doc\n\n"}     # (6: the middle physical line is the indentation only)
NEW_DOCS = {11: "new doc one", 12: "first line\nsecond line", 13: "it's a doc",
            14: 'new say "hi"', 15: "back\\nslash", 16: 'tri"""ple', 17: 'ends in """'}
ESC_DOC = {25: "back\nslash"}
ALL_DOCS = dict(ORIG_DOCS)
ALL_DOCS.update(NEW_DOCS)
ALL_DOCS.update(ESC_DOC)

SPACEY = {"hdrB", "lamA", "lamB", "lpre", "lpost", "lsib"}   # continuation lines: base + blanks


def base_col(lay):
    return {"s0": 0, "s4": 4, "s8": 8, "t1": 1}[lay["ws"]]


def ws_of(lay, kind, col):
    """The white space of a line of `col` characters."""
    if lay["ws"] != "t1":
        return " " * col
    b = 1
    if kind in SPACEY and col >= b:
        return "\t" * b + " " * (col - b)
    return "\t" * col


def doc_literal_lines(code):
    """Physical lines (without indentation) of the docstring `code` as written in a source."""
    if code == 1:
        return ["'sq doc'"]
    if code == 2:
        return ['"""dq doc"""']
    if code == 3:
        return ['"""ml doc', "more doc", '"""']
    if code == 4:
        return ["'''say \"hi\"'''"]
    if code == 5:
        return ['r"""raw \\d doc"""']
    return ('"""' + ALL_DOCS[code] + '"""').split("\n")      # what replace_docstring writes


def _params_text(lay):
    if lay["hdr"] == "norm":
        return "x, y"
    if lay["hdr"] == "ann":
        return "x: int, y: 'int' = 2"
    return "x, y=2"


def return_expr(text):
    """3 * x + 5 * y + G plus one term per contributing body line."""
    terms = ["3 * x", "5 * y", "G"]
    for ln in text:
        k, i = ln["k"], ln["id"]
        if k in ("stmt", "stmttc"):
            terms.append("v%d" % i)
        elif k == "ndefA":
            terms.append("f(0)")
        elif k == "nlam":
            terms.append("h%d(0)" % i)
        elif k == "nclsA":
            terms.append("K%d.k" % i)
        elif k == "compr":
            terms.append("len(c%d)" % i)
        elif k == "mlA":
            terms.append("m%d" % i)
        elif k == "strA":
            terms.append("len(s%d)" % i)
    return " + ".join(terms)


def _dec_last_index(case):
    """Index (in text) of the first physical line of the last decorator, for via == dec."""
    last = None
    for n, ln in enumerate(case["text"]):
        if ln["k"] in ("deco1", "decoc", "decomA"):
            last = n
    return last


def def_line_text(case, n, name="f", doc_override=None):
    """Text (without indentation) of the abstract line n of a def layout."""
    lay, text = case["lay"], case["text"]
    ln = text[n]
    k, i = ln["k"], ln["id"]
    expr = return_expr(text)
    dec = _dec_last_index(case) if case["via"] == "dec" else None
    if k == "lead":
        return "# lead comment L%d_" % i
    if k == "mid":
        return "# mid comment L%d_" % i
    if k == "decocmt":
        return "# comment between decorators L%d_" % i
    if k == "deco1":
        return "@mx.defcells" if dec == n else "@deco_%d" % i
    if k == "decoc":
        return '@mx.defcells(name="foo")' if dec == n else "@decoc_%d(1)" % i
    if k == "decomA":
        return "@mx.defcells(space=None," if dec == n else "@decoc_%d(1," % i
    if k == "decomB":
        return 'name="foo")' if dec is not None and dec == n - 1 else "%d)" % (1000 + i)
    if k == "hdr":
        return "def %s(x, y):" % name
    if k == "hdrann":
        return "def %s(x: int, y: 'int' = 2) -> int:" % name
    if k == "hdrA":
        return "def %s(x," % name
    if k == "hdrB":
        return "y=2):"
    if k in ("one", "onetc"):
        d = ln["d"] if doc_override is None else doc_override
        doc = "" if d == 0 else doc_literal_lines(d)[0] + "; "
        tc = "  # tc L%d_" % i if k == "onetc" else ""
        return "def %s(x, y=2): %sreturn %s%s" % (name, doc, expr, tc)
    if k == "doc":
        first = n
        while first > 0 and text[first - 1]["k"] == "doc":
            first -= 1
        return doc_literal_lines(ln["d"])[n - first]
    if k == "stmt":
        return "v%d = %d" % (i, i)
    if k == "stmttc":
        return "v%d = %d  # tc L%d_" % (i, i, i)
    if k == "cmt":
        return "# body comment L%d_" % i
    if k == "c0cmt":
        return "# col0 comment L%d_" % i
    if k == "last":
        return "# last comment L%d_" % i
    if k == "blank":
        return ""
    if k == "ndeco":
        return "@staticmethod"
    if k == "ndefA":
        return "def f(z):"
    if k == "ndefB":
        return "return z + %d" % (i - 1)
    if k == "nlam":
        return "h%d = lambda z: z + %d" % (i, i)
    if k == "nclsA":
        return "class K%d:" % i
    if k == "nclsB":
        return "k = %d" % (i - 1)
    if k == "compr":
        return "c%d = [i for i in range(%d)]" % (i, i)
    if k == "mlA":
        return "m%d = (%d +" % (i, i)
    if k == "mlB":
        return "%d - %d)" % (1000 + i, 1000 + i)
    if k == "strA":
        return 's%d = """a%d' % (i, 1000 + i)
    if k == "strB":
        return 'b%d"""' % (1000 + i)
    if k == "ret":
        return "return " + expr
    if k == "rettc":
        return "return %s  # tc L%d_" % (expr, i)
    raise ValueError("unknown line kind %r" % k)


# ---------------------------------------------------------------------------
# lambdas

def lambda_parts(lay):
    """(first part, second part) of the lambda expression; a line break may sit between."""
    lp, lb, ml = lay["lpar"], lay["lbody"], lay["ml"]
    params = {"xy": "x, y=2", "x": "x", "none": ""}[lp]
    t1, t2 = {"xy": ("3 * x", "5 * y + G"), "x": ("3 * x", "G"), "none": ("G", "100")}[lp]
    if lb == "compr":
        t2 += " + sum([i for i in range(3)])"
    elif lb == "nest":      # another lambda inside the body (second part), same value
        t2 = {"xy": "(lambda q: 5 * q)(y) + G", "x": "(lambda q: q)(G)",
              "none": "(lambda q: q)(100)"}[lp]
    elif lb == "pp":
        t1, t2 = "(%s)" % t1, "(%s)" % t2
    head = "lambda %s: " % params if params else "lambda: "
    if ml == "own":
        return head + "(" + t1 + " +", t2 + ")"
    if ml == "outer":
        return head + t1 + " +", t2
    if ml == "bs":
        return head + t1 + " + \\", t2
    return head + t1 + " + " + t2, None


def lambda_pre_post(lay):
    e = lay["embed"]
    return {"bare": ("", ""), "assign": ("fn = ", ""), "semi": ("z = 1; fn = ", ""),
            "call": ("fn = keep(", ", 1)"), "paren": ("fn = (", ")")}[e]


MULTI = ("dict", "pair", "same")


def multi_lines(case):
    """Statements holding several lambdas: the entry lay.pick is the lambda of the layout, the
    others are siblings with another signature and other values."""
    lay, text = case["lay"], case["text"]
    a, b = lambda_parts(lay)
    e, pick = lay["embed"], lay["pick"]
    n = 3 if e == "dict" else 2
    sib = lambda i: "lambda z: z - %d" % (1000 + i)
    key = lambda i: '"k%d": ' % i if e == "dict" else ""
    opener = "TABLE = {" if e == "dict" else "p1, p2 = mk("
    closer = "}" if e == "dict" else ")"
    if e == "same":
        ents = [a if i == pick else sib(i) for i in (1, 2)]
        return [[text[0]["id"], "lamA", opener + ", ".join(ents) + closer, a]]
    out, it = [], iter(text)
    for i in range(1, n + 1):
        head = (opener if i == 1 else "") + key(i)
        tail = closer if i == n else ","
        ln = next(it)
        if i != pick:
            out.append([ln["id"], "lsib", head + sib(i) + tail, None])
        elif b is None:
            out.append([ln["id"], "lamA", head + a + tail, a])
        else:
            out.append([ln["id"], "lamA", head + a, a])
            ln = next(it)
            out.append([ln["id"], "lamB", b + tail, b])
    return out


def lambda_object(ns, lay):
    """The lambda object of the layout in the namespace of the executed module."""
    get = ns.get if isinstance(ns, dict) else (lambda k: getattr(ns, k))
    if lay["embed"] == "dict":
        return get("TABLE")["k%d" % lay["pick"]]
    if lay["embed"] in ("pair", "same"):
        return get("p%d" % lay["pick"])
    return get("fn")


def lambda_lines(case, for_oracle=False):
    """[(id, kind, text without indentation, lambda part of it)] per physical line."""
    lay, text = case["lay"], case["text"]
    if lay["embed"] in MULTI:
        out = multi_lines(case)
        if lay["cmt"]:
            out[-1][2] += "  # trailing L%d_" % out[-1][0]
        return out
    a, b = lambda_parts(lay)
    pre, post = lambda_pre_post(lay)
    if for_oracle and lay["embed"] == "bare":
        pre = "fn = "
    out = []
    for ln in text:
        k = ln["k"]
        if k == "lpre":
            out.append([ln["id"], k, pre.rstrip(), None])
        elif k == "lamA":
            if lay["ml"] == "before":
                sep = "," if lay["embed"] == "call" else ""
                out.append([ln["id"], k, a + sep, a])
            elif lay["ml"] == "after":
                sep = "," if lay["embed"] == "call" else ""
                out.append([ln["id"], k, pre + a + sep, a])
            elif b is None:
                out.append([ln["id"], k, pre + a + post, a])
            else:
                out.append([ln["id"], k, pre + a, a])
        elif k == "lamB":
            out.append([ln["id"], k, b + post, b])
        elif k == "lpost":
            out.append([ln["id"], k, post.lstrip(", "), None])
        else:
            raise ValueError(k)
    if lay["cmt"]:
        out[-1][2] += "  # trailing L%d_" % out[-1][0]
    return out


# ---------------------------------------------------------------------------
# whole texts

def nesting(lay):
    """Lines that put a statement at the base indentation of the layout inside a module."""
    ws = lay["ws"]
    if ws == "s0":
        return []
    if ws == "s4":
        return ["if True:"]
    if ws == "s8":
        return ["if True:", "    if True:"]
    return ["if True:"]


def render(case, for_oracle=False):
    """-> dict(lines=[physical lines], text=str for text forms, module=str for object forms,
               keys={stripped text -> id})"""
    lay, text = case["lay"], case["text"]
    isdef = lay["form"] in ("deftext", "funcobj")
    c = dict(case)
    if for_oracle:
        c = dict(case, via="new")
    lines, keys = [], {}
    if isdef:
        for n, ln in enumerate(text):
            body = def_line_text(c, n)
            # (a docstring line without text is written as its indentation: white space only)
            lines.append(ws_of(lay, ln["k"], ln["col"]) + body if body or ln["k"] == "doc" else "")
            if body:
                keys[body] = ln["id"]
    else:
        for (i, k, body, part), ln in zip(lambda_lines(c, for_oracle), text):
            lines.append(ws_of(lay, k, ln["col"]) + body)
            if part is not None:
                keys[part] = i
    res = {"lines": lines, "keys": keys}
    res["text"] = "\n".join(lines) + ("\n" if case.get("eofnl", True) else "")
    pre = ["import modelx as mx", "", "def _p(f):", "    return f", "", "def _pc(*a, **k):",
           "    return _p", "", "def keep(f, *a, **k):", "    return f", "",
           "def mk(*a):", "    return a", ""]
    for ln in text:
        if ln["k"] == "deco1":
            pre.append("deco_%d = _p" % ln["id"])
        elif ln["k"] in ("decoc", "decomA"):
            pre.append("decoc_%d = _pc" % ln["id"])
    b = ws_of(lay, "stmt", base_col(lay))
    res["module"] = "\n".join(pre + nesting(lay) + lines + [b + "z_after = 1", ""])
    return res


def plain_values(case, g):
    """The values of the function as the user wrote it: the text placed at its indentation in
    a module (decorators passing the function through), executed by Python alone."""
    src = render(case, for_oracle=True)["module"].replace("import modelx as mx\n", "")
    ns = {"G": g}
    exec(compile(src, "<c20-oracle>", "exec"), ns)
    fn = ns["f"] if case["lay"]["form"] in ("deftext", "funcobj") else lambda_object(ns, case["lay"])
    return [_call(fn, a) for a in SAMPLES]


def plain_doc(case, g):
    """__doc__ of the function as the user wrote it (Python alone), None for lambdas."""
    if case["lay"]["form"] not in ("deftext", "funcobj"):
        return None
    src = render(case, for_oracle=True)["module"].replace("import modelx as mx\n", "")
    ns = {"G": g}
    exec(compile(src, "<c20-oracle>", "exec"), ns)
    return ns["f"].__doc__


def _call(fn, args):
    try:
        v = fn(*args)
        return int(v) if isinstance(v, int) and abs(v) < 1000000 else ERR
    except Exception:
        return ERR


# ---------------------------------------------------------------------------
# observation

EMPTY_OBS = {"ok": False, "err": "", "islam": False, "cname": "", "defname": "", "decos": 0,
             "lines": [], "nl": False, "compiles": False, "defines": False, "params": [],
             "vals": [], "savals": [], "doc": {"code": 0, "exact": True, "cont": 0}, "hash": 0,
             "docsame": True}


class Observer:
    def __init__(self, case):
        self.case = case
        self.lay = case["lay"]
        self.isdef = self.lay["form"] in ("deftext", "funcobj")
        self.rendered = render(case)
        self.newdoc = {}
        for code in list(NEW_DOCS) + list(ESC_DOC):
            for j, t in enumerate(doc_literal_lines(code)):
                self.newdoc.setdefault(t, NEWID + 1 + j)

    def _keys(self, defname):
        """stripped text -> id for the current def name (only the top def line carries it)."""
        if not self.isdef:
            return dict(self.rendered["keys"])
        keys = {}
        for n, ln in enumerate(self.case["text"]):
            if ln["k"] in ("one", "onetc"):
                for d in [0, 2] + list(NEW_DOCS) + list(ESC_DOC):
                    if d and len(doc_literal_lines(d)) > 1:
                        continue
                    keys[def_line_text(self.case, n, defname or "f", doc_override=d)] = ln["id"]
            elif ln["k"] in ("hdr", "hdrann", "hdrA"):
                keys[def_line_text(self.case, n, defname or "f")] = ln["id"]
            else:
                t = def_line_text(self.case, n)
                if t:
                    keys.setdefault(t, ln["id"])
        return keys

    def source_lines(self, src, tree, defname, islam):
        """formula.source as <<id, col>> pairs.  A line is recognised by its text; the lines of
        the def's docstring statement that are not lines of the layout are NEWID+1, +2, ...
        (whatever the quoting); a lambda is read at the extent of the lambda node (enclosing
        parentheses are not part of the expression)."""
        keys = self._keys(defname)
        hdr_line, doc_rng, doc_node = 0, None, None
        if islam:
            seg = ast.get_source_segment(src, tree.body[0].value)
            phys = (seg if seg is not None else src).split("\n")
        else:
            phys = src.split("\n")
            if src.endswith("\n"):
                phys = phys[:-1]
            if tree is not None and defname:
                fn = tree.body[0]
                hdr_line = fn.lineno
                b0 = fn.body[0]
                if isinstance(b0, ast.Expr) and isinstance(b0.value, ast.Constant) \
                        and isinstance(b0.value.value, str):
                    doc_rng, doc_node = (b0.lineno, b0.end_lineno), b0.value
        if islam:       # a continuation backslash is not part of the expression
            keys = {k.rstrip(" \\"): v for k, v in keys.items()}
        out = []
        for n, p in enumerate(phys, 1):
            s = p.strip()
            if islam:
                s = s.rstrip(" \\")
            if not s:
                docs = [ln["id"] for ln in self.case["text"] if ln["k"] == "doc"]
                if doc_rng and doc_rng[0] < n < doc_rng[1] and self.case["lay"].get("doc") == 6 \
                        and len(docs) == doc_rng[1] - doc_rng[0] + 1:
                    # the white-space-only line inside the original docstring: its white space
                    # is part of the string
                    out.append([docs[n - doc_rng[0]], len(p)])
                    continue
                out.append([0, 0])
                continue
            col = len(p) - len(p.lstrip())
            if s in keys:
                out.append([keys[s], col])
            elif doc_rng and doc_rng[0] <= n <= doc_rng[1] and n != hdr_line:
                out.append([NEWID + 1 + n - doc_rng[0], col])
            elif doc_rng and n == hdr_line and doc_rng == (n, n):
                # one-line body: cut the docstring literal (and its separator) out
                rest = p[:doc_node.col_offset] + p[doc_node.end_col_offset:].lstrip(" ;")
                out.append([keys.get(rest.strip(), -1), col])
            elif tree is None and s in self.newdoc:
                out.append([self.newdoc[s], col])
            else:
                out.append([-1, col])
        return out

    def doc_of(self, d):
        if d is None:
            return {"code": 0, "exact": True, "cont": 0}
        code = -1
        for k, t in ALL_DOCS.items():
            if inspect.cleandoc(t) == inspect.cleandoc(d):
                code = k
                break
        parts = d.split("\n")
        cont = len(parts[1]) - len(parts[1].lstrip()) if len(parts) > 1 and parts[1].strip() else 0
        return {"code": code, "exact": code != -1 and d == ALL_DOCS[code], "cont": cont}

    def observe(self, cells, g):
        src = cells.formula.source
        o = dict(EMPTY_OBS)
        o["ok"] = True
        o["cname"] = cells.name
        defname, decos, islam = "", 0, False
        tree = None
        try:
            tree = ast.parse(src)
            if len(tree.body) == 1 and isinstance(tree.body[0], ast.FunctionDef):
                defname = tree.body[0].name
                decos = len(tree.body[0].decorator_list)
            elif len(tree.body) == 1 and isinstance(tree.body[0], ast.Expr) and \
                    isinstance(tree.body[0].value, ast.Lambda):
                islam = True
        except SyntaxError:
            tree = None
            decos = sum(1 for p in src.split("\n") if p.startswith("@"))
        o["defname"], o["decos"], o["islam"] = defname, decos, islam
        o["lines"] = self.source_lines(src, tree, defname, islam)
        o["nl"] = src.endswith("\n")
        o["hash"] = zlib.crc32(src.encode()) & 0xFFFFF
        o["params"] = [str(p) for p in cells.parameters]
        o["vals"] = [_call(cells, a) for a in SAMPLES]
        # stand-alone: the source alone, the global bound by hand
        ns = {"G": g}
        fn = None
        try:
            if islam:
                fn = eval(compile(src, "<c20-source>", "eval"), ns)
            else:
                exec(compile(src, "<c20-source>", "exec"), ns)
                fn = ns.get(cells.name)
            o["compiles"] = True
        except Exception:
            o["compiles"] = False
        o["defines"] = callable(fn)
        o["savals"] = [_call(fn, a) for a in SAMPLES] if callable(fn) else []
        o["doc"] = self.doc_of(cells.doc)
        # the documentation string is the one of the function as the user wrote it, character
        # by character (only meaningful while the docstring is the original one: the trace
        # specification looks at it for the capture event only)
        if self.isdef:
            if not hasattr(self, "origdoc"):
                self.origdoc = plain_doc(self.case, g)
            o["docsame"] = cells.doc == self.origdoc
        else:
            o["docsame"] = True
        return o
