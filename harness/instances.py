"""Small exhaustive instances for the algorithm-layer models.

An instance is a JSON file {"inits": [definitions...], "ops": [operation...]}
read by TLC (Instance == JsonDeserialize(IOEnv.MC_INSTANCE)) *and* by the
harness when it replays the histories TLC prints, so both sides share one
source of truth.
"""
import itertools
import json
import random


def F(ps, ops, catch=False, onerr=900, style="def"):
    return {"ps": ps, "ops": ops, "catch": catch, "onerr": onerr, "style": style}


I = [["i", 0, 0]]


def eval_instance(tier, seed=0):
    """Spaces S, T and T.W, three cells T.W.a < S.b < S.c, references T.W.q, S.r and a
    model-level g; every dependency-path kind of C02 appears in some formula."""
    flib = {
        # a (in T)
        "A1": F(I, [["const", 1], ["read", ["q"]]]),                      # ref by name
        "A2": F(I, [["const", 1], ["read", ["g"]]]),                      # model-level ref by name
        "A3": F(I, [["const", 2], ["read", ["_model", "S", "r"]]]),       # ref by attribute path
        "A4": F(I, [["const", 3], ["read", ["_model", "S", "g"]]]),       # model-level ref reached through a space
        "A5": F(I, [["const", 4], ["raise", 1]]),
        "A6": F(I, [["const", 5], ["none"]]),
        "A7": F(I, [["const", 6], ["read", ["_model", "T", "W", "q"]]]),       # own space's ref, by attribute path
        # b (in S)
        "B1": F(I, [["const", 10], ["call", ["_model", "T", "W", "a"], [["k", 1]], "pos"]]),
        "B2": F(I, [["const", 10], ["call", ["_model", "T", "W", "a"], [["k", 1]], "sub"], ["read", ["r"]]]),
        "B3": F(I, [["const", 20], ["read", ["_model", "T", "W", "q"]]]),
        "B4": F(I, [["const", 10], ["call", ["b"], [["dec", 1]], "pos"],
                    ["call", ["_model", "T", "W", "a"], [["c", 0]], "kw"]]),
        "B5": F(I, [["const", 30], ["call", ["_model", "T", "W", "a"], [["k", 1]], "pos"]], catch=True),
        # c (in S)
        "C1": F(I, [["const", 100], ["call", ["b"], [["k", 1]], "pos"],
                    ["call", ["_model", "T", "W", "a"], [["dec", 1]], "pos"]]),
        "C2": F(I, [["const", 100], ["call", ["b"], [["k", 1]], "kw"], ["raise", 2]]),
        "C3": F(I, [["const", 200], ["call", ["b"], [["k", 1]], "pos"], ["read", ["_space", "r"]]]),
        "C4": F(I, [["const", 300], ["call", ["_model", "T", "W", "a"], [["k", 1]], "pos"],
                    ["call", ["b"], [["k", 1]], "pos"]], catch=True),
        # the same reference read by path in the caller BEFORE the call and again below it
        "C5": F(I, [["const", 400], ["read", ["_model", "T", "W", "q"]], ["call", ["b"], [["k", 1]], "pos"]]),
    }
    alts = {"a": ["A1", "A2", "A3", "A4", "A5", "A6", "A7"], "b": ["B1", "B2", "B3", "B4", "B5"],
            "c": ["C1", "C2", "C3", "C4", "C5"]}
    # always included: one reference reached by attribute path at several depths of one
    # evaluation, with uncached cells in between (the hand-over of pending reference reads
    # from an uncached callee to its callers, system.py CallStack.pop)
    curated = [("A7", "B1", "C5", False, True, True), ("A7", "B1", "C5", False, True, False),
               ("A7", "B1", "C5", False, False, True), ("A3", "B1", "C3", False, True, True),
               ("A7", "B3", "C5", True, False, True), ("A4", "B4", "C1", False, True, True)]
    sigs = {"a": ["i"], "b": ["i"], "c": ["i"]}

    def defs(fa, fb, fc, ca, cb, cc):
        return {
            "flib": flib, "sigs": sigs,
            "sp": [["S"], ["T"], ["T", "W"]],
            "bases": [[["S"], []], [["T"], []], [["T", "W"], []]],
            "cells": [[["T"], {}], [["T", "W"], {"a": {"f": fa, "cached": ca, "an": 0}}],
                      [["S"], {"b": {"f": fb, "cached": cb, "an": 0},
                               "c": {"f": fc, "cached": cc, "an": 0}}]],
            "refs": [[["T"], {}], [["T", "W"], {"q": {"v": ["int", 1, [], ""], "mode": "auto"}}],
                     [["S"], {"r": {"v": ["int", 1, [], ""], "mode": "auto"}}]],
            "grefs": {"g": {"v": ["int", 7, [], ""]}},
            "pf": [], "inp": [], "an": False,
            "span": [[["S"], 0], [["T"], 0], [["T", "W"], 0]],
        }
    combos = list(itertools.product(alts["a"], alts["b"], alts["c"],
                                    [True, False], [True, False], [True, False]))
    rng = random.Random(seed)
    if tier == "quick":
        combos = curated + rng.sample(combos, 10)
    elif tier == "thorough":
        combos = curated + rng.sample(combos, 120)
    inits = [defs(*c) for c in combos]
    ops = []
    for p, c in ((["T", "W"], "a"), (["S"], "b"), (["S"], "c")):
        for k in (0, 1):
            ops.append({"op": "call", "c": [p, [], c], "args": [k], "sp": "pos"})
    ops.append({"op": "set_value", "c": [["T", "W"], [], "a"], "args": [0], "v": 50})
    ops.append({"op": "set_value", "c": [["S"], [], "b"], "args": [1], "v": 60})
    ops.append({"op": "clear_at", "c": [["T", "W"], [], "a"], "args": [1]})
    ops.append({"op": "clear_at", "c": [["S"], [], "b"], "args": [0]})
    ops.append({"op": "clear", "c": [["T", "W"], [], "a"]})
    ops.append({"op": "clear_all", "c": [["S"], [], "b"]})
    for s, n, v in ((["T", "W"], "q", 2), (["S"], "r", 2), ([], "g", 8), (["S"], "g", 9)):
        ops.append({"op": "set_ref", "s": s, "n": n, "v": ["int", v, [], ""], "mode": "auto"})
    for s, n in ((["T", "W"], "q"), ([], "g"), (["S"], "g")):
        ops.append({"op": "del_ref", "s": s, "n": n})
    ops.append({"op": "set_formula", "s": ["T", "W"], "c": "a", "f": "A1"})
    ops.append({"op": "set_formula", "s": ["T", "W"], "c": "a", "f": "A5"})
    ops.append({"op": "set_formula", "s": ["S"], "c": "b", "f": "B1"})
    for s, c in ((["T", "W"], "a"), (["S"], "b")):
        for b in (True, False):
            ops.append({"op": "set_cached", "s": s, "c": c, "b": b})
    # a whole space goes away: its values (inputs too), the values computed from its cells,
    # and the values that reached its references / model-level references through it
    ops.append({"op": "del_space", "p": ["T"]})
    ops.append({"op": "rename_space", "p": ["T"], "nm": "X"})
    return {"inits": inits, "ops": ops, "curated": len(curated)}


def inherit_instance(tier, seed=0):
    """Four top-level spaces, cells x < y, an int reference r and an object-valued
    reference o; every ordered-base DAG on them is reachable by add/remove_bases."""
    flib = {
        "X1": F([], [["const", 1], ["read", ["r"]]]),
        "X2": F([], [["const", 2]]),
        "X3": F([], [["const", 3], ["read", ["r"]]]),
        "Y1": F([], [["const", 10], ["call", ["x"], [], "pos"]]),
        "Y2": F([], [["const", 20], ["call", ["o", "x"], [], "pos"]]),
    }
    sigs = {"x": [], "y": []}
    sp = [["A"], ["B"], ["C"], ["D"]]
    rng = random.Random(seed)

    def defs(cells, refs, bases):
        return {"flib": flib, "sigs": sigs, "sp": sp,
                "bases": [[p, bases.get(p[0], [])] for p in sp],
                "cells": [[p, cells.get(p[0], {})] for p in sp],
                "refs": [[p, refs.get(p[0], {})] for p in sp],
                "grefs": {}, "pf": [], "inp": [], "an": False, "span": [[p, 0] for p in sp]}
    C = lambda f: {"f": f, "cached": True, "an": 0}
    R = lambda v, mode="auto": {"v": v, "mode": mode}
    inits = [
        defs({}, {}, {}),
        defs({"A": {"x": C("X1")}}, {"A": {"r": R(["int", 1, [], ""])}}, {}),
        defs({"A": {"x": C("X1")}, "B": {"x": C("X2"), "y": C("Y1")}}, {"B": {"r": R(["int", 2, [], ""])}},
             {"C": [["A"]]}),
        defs({"A": {"x": C("X1"), "y": C("Y2")}},
             {"A": {"o": R(["sp", ["A"], [], ""], "relative"), "r": R(["int", 1, [], ""])}}, {"B": [["A"]]}),
        defs({"A": {"x": C("X1")}, "B": {"y": C("Y1")}},
             {"A": {"o": R(["ce", ["A"], [], "x"], "auto")}, "B": {"o": R(["sp", ["D"], [], ""], "absolute")}},
             {"C": [["A"], ["B"]], "D": []}),
        # diamond D(B, C), B(A), C(A): x defined in A, derived in the first branch B,
        # overridden in the later branch C -- D.x follows C (C3: D, B, C, A)
        defs({"A": {"x": C("X1"), "y": C("Y1")}, "C": {"x": C("X2")}}, {"A": {"r": R(["int", 1, [], ""])}},
             {"B": [["A"]], "C": [["A"]], "D": [["B"], ["C"]]}),
        # a base that is both direct and inherited: A(B), D(A, C, B) linearises D, A, C, B, so
        # D.x comes from C; without the direct B it is D, A, B, C and D.x comes from B
        defs({"B": {"x": C("X1")}, "C": {"x": C("X2")}}, {"B": {"r": R(["int", 1, [], ""])}},
             {"A": [["B"]], "D": [["A"], ["C"], ["B"]]}),
    ]
    if tier == "quick":
        inits = inits[1:4] + inits[5:7]
    ops = []
    names = ["A", "B", "C", "D"]
    for s in names:
        for b in names:
            if s != b:
                ops.append({"op": "add_bases", "s": [s], "bs": [[b]]})
                ops.append({"op": "remove_bases", "s": [s], "bs": [[b]]})
    ops.append({"op": "add_bases", "s": ["D"], "bs": [["B"], ["C"]]})
    ops.append({"op": "add_bases", "s": ["D"], "bs": [["C"], ["B"]]})
    for s in names:
        ops.append({"op": "new_cells", "s": [s], "c": "x", "rec": {"f": "X2", "cached": True, "an": 0}})
        ops.append({"op": "del_cells", "s": [s], "c": "x", "via": "attr"})
        ops.append({"op": "set_formula", "s": [s], "c": "x", "f": "X1"})
        if s in ("A", "C"):
            ops.append({"op": "set_formula", "s": [s], "c": "x", "f": "X3"})
        ops.append({"op": "set_ref", "s": [s], "n": "r", "v": ["int", 3, [], ""], "mode": "auto", "via": "set_ref"})
        ops.append({"op": "del_ref", "s": [s], "n": "r"})
    ops.append({"op": "new_cells", "s": ["A"], "c": "y", "rec": {"f": "Y1", "cached": True, "an": 0}})
    ops.append({"op": "new_cells", "s": ["B"], "c": "r", "rec": {"f": "X2", "cached": True, "an": 0}})
    ops.append({"op": "set_ref", "s": ["A"], "n": "o", "v": ["sp", ["A"], [], ""], "mode": "relative", "via": "set_ref"})
    ops.append({"op": "set_ref", "s": ["A"], "n": "o", "v": ["ce", ["A"], [], "x"], "mode": "auto", "via": "set_ref"})
    ops.append({"op": "set_ref", "s": ["B"], "n": "o", "v": ["sp", ["D"], [], ""], "mode": "relative", "via": "set_ref"})
    ops.append({"op": "set_ref", "s": ["B"], "n": "o", "v": ["sp", ["B"], [], ""], "mode": "absolute", "via": "set_ref"})
    ops.append({"op": "new_cells", "s": ["C"], "c": "o", "rec": {"f": "X2", "cached": True, "an": 0}})
    ops.append({"op": "del_ref", "s": ["A"], "n": "o"})
    # the space tree itself changes: deletion (with deriving subs and references into the
    # deleted space), creation with bases, and a defined cells renamed under its derivers
    structural = [{"op": "del_space", "p": ["A"]}, {"op": "del_space", "p": ["B"]}, {"op": "del_space", "p": ["D"]},
                  {"op": "new_space", "p": ["E"], "bases": [["A"]]},
                  {"op": "new_space", "p": ["E"], "bases": [["B"], ["A"]]},
                  {"op": "new_space", "p": ["A", "x"], "bases": []},
                  {"op": "rename_cells", "s": ["A"], "c": "x", "c2": "z"},
                  {"op": "rename_cells", "s": ["A"], "c": "x", "c2": "r"}]
    if tier == "quick":
        rng.shuffle(ops)
        rng.shuffle(structural)
        fx3 = [o for o in ops if o["op"] == "set_formula" and o["f"] == "X3"] + \
              [o for o in ops if o["op"] == "remove_bases" and o["s"] == ["D"] and o["bs"] == [["B"]]]
        keep = [o for o in ops if o["op"] in ("add_bases",)][:8] + [o for o in ops if o["op"] != "add_bases" and o["op"] != "remove_bases" and o not in fx3][:14] + fx3 + [o for o in ops if o["op"] == "remove_bases" and o not in fx3][:3] + structural[:4]
        ops = keep
    else:
        ops = ops + structural
    return {"inits": inits, "ops": ops}


def dyn_program(npar):
    """The concrete program behind the abstract MxDyn instance: P (1 or 2 parameters) with
    child C, a static S calling into instances, references at every level."""
    flib = {
        "PF1": {"ps": [["p", 0, 0]], "ops": [], "catch": False, "onerr": 0, "style": "pf"},
        "PF2": {"ps": [["p", 0, 0], ["pp", 1, 1]], "ops": [], "catch": False, "onerr": 0, "style": "pf"},
        "X1": F([], [["const", 100], ["read", ["p"]], ["read", ["r"]], ["read", ["g"]]]),
        "X2": F([], [["const", 200], ["read", ["p"]], ["read", ["r"]], ["read", ["g"]]]),
        "Z1": F([], [["const", 1000], ["read", ["s"]], ["read", ["p"]], ["call", ["_model", "P", "x"], [], "pos"]]),
        "Z2": F([], [["const", 2000], ["read", ["s"]], ["read", ["p"]], ["read", ["g"]]]),
        "W0": F([], [["const", 7], ["icall", ["_model", "P"], [["c", 0]], "x", [], "sub"]]),
        "W1": F([], [["const", 7], ["icall", ["_model", "P"], [["c", 1]], "x", [], "call"]]),
    }
    sp = [["S"], ["P"], ["P", "C"]]
    return {"flib": flib, "sigs": {"x": [], "z": [], "w0": [], "w1": []}, "sp": sp,
            "bases": [[p, []] for p in sp],
            "cells": [[["S"], {"w0": {"f": "W0", "cached": True, "an": 0},
                               "w1": {"f": "W1", "cached": True, "an": 0}}],
                      [["P"], {"x": {"f": "X1", "cached": True, "an": 0}}],
                      [["P", "C"], {"z": {"f": "Z1", "cached": True, "an": 0}}]],
            "refs": [[["S"], {}], [["P"], {"r": {"v": ["int", 1, [], ""], "mode": "auto"}}],
                     [["P", "C"], {"s": {"v": ["int", 2, [], ""], "mode": "auto"}}]],
            "grefs": {"g": {"v": ["int", 5, [], ""]}},
            "pf": [[["P"], "PF%d" % npar]], "inp": [], "an": False, "span": [[p, 0] for p in sp]}


def dyn_translate(inst, hist):
    """Abstract MxDyn history -> (definitions, concrete operations)."""
    npar = hist[0]["pf"]
    defs = dyn_program(npar)
    cur = {"x": "X1", "z": "Z1"}
    vals = {"Prefs": 1, "Crefs": 2, "gref": 5}
    ops = []
    for h in hist[1:]:
        k = h["op"]
        if k in ("get_item", "del_item"):
            ops.append(dict(h))
        elif k == "call_dyn":
            st = [["i", "", list(h["key"])]] + ([["c", "C", []]] if h["w"] == "C" else [])
            ops.append({"op": "call", "c": [["P"], st, "z" if h["w"] == "C" else "x"], "args": [], "sp": "pos"})
        elif k == "call_static":
            ops.append({"op": "call", "c": [["S"], [], "w%d" % h["key"][0]], "args": [], "sp": "pos"})
        elif k == "edit_cells":
            c, s = ("x", ["P"]) if h["m"] == "Pcells" else ("z", ["P", "C"])
            cur[c] = {"X1": "X2", "X2": "X1", "Z1": "Z2", "Z2": "Z1"}[cur[c]]
            ops.append({"op": "set_formula", "s": s, "c": c, "f": cur[c], "via": "prop"})
        elif k == "edit_ref":
            vals[h["m"]] += 1
            s, n = {"Prefs": (["P"], "r"), "Crefs": (["P", "C"], "s"), "gref": ([], "g")}[h["m"]]
            ops.append({"op": "set_ref", "s": s, "n": n, "v": ["int", vals[h["m"]], [], ""], "mode": "auto",
                        "via": "set_ref"})
        elif k == "set_pf":
            op = {"op": "set_pf", "s": ["P"]}
            if h["n"]:
                op["f"] = "PF%d" % h["n"]
            ops.append(op)
    # final sweep: every instance the history may have left + the static callers
    for key in ([[0], [1]] if True else []):
        pass
    return defs, ops


def dyn_instance(tier, seed=0):
    return {"inits": [dyn_program(1)], "ops": []}


INSTANCES = {"MxEval": eval_instance, "MxInherit": inherit_instance, "MxDyn": dyn_instance}
TRANSLATE = {"MxDyn": dyn_translate}


def stale71_instance():
    """Control instance for repair #71: S.b reads T.W.q by attribute path and calls T.W.a, which
    reads T.t by attribute path.  call b(1); T.t edited (clears a(1), and b(1) as its
    dependent); b(1) assigned; T.W.q edited."""
    flib = {"A3": F(I, [["const", 2], ["read", ["_model", "T", "t"]]]),
            "B6": F(I, [["const", 10], ["call", ["_model", "T", "W", "a"], [["k", 1]], "pos"],
                        ["read", ["_model", "T", "W", "q"]]])}
    defs = {"flib": flib, "sigs": {"a": ["i"], "b": ["i"]},
            "sp": [["S"], ["T"], ["T", "W"]],
            "bases": [[["S"], []], [["T"], []], [["T", "W"], []]],
            "cells": [[["T"], {}], [["T", "W"], {"a": {"f": "A3", "cached": True, "an": 0}}],
                      [["S"], {"b": {"f": "B6", "cached": True, "an": 0}}]],
            "refs": [[["T"], {"t": {"v": ["int", 1, [], ""], "mode": "auto"}}],
                     [["T", "W"], {"q": {"v": ["int", 1, [], ""], "mode": "auto"}}], [["S"], {}]],
            "grefs": {}, "pf": [], "inp": [], "an": False,
            "span": [[["S"], 0], [["T"], 0], [["T", "W"], 0]]}
    ops = [{"op": "call", "c": [["S"], [], "b"], "args": [1], "sp": "pos"},
           {"op": "set_ref", "s": ["T"], "n": "t", "v": ["int", 5, [], ""], "mode": "auto"},
           {"op": "set_value", "c": [["S"], [], "b"], "args": [1], "v": 60},
           {"op": "set_ref", "s": ["T", "W"], "n": "q", "v": ["int", 9, [], ""], "mode": "auto"}]
    return {"inits": [defs], "ops": ops, "curated": 1}


CONTROL_INSTANCES = {"stale71": stale71_instance}


def write_instance(module, tier, path, seed=0):
    inst = INSTANCES[module](tier, seed)
    with open(path, "w") as f:
        json.dump(inst, f)
    return inst
