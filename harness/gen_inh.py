"""Generator for the inheritance world (C03, C10, C11, C12, C13): spaces with
ordered bases, members defined / overridden / deleted in bases and subs,
object-valued references in the three modes, renames, deletions, and invalid
operations attempted at any point.
"""
import copy
import random

from .gen import Gen, tp, KEYS, INT_VALUES

PROFILES_INH = {
    "inherit": dict(call=22, new_space=6, del_space=3, add_bases=10, remove_bases=5,
                    new_cells=9, del_cells=5, set_formula=8, set_cached=2, set_ref=10,
                    del_ref=4, rename_cells=2, rename_space=2, set_value=3, invalid=9),
    "names": dict(call=10, new_space=10, del_space=5, add_bases=12, remove_bases=4,
                  new_cells=12, del_cells=5, set_formula=3, set_ref=12, del_ref=5,
                  rename_cells=5, rename_space=4, invalid=13),
    "delete": dict(call=25, new_space=6, del_space=10, add_bases=8, remove_bases=8,
                   new_cells=8, del_cells=10, set_formula=3, set_ref=6, del_ref=8,
                   rename_cells=3, rename_space=3, set_value=4, invalid=2),
    "refmode": dict(call=15, new_space=5, del_space=2, add_bases=14, remove_bases=6,
                    new_cells=4, del_cells=2, set_ref=30, del_ref=6, set_formula=3,
                    rename_space=1, invalid=3),
}

SPACE_NAMES = ["A", "B", "C", "D", "E"]
CELL_NAMES = ["x", "y", "z"]


def c3_mro(bases_of, s, memo=None):
    """C3 by borrowing Python's own implementation; None if impossible."""
    cls = {}

    def mk(p, stack=()):
        if p in cls:
            return cls[p]
        if p in stack:
            raise TypeError("cycle")
        bs = tuple(mk(tp(b), stack + (p,)) for b in bases_of.get(p, []))
        cls[p] = type("_".join(p) or "M", bs or (object,), {"_p": p})
        return cls[p]
    try:
        k = mk(tp(s))
    except TypeError:
        return None
    return [c._p for c in k.__mro__ if c is not object]


class GenInh(Gen):
    def __init__(self, seed, profile="inherit", **kw):
        super().__init__(seed, "eval", **kw)
        self.iprofile = profile

    def program(self):
        rng = self.rng
        n = rng.choice([3, 4, 4])
        sp = [[nm] for nm in SPACE_NAMES[:n]]
        if rng.random() < 0.5:
            sp.append([sp[0][0], "K"])
        mir = {"sp": [list(p) for p in sp], "cells": {tp(p): {} for p in sp},
               "refs": {tp(p): {} for p in sp}, "grefs": {}, "bases": {tp(p): [] for p in sp},
               "span": {tp(p): 0 for p in sp}, "an": False, "inp": {}}
        self.mir = mir
        for i, nm in enumerate(CELL_NAMES):
            self.rank[nm] = i
            self.sigs[nm] = [] if (i == 0 and rng.random() < 0.5) else [["i", 0, 0]]
        for nm in ("r", "s", "g"):
            self.refkind[nm] = "int"
        self.refkind["o"] = "obj"
        # some bases up front (acyclic: later spaces derive from earlier ones)
        tops = [p for p in sp if len(p) == 1]
        for i, p in enumerate(tops):
            cand = tops[:i]
            k = rng.choice([0, 0, 1, 1, 2])
            bs = rng.sample(cand, min(k, len(cand)))
            if bs and c3_mro({**{tp(q): mir["bases"][tp(q)] for q in sp}, tp(p): bs}, p):
                mir["bases"][tp(p)] = [list(b) for b in bs]
        for p in sp:
            for nm in CELL_NAMES:
                if rng.random() < 0.4 and nm not in self.enames(p, "cells"):
                    mir["cells"][tp(p)][nm] = None
            for nm in ("r", "s"):
                if rng.random() < 0.4:
                    mir["refs"][tp(p)][nm] = {"v": ["int", rng.choice(INT_VALUES), [], ""],
                                              "mode": rng.choice(["auto", "absolute", "relative"])}
        if rng.random() < 0.4:
            mir["grefs"]["g"] = {"v": ["int", 70, [], ""]}
        for p in sp:
            for nm in list(mir["cells"][tp(p)]):
                mir["cells"][tp(p)][nm] = {"f": self.formula(p, nm), "an": 0,
                                           "cached": rng.random() >= self.p_uncached}
        return self.defs_json()

    # -- effective members, for choosing sensible operations only -----------
    def mro(self, p):
        return c3_mro({tp(q): self.mir["bases"][tp(q)] for q in self.mir["sp"]}, p) or [tp(p)]

    def enames(self, p, kind):
        out = []
        for q in self.mro(p):
            for n in self.mir[kind].get(q, {}):
                if n not in out:
                    out.append(n)
        return out

    def all_cells(self):
        return [(p, c) for p in self.mir["sp"] for c in self.enames(p, "cells")]

    def cached_cells(self):
        return self.all_cells()

    def children(self, p):
        return [q[-1] for q in self.mir["sp"] if len(q) == len(p) + 1 and q[:len(p)] == list(p)]

    def formula(self, sp, name):
        """Formulas of the inheritance world resolve names in whatever space derives
        them: bare names only (siblings, references) plus `_space.` spellings."""
        rng = self.rng
        ps = self.sigs[name]
        ops = [["const", rng.choice([1, 2, 3, 5]) * (10 ** rng.choice([0, 1, 2]))]]
        rk = self.rank[name]
        for _ in range(rng.choice([1, 2, 2, 3])):
            k = rng.random()
            lower = [c for c in CELL_NAMES if self.rank[c] < rk]
            if k < 0.4 and lower:
                c = rng.choice(lower)
                cps = self.sigs[c]
                args = []
                for i in range(len(cps)):
                    args.append(["k", 1] if ps and rng.random() < 0.7 else ["c", rng.choice([0, 1])])
                path = rng.choice([[c], [c], ["_space", c], ["o", c]])
                sp_ = "pos" if len(path) == 1 else rng.choice(["pos", "sub" if args else "pos"])
                ops.append(["call", path, args, sp_])
            elif k < 0.5 and ps:
                ops.append(["call", [name], [["dec", 1]], "pos"])
            elif k < 0.85:
                choices = [["r"], ["s"], ["g"], ["_space", "r"], ["o", "r"], ["_model", "A", "r"]]
                # references of OTHER spaces (defined or derived there) reached by attribute path
                for q in self.mir["sp"]:
                    if list(q) != list(sp) and len(q) == 1:
                        for rn in ("r", "s"):
                            choices.append(["_model", q[0], rn])
                ops.append(["read", rng.choice(choices)])
            else:
                ops.append(["const", rng.choice([1, 2])])
        return self.new_fid({"ps": ps, "ops": ops, "catch": False, "onerr": 900, "style": "def"})

    # -- operations ----------------------------------------------------------
    def next_op(self):
        rng = self.rng
        q = getattr(self, "iqueue", None)
        if q:
            return q.pop(0)
        w = PROFILES_INH[self.iprofile]
        kinds = list(w)
        if w.get("invalid", 0) and rng.random() < 0.06:
            try:
                sc = self.mk_name_scenario()
            except (IndexError, KeyError, ValueError):
                sc = None
            if sc:
                self.iqueue = sc[1:]
                return sc[0]
        if w.get("remove_bases", 0) and rng.random() < 0.05:
            try:
                sc = self.mk_base_churn()
            except (IndexError, KeyError, ValueError):
                sc = None
            if sc:
                self.iqueue = sc[1:]
                return sc[0]
        for _ in range(60):
            kind = rng.choices(kinds, [w[k] for k in kinds])[0]
            try:
                op = getattr(self, "mk_" + kind)()
            except (IndexError, KeyError, ValueError):
                op = None       # nothing of that kind can be generated in the current state
            if op is not None:
                return op
        return {"op": "set_ref", "s": [], "n": "g", "v": ["int", 71, [], ""], "mode": "auto"}

    def mk_base_churn(self):
        """Scenario: a space with two or three bases loses the EARLIER ones one by one, then gains
        another base (the position of a new base must not depend on how many were there before)."""
        rng, sp = self.rng, self.mir["sp"]
        ops = []
        cand = [p for p in sp if len(self.mir["bases"][tp(p)]) >= 2]
        if cand and rng.random() < 0.7:
            s = rng.choice(cand)
            bs = [list(b) for b in self.mir["bases"][tp(s)]]
        else:
            s = rng.choice(sp)
            free = [q for q in sp if q != s and list(q) not in self.mir["bases"][tp(s)]
                    and tp(s) not in self.mro(q)]
            if len(free) < 2:
                return None
            add = rng.sample(free, 2)
            bs = [list(b) for b in self.mir["bases"][tp(s)]] + [list(b) for b in add]
            ops.append({"op": "add_bases", "s": list(s), "bs": [list(b) for b in add]})
        for b in bs[:-1]:
            ops.append({"op": "remove_bases", "s": list(s), "bs": [list(b)]})
        others = [q for q in sp if q != s and list(q) != bs[-1] and tp(s) not in self.mro(q)]
        if not others:
            return None
        ops.append({"op": "add_bases", "s": list(s), "bs": [list(rng.choice(others))]})
        return ops

    def mk_name_scenario(self):
        """Multi-step situations around name uniqueness (each step is an ordinary operation;
        the last one is the one that must be refused -- or leave names unique)."""
        rng = self.rng
        m = self.mir
        tops = [p for p in m["sp"] if len(p) == 1]
        k = rng.randrange(3)
        if k == 0:
            # a name that is a cells in one sub space and a reference in ANOTHER sub space
            cand = [p for p in tops if len([q for q in tops if q != p and tp(p) in self.mro(q)[1:]]) >= 2]
            if not cand:
                return None
            p = rng.choice(cand)
            subs = [q for q in tops if q != p and tp(p) in self.mro(q)[1:]]
            q1, q2 = rng.sample(subs, 2)
            free = [n for n in CELL_NAMES + ["v", "w"] if all(
                n not in self.enames(s_, "cells") and n not in self.enames(s_, "refs") and n not in self.children(s_)
                for s_ in [p] + subs)]
            if not free:
                return None
            n = rng.choice(free)
            if n not in self.sigs:                 # (a signature, once given, is shared by all namesakes)
                self.sigs[n] = [["i", 0, 0]]
                self.rank[n] = 0
            mk = lambda sp_: {"op": "new_cells", "s": list(sp_), "c": n,
                              "rec": {"f": self.formula(sp_, n), "cached": True, "an": 0}}
            ref = {"op": "set_ref", "s": list(q2), "n": n, "v": ["int", 8, [], ""], "mode": "auto", "via": "set_ref"}
            return rng.choice([[mk(q1), ref, dict(mk(p), expect="clash-in-other-sub")],
                               [ref, mk(q1), dict(mk(p), expect="clash-in-other-sub")]])
        if k == 1:
            # a model-level reference named like a child space / a cells of a space, then the
            # same name assigned in that space
            cand = [(p, n) for p in m["sp"] for n in self.children(p) + list(m["cells"][tp(p)])
                    if n not in m["grefs"] and [n] not in m["sp"]]
            if not cand:
                return None
            p, n = rng.choice(cand)
            if n in m["cells"][tp(p)] and not self.sigs.get(n):
                return None
            return [{"op": "set_ref", "s": [], "n": n, "v": ["int", 60, [], ""], "mode": "auto"},
                    {"op": "set_ref", "s": list(p), "n": n, "v": ["int", 9, [], ""], "mode": "auto",
                     "via": "attr", "expect": "clash"}]
        # a space created with references whose names its bases use for cells
        cand = [b for b in tops if m["cells"][tp(b)]]
        nm = self.free_space_name()
        if not cand or not nm:
            return None
        b = rng.choice(cand)
        n = rng.choice(list(m["cells"][tp(b)]))
        return [{"op": "new_space", "p": [nm], "bases": [list(b)],
                 "refs": {n: {"v": ["int", 7, [], ""], "mode": "auto"}}, "expect": "clash"}]

    def mk_call(self):
        cells = self.all_cells()
        if not cells:
            return None
        p, c = self.rng.choice(cells)
        return {"op": "call", "c": [list(p), [], c], "args": self.rand_args(c), "sp": "pos"}

    def mk_set_value(self):
        cells = self.all_cells()
        if not cells:
            return None
        p, c = self.rng.choice(cells)
        return {"op": "set_value", "c": [list(p), [], c], "args": self.rand_args(c, False),
                "v": self.rng.choice([500, 600])}

    def free_space_name(self):
        used = {q[0] for q in self.mir["sp"] if len(q) == 1}
        free = [n for n in SPACE_NAMES if n not in used]
        return self.rng.choice(free) if free else None

    def mk_new_space(self):
        rng = self.rng
        if rng.random() < 0.25 and self.mir["sp"]:
            parent = rng.choice([p for p in self.mir["sp"] if len(p) <= 1])
            nm = rng.choice(["K", "L"])
            if nm in self.children(parent) or nm in self.enames(parent, "cells") \
                    or nm in self.enames(parent, "refs"):
                return None
            p = list(parent) + [nm]
        else:
            nm = self.free_space_name()
            if not nm:
                return None
            p = [nm]
        tops = [q for q in self.mir["sp"] if len(q) == 1]
        bases = rng.sample(tops, min(len(tops), rng.choice([0, 0, 1, 2]))) if len(p) == 1 else []
        op = {"op": "new_space", "p": p, "bases": [list(b) for b in bases]}
        if rng.random() < 0.2:
            taken = set()
            for b in bases:
                taken |= set(self.enames(b, "cells")) | set(self.enames(b, "refs"))
            free = [n for n in ("r", "s", "t") if n not in taken]
            if free:
                op["refs"] = {rng.choice(free): {"v": ["int", rng.choice([1, 2, 3]), [], ""], "mode": "auto"}}
        return op

    def mk_del_space(self):
        if len(self.mir["sp"]) <= 2:
            return None
        p = self.rng.choice(self.mir["sp"])
        return {"op": "del_space", "p": list(p)}

    def mk_add_bases(self):
        rng = self.rng
        sp = self.mir["sp"]
        s = rng.choice(sp)
        cand = [q for q in sp if q != s and list(q) not in self.mir["bases"][tp(s)]]
        if not cand:
            return None
        bs = rng.sample(cand, min(len(cand), rng.choice([1, 1, 2])))
        return {"op": "add_bases", "s": list(s), "bs": [list(b) for b in bs]}

    def mk_remove_bases(self):
        cand = [p for p in self.mir["sp"] if self.mir["bases"][tp(p)]]
        if not cand:
            return None
        s = self.rng.choice(cand)
        bs = self.rng.sample(self.mir["bases"][tp(s)], 1)
        return {"op": "remove_bases", "s": list(s), "bs": [list(b) for b in bs]}

    def mk_new_cells(self):
        rng = self.rng
        p = rng.choice(self.mir["sp"])
        c = rng.choice(CELL_NAMES)
        if c in self.mir["cells"][tp(p)]:
            return None
        op = {"op": "new_cells", "s": list(p), "c": c,
              "rec": {"f": self.formula(p, c), "cached": rng.random() >= self.p_uncached, "an": 0}}
        if rng.random() < 0.2:
            op["via"] = "fname"         # space.new_cells(formula=f): the name comes from f
        return op

    def mk_del_cells(self):
        cand = [(p, c) for p in self.mir["sp"] for c in self.mir["cells"][tp(p)]]
        if not cand:
            return None
        p, c = self.rng.choice(cand)
        return {"op": "del_cells", "s": list(p), "c": c, "via": self.rng.choice(["attr", "item"])}

    def mk_set_formula(self):
        cells = self.all_cells()
        if not cells:
            return None
        p, c = self.rng.choice(cells)      # on a derived cells this overrides it in the sub
        return {"op": "set_formula", "s": list(p), "c": c, "f": self.formula(p, c),
                "via": self.rng.choice(["prop", "method"])}

    def mk_set_cached(self):
        cells = self.all_cells()
        if not cells:
            return None
        p, c = self.rng.choice(cells)
        return {"op": "set_cached", "s": list(p), "c": c, "b": self.rng.random() < 0.5}

    def obj_value(self, owner):
        rng = self.rng
        sp = self.mir["sp"]
        k = rng.random()
        if k < 0.35:
            return ["sp", list(owner), [], ""]
        if k < 0.6:
            cs = self.enames(owner, "cells")
            if cs:
                return ["ce", list(owner), [], rng.choice(cs)]
        if k < 0.75:
            ch = [q for q in sp if len(q) == len(owner) + 1 and q[:len(owner)] == list(owner)]
            if ch:
                return ["sp", list(rng.choice(ch)), [], ""]
        q = rng.choice(sp)
        if rng.random() < 0.5 or not self.enames(q, "cells"):
            return ["sp", list(q), [], ""]
        return ["ce", list(q), [], rng.choice(self.enames(q, "cells"))]

    def mk_set_ref(self):
        rng = self.rng
        m = self.mir
        if rng.random() < 0.12:
            return {"op": "set_ref", "s": [], "n": "g", "v": ["int", rng.choice([70, 80, 90]), [], ""],
                    "mode": "auto"}
        p = rng.choice(m["sp"])
        name = rng.choice(["r", "s", "o", "o", "g"])
        if name in self.enames(p, "cells") or name in self.children(p):
            return None
        if name == "o":
            v = self.obj_value(p)
            mode = rng.choice(["auto", "absolute", "relative"])
        else:
            v = ["int", rng.choice(INT_VALUES), [], ""]
            mode = rng.choice(["auto", "auto", "absolute", "relative"])
        return {"op": "set_ref", "s": list(p), "n": name, "v": v, "mode": mode, "via": "set_ref"}

    def mk_del_ref(self):
        cand = [(p, n) for p in self.mir["sp"] for n in self.mir["refs"][tp(p)]]
        if self.mir["grefs"] and self.rng.random() < 0.2:
            return {"op": "del_ref", "s": [], "n": "g"}
        if not cand:
            return None
        p, n = self.rng.choice(cand)
        return {"op": "del_ref", "s": list(p), "n": n}

    def mk_rename_cells(self):
        cand = [(p, c) for p in self.mir["sp"] for c in self.mir["cells"][tp(p)]]
        if not cand:
            return None
        p, c = self.rng.choice(cand)
        # only towards a higher rank, so that the renamed formula keeps calling lower ranks
        free = [n for n in CELL_NAMES if n not in self.enames(p, "cells")
                and self.sigs[n] == self.sigs[c] and self.rank[n] > self.rank[c]]
        if not free:
            return None
        return {"op": "rename_cells", "s": list(p), "c": c, "c2": self.rng.choice(free)}

    def mk_rename_space(self):
        p = self.rng.choice(self.mir["sp"])
        if len(p) == 1:
            nm = self.free_space_name()
        else:
            nm = self.rng.choice(["K", "L", "N"])
            if nm in self.children(p[:-1]):
                return None
        if not nm:
            return None
        return {"op": "rename_space", "p": list(p), "nm": nm}

    def mk_invalid(self):
        """Operations that must be rejected (C11) -- each rejection reason x an
        operation that can trigger it.  `expect` is informational only."""
        rng = self.rng
        m = self.mir
        sp = m["sp"]
        p = rng.choice(sp)
        k = rng.randrange(17)
        badname = rng.choice(["1x", "_p", "for", "a b", ""])
        if k >= 14:
            # a name that is free in p but taken, as a member of ANOTHER kind, in a
            # space deriving from p -- preferably not a direct sub space
            subs = [q for q in sp if q != p and tp(p) in self.mro(q)[1:]]
            far = [q for q in subs if tp(p) not in [tp(b) for b in m["bases"][tp(q)]]]
            if not subs:
                return None
            q = rng.choice(far) if far and rng.random() < 0.7 else rng.choice(subs)
            mine = self.enames(p, "cells") + self.enames(p, "refs") + self.children(p)
            if k == 14:   # cells (new or renamed) named like a reference / child of a sub space
                taken = [n for n in list(m["refs"][tp(q)]) + self.children(q) if n not in mine]
                if not taken:
                    return None
                nm = rng.choice(taken)
                self.sigs.setdefault(nm, [["i", 0, 0]])
                self.rank.setdefault(nm, 0)
                own = list(m["cells"][tp(p)])
                if own and rng.random() < 0.4:
                    return {"op": "rename_cells", "s": list(p), "c": rng.choice(own), "c2": nm,
                            "expect": "clash-in-sub"}
                return {"op": "new_cells", "s": list(p), "c": nm,
                        "rec": {"f": self.formula(p, nm), "cached": True, "an": 0},
                        "expect": "clash-in-sub"}
            if k == 15:   # reference named like a cells / child of a sub space
                taken = [n for n in list(m["cells"][tp(q)]) + self.children(q) if n not in mine]
                if not taken:
                    return None
                return {"op": "set_ref", "s": list(p), "n": rng.choice(taken), "v": ["int", 9, [], ""],
                        "mode": "auto", "via": "set_ref", "expect": "clash-in-sub"}
            # child space named like a cells / reference of a sub space
            taken = [n for n in list(m["cells"][tp(q)]) + list(m["refs"][tp(q)]) if n not in mine]
            if not taken or len(p) > 1:
                return None
            return {"op": "new_space", "p": list(p) + [rng.choice(taken)], "bases": [],
                    "expect": "clash-in-sub"}
        if k == 0:
            return {"op": "new_cells", "s": list(p), "c": badname or "2y",
                    "rec": {"f": self.formula(p, "x"), "cached": True, "an": 0}, "expect": "badname"}
        if k == 1:
            q = list(p[:-1]) + [badname or "3z"]
            return {"op": "new_space", "p": q, "bases": [], "expect": "badname"}
        if k == 2:   # cells named like an existing reference / child space
            taken = self.enames(p, "refs") + self.children(p)
            if not taken:
                return None
            nm = rng.choice(taken)
            self.sigs.setdefault(nm, [["i", 0, 0]])
            self.rank.setdefault(nm, 0)
            return {"op": "new_cells", "s": list(p), "c": nm,
                    "rec": {"f": self.formula(p, nm), "cached": True, "an": 0}, "expect": "clash"}
        if k == 3:   # reference named like a cells / child space
            taken = self.enames(p, "cells") + self.children(p)
            if not taken:
                return None
            nm = rng.choice(taken)
            if nm in self.enames(p, "cells") and not self.sigs.get(nm):
                return None     # assigning to a scalar cells by attribute is a value edit
            return {"op": "set_ref", "s": list(p), "n": nm, "v": ["int", 9, [], ""], "mode": "auto",
                    "via": "set_ref", "expect": "clash"}
        if k == 4:   # child space named like a member
            taken = self.enames(p, "cells") + self.enames(p, "refs")
            if not taken or len(p) > 1:
                return None
            return {"op": "new_space", "p": list(p) + [rng.choice(taken)], "bases": [], "expect": "clash"}
        if k == 5:   # cyclic inheritance
            subs = [q for q in sp if tp(p) in self.mro(q) and q != p]
            tgt = rng.choice(subs) if subs else p
            return {"op": "add_bases", "s": list(p), "bs": [list(tgt)], "expect": "cycle"}
        if k == 6:   # delete a derived member
            der = [c for c in self.enames(p, "cells") if c not in m["cells"][tp(p)]]
            if not der:
                return None
            return {"op": "del_cells", "s": list(p), "c": rng.choice(der), "expect": "derived"}
        if k == 7:   # rename onto a taken name / rename a derived cells
            cs = self.enames(p, "cells")
            if len(cs) < 1:
                return None
            c = rng.choice(cs)
            taken = [n for n in cs + self.enames(p, "refs") + self.children(p) if n != c]
            c2 = rng.choice(taken) if taken and rng.random() < 0.6 else badname or "9q"
            return {"op": "rename_cells", "s": list(p), "c": c, "c2": c2, "expect": "taken"}
        if k == 8:   # malformed formula text
            if "BAD" not in self.flib:
                self.flib["BAD"] = {"ps": [], "ops": [], "catch": False, "onerr": 0,
                                    "style": "def", "bad": True}
            cs = self.enames(p, "cells")
            if cs and rng.random() < 0.5:
                return {"op": "set_formula", "s": list(p), "c": rng.choice(cs), "f": "BAD",
                        "expect": "syntax"}
            free = [n for n in CELL_NAMES if n not in cs]
            if not free:
                return None
            return {"op": "new_cells", "s": list(p), "c": rng.choice(free),
                    "rec": {"f": "BAD", "cached": True, "an": 0}, "expect": "syntax"}
        if k == 9:   # unassignable value
            cs = self.all_cells()
            if not cs:
                return None
            q, c = rng.choice(cs)
            return {"op": "set_value", "c": [list(q), [], c], "args": self.rand_args(c, False),
                    "v": -2, "expect": "none"}
        if k == 10:  # rename space onto a taken name
            others = [q[-1] for q in sp if q[:-1] == p[:-1] and q != p]
            taken = others + (self.enames(p[:-1], "cells") if len(p) > 1 else list(m["grefs"]))
            if not taken:
                return None
            return {"op": "rename_space", "p": list(p), "nm": rng.choice(taken), "expect": "taken"}
        if k == 11:  # bases without a consistent linearisation: (X, Y) where Y derives from X ... reversed
            tops = [q for q in sp if len(q) == 1]
            pairs = [(a, b) for a in tops for b in tops if a != b and tp(a) in self.mro(b)[1:]]
            if not pairs:
                return None
            a, b = rng.choice(pairs)       # b derives from a: bases (a, b) have no C3 order
            nm = self.free_space_name()
            if not nm:
                return None
            return {"op": "new_space", "p": [nm], "bases": [list(a), list(b)], "expect": "mro"}
        if k == 12:  # delete a derived reference
            der = [n for n in self.enames(p, "refs") if n not in m["refs"][tp(p)]]
            if not der:
                return None
            return {"op": "del_ref", "s": list(p), "n": rng.choice(der), "expect": "derived"}
        if k == 13:  # space named like a model-level reference
            if not m["grefs"]:
                return None
            return {"op": "new_space", "p": [rng.choice(list(m["grefs"]))], "bases": [], "expect": "clash"}
        return None

    # ------------------------------------------------------------------
    def update(self, op, res, ev=None):
        if res != "ok":
            return
        m = self.mir
        k = op["op"]
        if k == "new_cells" and ev and ev.get("created"):
            nm = ev["created"]
            self.sigs.setdefault(nm, self.flib[op["rec"]["f"]]["ps"])
            self.rank.setdefault(nm, 0)
            m["cells"][tp(op["s"])][nm] = dict(op["rec"])
            return
        if k in ("set_ref", "del_ref", "set_cached"):
            if k == "set_cached":
                if op["c"] in m["cells"][tp(op["s"])]:
                    m["cells"][tp(op["s"])][op["c"]]["cached"] = op["b"]
                return
            return super().update(op, res)
        if k == "set_formula":
            cur = m["cells"][tp(op["s"])].get(op["c"])
            if cur is None:
                cur = {"an": 0, "cached": True}
            cur = dict(cur)
            cur["f"] = op["f"]
            m["cells"][tp(op["s"])][op["c"]] = cur
        elif k == "new_cells":
            m["cells"][tp(op["s"])][op["c"]] = dict(op["rec"])
        elif k == "del_cells":
            m["cells"][tp(op["s"])].pop(op["c"], None)
        elif k == "rename_cells":
            m["cells"][tp(op["s"])][op["c2"]] = m["cells"][tp(op["s"])].pop(op["c"])
        elif k == "new_space":
            p = op["p"]
            m["sp"].append(list(p))
            for key in ("cells", "refs"):
                m[key][tp(p)] = {}
            m["bases"][tp(p)] = [list(b) for b in op.get("bases", [])]
            m["span"][tp(p)] = 0
        elif k == "del_space":
            p = op["p"]
            gone = [q for q in m["sp"] if q[:len(p)] == list(p)]
            for q in gone:
                m["sp"].remove(q)
                for key in ("cells", "refs", "bases", "span"):
                    m[key].pop(tp(q), None)
            for q in m["sp"]:
                m["bases"][tp(q)] = [b for b in m["bases"][tp(q)] if b not in gone]
        elif k == "rename_space":
            p, nm = op["p"], op["nm"]
            new = list(p[:-1]) + [nm]

            def R(q):
                return new + list(q[len(p):]) if list(q[:len(p)]) == list(p) else list(q)
            m["sp"] = [R(q) for q in m["sp"]]
            for key in ("cells", "refs", "span"):
                m[key] = {tp(R(q)): v for q, v in m[key].items()}
            m["bases"] = {tp(R(q)): [R(b) for b in v] for q, v in m["bases"].items()}
        elif k == "add_bases":
            m["bases"][tp(op["s"])] += [list(b) for b in op["bs"]]
        elif k == "remove_bases":
            m["bases"][tp(op["s"])] = [b for b in m["bases"][tp(op["s"])] if b not in op["bs"]]
