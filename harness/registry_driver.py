"""C19 driver: executes histories of registry operations on the REAL modelx and records,
after every operation, the projected abstract state that spec/MxRegistry.tla judges.

Nothing here decides whether the property holds: the driver only runs operations and writes
down what it sees through the public API (mx.get_models(), model.name, mx.cur_model(),
spaces / cells / references / held values of every open model).
"""
import os
import random
import sys
import warnings

if os.environ.get("VERIF_REPO"):          # mutation testing: import modelx from a scratch copy
    sys.path.insert(0, os.environ["VERIF_REPO"])

BAD_NAMES = ["1x", "_A", "for", "a b"]            # util.is_valid_name refuses these
STORED = ["A", "A_BAK1"]                          # stored names of the two saved models
BASE_NAMES = ["A", "B", "A_BAK1", "Model2", "B_BAK2", "Model1"]
FORMULAS = [
    "lambda: 1",
    "lambda: 5",
    "lambda x: x + 2",
    "lambda x: 2 * x",
    "lambda: r + 3",              # reads a reference of the space (NameError when absent)
    "lambda x: c0() + x",         # calls a sibling
]
OP_FIELDS = ("op", "name", "m", "t", "file", "ro", "kind")
CONC_FIELDS = ("what", "sp", "cn", "f", "val", "key", "stale")


def _mx():
    import modelx as mx
    return mx


def close_all():
    """Empty the registry between cases.  A library whose registry is inconsistent (what this
    check is there to detect) may fail to close a model: the registry is then emptied directly,
    so that one broken case cannot poison the next one."""
    mx = _mx()
    try:
        for m in list(mx.get_models().values()):
            try:
                m.close()
            except Exception:
                pass
        left = len(mx.get_models())
    except Exception:
        left = 1
    try:
        stray_current = mx.cur_model() is not None      # a current model that is not registered
    except Exception:
        stray_current = True
    if left or stray_current:
        try:
            from modelx.core import mxsys
            mxsys.models.clear()
            mxsys.currentmodel = None
        except Exception:
            pass


def prepare_files(dirpath):
    """The two saved models every case can read (stored names STORED[0], STORED[1])."""
    mx = _mx()
    close_all()
    paths = []
    m = mx.new_model(STORED[0])
    s = m.new_space("S0")
    s.new_cells("c0", formula="lambda: 1")
    s.new_cells("c1", formula="lambda x: x + c0()")
    s.r = 3
    m.g = 4
    s.c1[2] = 9
    p = os.path.join(dirpath, "saved1")
    mx.write_model(m, p)
    paths.append(p)
    m.close()
    m = mx.new_model(STORED[1])
    s = m.new_space("S0")
    s.new_cells("c0", formula="lambda: 7")
    s1 = m.new_space("S1")
    s1.new_cells("c2", formula="lambda x: 2 * x")
    s1.q = 6
    p = os.path.join(dirpath, "saved2")
    mx.write_model(m, p)
    paths.append(p)
    m.close()
    close_all()
    return paths


def observe_counters():
    """First values of the two process-global AutoNamer counters (util.py AutoNamer).
    Read-only from the objects when possible; otherwise observed through the public API
    by creating and closing throw-away models (no model is open at this point)."""
    mx = _mx()
    try:
        from modelx.core import mxsys
        mc = getattr(mxsys._modelnamer, "_AutoNamer__last_postfix")
        bc = getattr(mxsys._backupnamer, "_AutoNamer__last_postfix")
        if isinstance(mc, int) and isinstance(bc, int):
            return mc, bc
    except Exception:
        pass
    mc = bc = 0
    try:
        a = mx.new_model()
        mc = int(a.name[len("Model"):])
        a.close()
        a = mx.new_model("ZZprobe")
        b = mx.new_model("ZZprobe")
        bc = int(a.name[len("ZZprobe_BAK"):])
        a.close()
        b.close()
    except Exception:
        pass
    close_all()
    return mc, bc


class DriverError(Exception):
    pass


class Driver:
    def __init__(self, files, rng):
        self.mx = _mx()
        self.files = files
        self.rng = rng
        self.handles = {}        # my id -> the Model object the library returned to "the user"
        self.objs = []           # every model object ever seen (kept alive: id() stays unique)
        self.open = set()        # ids returned by a creation and not closed since
        self.links = set()

    # -- identity ---------------------------------------------------------
    def idof(self, obj):
        for i, o in enumerate(self.objs):
            if o is obj:
                return i + 1
        self.objs.append(obj)
        return len(self.objs)

    # -- projection -------------------------------------------------------
    def _refrepr(self, v):
        from modelx.core.model import Model
        from modelx.core.cells import Cells
        if isinstance(v, bool):
            return "bool:%s" % v
        if isinstance(v, int):
            return "int:%d" % v
        if isinstance(v, Model):
            return "model:#%d" % self.idof(v)
        if isinstance(v, Cells):
            return "cells:#%d:%s" % (self.idof(v.model), v.fullname.split(".", 1)[-1])
        return "obj:" + type(v).__name__

    def _spaces(self, model):
        out = []

        def walk(sp, path):
            out.append((path, sp))
            for n in sorted(sp.spaces):
                walk(sp.spaces[n], path + "." + n)
        for n in sorted(model.spaces):
            walk(model.spaces[n], n)
        return out

    def proj_defs(self, model):
        out = []
        for n in sorted(model.refs):
            if n == "__builtins__":
                continue
            out.append(["." + n, "ref:" + self._refrepr(model.refs[n])])
        for path, sp in self._spaces(model):
            out.append([path, "space"])
            for cn in sorted(sp.cells):
                try:
                    src = sp.cells[cn].formula.source
                except Exception as exc:      # a half-built cells left behind by a failed edit
                    src = "<unreadable:%s>" % type(exc).__name__
                out.append([path + "." + cn, "cells:" + src])
            own = sp._own_refs if hasattr(sp, "_own_refs") else {}
            for rn in sorted(own):
                out.append([path + ":" + rn, "ref:" + self._refrepr(own[rn])])
        return out

    def proj_vals(self, model):
        out = []
        for path, sp in self._spaces(model):
            for cn in sorted(sp.cells):
                c = sp.cells[cn]
                try:
                    items = sorted(dict(c).items(), key=lambda kv: repr(kv[0]))
                except Exception:             # (see proj_defs)
                    out.append(["%s.%s<unreadable>" % (path, cn), -998, 0])
                    continue
                for k, v in items:
                    args = k if isinstance(k, tuple) else (k,)
                    try:
                        inp = 1 if c.is_input(*args) else 0
                    except Exception:
                        inp = 0
                    val = v if isinstance(v, int) and not isinstance(v, bool) \
                        and abs(v) < 10 ** 6 else -999
                    out.append(["%s.%s%r" % (path, cn, tuple(args)), val, inp])
        return out

    def observe(self):
        mx = self.mx
        models = []
        for key, obj in sorted(mx.get_models().items()):
            models.append([str(key), self.idof(obj), str(obj.name)])
        handles = [[i, str(h.name)] for i, h in sorted(self.handles.items())]
        cur = mx.cur_model()
        return {
            "models": models,
            "handles": handles,
            "cur": self.idof(cur) if cur is not None else 0,
            "defs": [[i, self.proj_defs(self.handles[i])] for i in sorted(self.open)],
            "vals": [[i, self.proj_vals(self.handles[i])] for i in sorted(self.open)],
        }

    # -- concretisation of abstract edits ------------------------------------
    def _cells_of(self, model, with_params=None):
        out = []
        for path, sp in self._spaces(model):
            for cn in sorted(sp.cells):
                try:
                    npar = len(sp.cells[cn].parameters)
                except Exception:
                    continue
                if with_params is None or npar == with_params:
                    out.append((path, cn))
        return out

    def concretise(self, op):
        """Fill in the concrete form of an abstract edit (kept in the event, so that a
        replay repeats exactly the same calls)."""
        op = dict(op)
        for k, d in (("name", ""), ("m", 0), ("t", 0), ("file", 0), ("ro", False), ("kind", ""),
                     ("stale", False)):
            op.setdefault(k, d)
        if op.get("what"):
            for k, d in (("sp", ""), ("cn", ""), ("f", 0), ("val", 0), ("key", 0)):
                op.setdefault(k, d)
            return op
        rng = self.rng
        op.update({"what": "", "sp": "", "cn": "", "f": 0, "val": 0, "key": 0})
        h = self.handles.get(op["m"])
        if op["op"] == "edit" and h is not None:
            spaces = [p for p, _ in self._spaces(h)]
            if not spaces:
                op.update(what="new_space", sp="S0")
            elif op["kind"] == "value":
                cs = self._cells_of(h, with_params=1)
                if cs:
                    sp, cn = rng.choice(cs)
                    op.update(what="set_value", sp=sp, cn=cn, key=rng.choice([1, 2]),
                              val=rng.randrange(10, 20))
                else:
                    op.update(what="new_cells", sp=spaces[0], cn="c1", f=2)
            else:
                allc = self._cells_of(h)
                if not allc:
                    op.update(what="new_cells", sp=spaces[0], cn="c0", f=rng.choice([0, 1]))
                else:
                    what = rng.choice(["new_cells", "new_cells", "set_ref", "set_gref",
                                       "set_formula", "del_cells", "new_space"])
                    if what == "new_cells":
                        used = {cn for _, cn in allc}
                        free = [c for c in ("c0", "c1", "c2", "c3") if c not in used] or ["c9"]
                        op.update(what=what, sp=rng.choice(spaces), cn=free[0],
                                  f=rng.randrange(len(FORMULAS)))
                        if op["cn"] in dict((cn, 1) for p, cn in allc if p == op["sp"]):
                            op.update(what="set_ref", cn="r", val=rng.randrange(1, 9))
                    elif what == "set_ref":
                        op.update(what=what, sp=rng.choice(spaces), cn="r", val=rng.randrange(1, 9))
                    elif what == "set_gref":
                        op.update(what=what, cn="g", val=rng.randrange(1, 9))
                    elif what == "set_formula":
                        sp, cn = rng.choice(allc)
                        npar = len(self._get_space(h, sp).cells[cn].parameters)
                        op.update(what=what, sp=sp, cn=cn,
                                  f=rng.choice([0, 1]) if npar == 0 else rng.choice([2, 3]))
                    elif what == "del_cells":
                        sp, cn = rng.choice(allc)
                        op.update(what=what, sp=sp, cn=cn)
                    else:
                        top = [p for p in spaces if "." not in p]
                        op.update(what=what, sp="S%d" % len(top))
        elif op["op"] == "xref":
            op.update(what="set_xref")
        elif op["op"] == "eval":
            op.update(what="eval_all")
        return op

    def _get_space(self, model, path):
        obj = model
        for part in path.split("."):
            obj = obj.spaces[part]
        return obj

    # -- execution -----------------------------------------------------------
    def _edit(self, h, op):
        what = op["what"]
        if what == "new_space":
            h.new_space(op["sp"])
        elif what == "new_cells":
            self._get_space(h, op["sp"]).new_cells(op["cn"], formula=FORMULAS[op["f"]])
        elif what == "set_ref":
            setattr(self._get_space(h, op["sp"]), op["cn"], op["val"])
        elif what == "set_gref":
            setattr(h, op["cn"], op["val"])
        elif what == "set_formula":
            self._get_space(h, op["sp"]).cells[op["cn"]].formula = FORMULAS[op["f"]]
        elif what == "del_cells":
            del self._get_space(h, op["sp"]).cells[op["cn"]]
        elif what == "set_value":
            self._get_space(h, op["sp"]).cells[op["cn"]][op["key"]] = op["val"]
        else:
            raise DriverError("unknown edit %r" % (what,))

    def _xref(self, h, t):
        th = self.handles[t]
        setattr(h, "x%d" % t, th)                       # model-level reference to model t
        if "S0" not in h.spaces:
            h.new_space("S0")
        cn = "cx%d" % t
        if cn not in h.S0.cells:
            h.S0.new_cells(cn, formula="lambda: x%d.S0.c0() + 1" % t)

    def _eval(self, h):
        ok = True
        for path, sp in self._spaces(h):
            for cn in sorted(sp.cells):
                c = sp.cells[cn]
                try:
                    npar = len(c.parameters)
                    if npar == 0:
                        c()
                    elif npar == 1:
                        c(1)
                        c(2)
                except Exception:
                    ok = False
        return ok

    def do(self, op):
        """Execute one operation on the real library; returns the recorded event."""
        mx = self.mx
        op = self.concretise(op)
        ev = {k: op[k] for k in OP_FIELDS + CONC_FIELDS}
        kind = op["op"]
        res, new = "ok", 0
        h = self.handles.get(op["m"])
        try:
            if kind == "new_model":
                obj = mx.new_model(op["name"] or None)
                new = self.idof(obj)
                self.handles[new] = obj
            elif kind == "read_model":
                if not (1 <= op["file"] <= len(self.files)):
                    res = "nofile"
                else:
                    obj = mx.read_model(self.files[op["file"] - 1], name=op["name"] or None)
                    new = self.idof(obj)
                    self.handles[new] = obj
            elif h is None or (op["m"] not in self.open and not (op["stale"] and kind == "close")):
                res = "nohandle"         # operations are made on open models only ("stale": see run_case)
            elif kind == "rename":
                if op["ro"]:
                    h.rename(op["name"], rename_old=True)
                else:
                    h.rename(op["name"])
            elif kind == "close":
                h.close()
            elif kind == "edit":
                if op["what"]:
                    self._edit(h, op)
                else:
                    res = "skip"
            elif kind == "xref":
                if op["t"] in self.handles and op["t"] != op["m"]:
                    self._xref(h, op["t"])
                else:
                    res = "nohandle"
            elif kind == "eval":
                if not self._eval(h):
                    res = "err"
            else:
                raise DriverError("unknown operation %r" % (kind,))
        except DriverError:
            raise
        except Exception as exc:          # the outcome is data for the specification
            res = type(exc).__name__
        if new:
            self.open.add(new)
        if kind == "close" and res != "nohandle":
            self.open.discard(op["m"])
        if kind == "xref" and res == "ok":
            self.links.add((op["m"], op["t"]))
        ev["res"] = res
        ev["new"] = new
        ev["post"] = self.observe()
        return ev

    # -- random histories --------------------------------------------------
    def registered_names(self):
        return sorted(self.mx.get_models())

    def next_random_op(self):
        rng = self.rng
        reg = self.registered_names()
        opn = sorted(self.open)

        def pick_name(weights):
            kinds = [k for k, w in weights for _ in range(w)]
            k = rng.choice(kinds)
            if k == "auto":
                return ""
            if k == "base":
                return rng.choice(BASE_NAMES)
            if k == "taken" and reg:
                return rng.choice(reg)
            if k == "baklike" and reg:
                return rng.choice(reg) + "_BAK" + str(rng.randrange(1, 4))
            if k == "bad":
                return rng.choice(BAD_NAMES)
            return rng.choice(BASE_NAMES)

        choices = []
        if len(opn) < 5:
            w = 3 if len(opn) < 3 else 1
            choices += ["new_model"] * (3 * w) + ["read_model"] * (2 * w)
        if opn:
            choices += ["rename"] * 6 + ["close"] * (1 if len(opn) < 3 else 3) \
                + ["edit"] * 5 + ["eval"] * 3
            if len(opn) >= 2:
                choices += ["xref"] * 2
        k = rng.choice(choices)
        op = {"op": k}
        if k == "new_model":
            op["name"] = pick_name([("auto", 3), ("base", 4), ("taken", 4), ("baklike", 1), ("bad", 1)])
        elif k == "read_model":
            op["file"] = rng.choice([1, 2])
            op["name"] = pick_name([("auto", 5), ("base", 2), ("taken", 2), ("baklike", 1), ("bad", 1)])
        elif k == "rename":
            op["m"] = rng.choice(opn)
            op["name"] = pick_name([("base", 3), ("taken", 5), ("baklike", 2), ("bad", 1)])
            op["ro"] = rng.random() < 0.5
        elif k == "close":
            op["m"] = rng.choice(opn)
        elif k == "edit":
            op["m"] = rng.choice(opn)
            op["kind"] = rng.choice(["defs", "defs", "value"])
        elif k == "eval":
            op["m"] = rng.choice(opn)
        elif k == "xref":
            op["m"], op["t"] = rng.sample(opn, 2)
        return op


def run_case(job):
    """job = {"files": [...], "seed": int, "origin": str, "ops": [...] | None, "nops": int}.
    Returns one trace {"hdr": ..., "ev": [...]}."""
    warnings.simplefilter("ignore")
    close_all()
    mctr, bctr = observe_counters()
    rng = random.Random(job["seed"])
    d = Driver(job["files"], rng)
    hdr = {"seed": job["seed"], "origin": job.get("origin", "random"), "mctr": mctr, "bctr": bctr,
           "stored": list(STORED), "bad": list(BAD_NAMES), "post": d.observe()}
    evs = []
    try:
        if job.get("ops") is not None:
            for op in job["ops"]:
                evs.append(d.do({k: v for k, v in op.items() if k not in ("res", "new", "post")}))
        else:
            for _ in range(job["nops"]):
                evs.append(d.do(d.next_random_op()))
            if job.get("stale_final"):
                # (known finding KF:C19.StaleHandleCloseDropsNamesake) the LAST operation closes
                # a model again through the handle of a model that was closed before; in half of
                # the cases another model is first created under the name that handle reports
                closed = sorted(set(d.handles) - d.open)
                if closed:
                    c = rng.choice(closed)
                    nm = str(d.handles[c].name)
                    if nm not in d.registered_names() and rng.random() < 0.5:
                        evs.append(d.do({"op": "new_model", "name": nm}))
                    evs.append(d.do({"op": "close", "m": c, "stale": True}))
    finally:
        close_all()
    return {"hdr": hdr, "ev": evs}
