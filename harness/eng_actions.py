"""C16 -- memory-optimised runs (Model.generate_actions / Model.execute_actions).

Steps of a run (verdicts always come from TLC):
  1. design level : TLC model-checks spec/MxActions.tla (get_calcsteps transcribed + the
     abstract cache) exhaustively: every DAG x target set x step size x topological order,
     with the five C16 predicates as invariants;
  2. spec -> code : TLC prints every case of that quantifier once (MBT idiom); each case is
     built as REAL modelx cells (scalar def / scalar lambda / one-parameter cells, both call
     orders, both target orders), generate_actions and execute_actions are run for real and
     what happened is recorded (action list, held values, inputs, formula executions seen by
     sys.monitoring);
  3. code -> spec : the recordings are judged by TLC with spec/MxActionsTrace.tla (the oracle
     Direct and the predicates live there); seeded random larger DAGs are added in the
     thorough tier;
  4. negative controls: one recording corrupted per predicate, each must be flagged;
  5. evidence.
"""
import collections
import copy
import hashlib
import json
import multiprocessing as mp
import os
import random
import re
import sys
import time
from concurrent.futures import ThreadPoolExecutor

if os.environ.get("VERIF_REPO"):          # mutation testing: import modelx from a scratch copy
    sys.path.insert(0, os.environ["VERIF_REPO"])

from . import tlc

PIDS = ["C16"]
LEVEL = {"C16": "model_checking"}

ROOT = os.path.dirname(os.path.dirname(os.path.abspath(__file__)))
NCPU = min(16, os.cpu_count() or 1)
TRACE_MODULE, TRACE_CFG = "MxActionsTrace", "MxActionsTrace.cfg"
MODEL_ACTIONS = ["GenTrace", "GenPlan", "GenClear", "ExecCalc", "ExecPasteGet", "ExecPasteSet",
                 "ExecClear", "ExecNothing"]
PROPERTY_LABELS = ["C16.TargetsHoldDirectValues", "C16.NothingElseLeft", "C16.NoRecompute",
                   "C16.EachDepOnceAfterPreds", "C16.GenerateLeavesNothing"]

ASSUMPTIONS = [
    "formulas have the shape `i + sum of the dependencies' values` (def, lambda and one-parameter "
    "cells; both call orders); every formula calls all its dependencies unconditionally, so the "
    "dependency graph of the traced run equals that of the real run",
    "the model holds no calculated value when generate_actions is called (inputs only)",
    "DAGs are enumerated with edges i -> j, j < i (every DAG has such a numbering); the random "
    "larger DAGs are relabelled with a random permutation",
    "formula executions are observed with sys.monitoring PY_START on the formulas' code objects; "
    "held values and inputs are read from cells._impl.data / input_keys after each call",
    "the oracle (direct evaluation) is the TLA+ operator Direct evaluated by TLC on the case "
    "definition; on a sample of the cases it is cross-checked against a real direct evaluation",
]


# ---------------------------------------------------------------------------
# the real library

def _cell_name(i):
    return "n%d" % i


def build_model(case, var):
    """Build the case as real modelx cells.  Returns (model, node_of(i) -> (cells, key))."""
    import modelx as mx
    for m in list(mx.get_models().values()):
        m.close()
    n, deps = case["n"], case["deps"]
    m = mx.new_model("C16")
    s = m.new_space("S")
    style = var["style"]

    def ordered(ds):
        return sorted(ds, reverse=(var["callorder"] == "desc"))

    if style in ("def", "lambda"):
        for i in range(1, n + 1):
            body = "%d%s" % (i, "".join(" + %s()" % _cell_name(d) for d in ordered(deps[i - 1])))
            if style == "def":
                src = "def %s():\n    return %s" % (_cell_name(i), body)
            else:
                src = "lambda: %s" % body
            s.new_cells(_cell_name(i), formula=src)
        cells = {i: s.cells[_cell_name(i)] for i in range(1, n + 1)}
        return m, (lambda i: (cells[i], ()))
    lines = ["def c(i):"]
    for i in range(1, n + 1):
        body = "%d%s" % (i, "".join(" + c(%d)" % d for d in ordered(deps[i - 1])))
        lines.append("    if i == %d:\n        return %s" % (i, body))
    lines.append("    raise KeyError(i)")
    c = s.new_cells("c", formula="\n".join(lines))
    return m, (lambda i: (c, (i,)))


def _snapshot(n, node_of):
    held, inputs = [], []
    for i in range(1, n + 1):
        c, key = node_of(i)
        if key in c._impl.data:
            held.append([i, int(c._impl.data[key])])
        if key in c._impl.input_keys:
            inputs.append(i)
    return {"held": held, "inputs": inputs}


def _node_id(item, style):
    if style == "param":
        return int(item.args[0])
    return int(item.obj.name[1:])


def run_case(job):
    """Worker: one case on the real library -> one recorded trace."""
    case, var = job
    from .recorder import FormulaRecorder
    n, style = case["n"], var["style"]
    m, node_of = build_model(case, var)
    code_node = {}

    def node_of_frame(sp, code, flocals):
        if style == "param":
            return int(flocals["i"])
        return code_node.get(id(code))

    rec = FormulaRecorder(node_of_frame)
    hdr = dict(case)
    hdr.update(var)
    try:
        for i, v in case["inputs"]:
            c, key = node_of(i)
            c._impl.set_value(key, v)        # what Cells.__setitem__ does
        rec.start()
        for i in range(1, n + 1):
            c, _ = node_of(i)
            code = c.formula.func.__code__
            code_node[id(code)] = i
            rec.watch(code)
        targets = sorted(case["targets"], reverse=(var["torder"] == "desc"))
        tnodes = []
        for t in targets:
            c, key = node_of(t)
            tnodes.append(c.node(*key))
        rec.take()
        err, actions = "", []
        try:
            actions = m.generate_actions(tnodes, step_size=case["step"])
        except Exception as e:      # recorded; the predicates then fail by themselves
            err = type(e).__name__
        fx = rec.take()
        gen = {"op": "generate", "err": err,
               "actions": [{"kind": a[0], "nodes": [_node_id(x, style) for x in a[1]]}
                           for a in actions],
               "post": _snapshot(n, node_of),
               "execs": _counts(fx)}
        err = ""
        try:
            m.execute_actions(actions)
        except Exception as e:
            err = type(e).__name__
        fx = rec.take()
        exe = {"op": "execute", "err": err, "post": _snapshot(n, node_of), "execs": _counts(fx)}
        rec.stop()
        if var.get("direct"):
            # machinery cross-check of the TLA+ oracle: a real direct evaluation
            m.clear_all()
            for i, v in case["inputs"]:
                c, key = node_of(i)
                c._impl.set_value(key, v)
            hdr["directvals"] = [[t, int(node_of(t)[0]._impl.get_value_from_key(node_of(t)[1]))]
                                 for t in sorted(case["targets"])]
    finally:
        rec.stop()
        m.close()
    return {"hdr": hdr, "ev": [gen, exe]}


def _counts(fx):
    cnt = collections.Counter(f[1] for f in fx if f[0] == "enter")
    return [[k, cnt[k]] for k in sorted(cnt)]


def _worker_init():
    import gc
    import modelx  # noqa: F401
    gc.collect()
    gc.freeze()       # execute_actions calls gc.collect() per clear step: keep it cheap


def produce(jobs, procs=NCPU):
    if not jobs:
        return []
    if procs <= 1 or len(jobs) < 8:
        _worker_init()
        return [run_case(j) for j in jobs]
    ctx = mp.get_context("fork")
    with ctx.Pool(procs, initializer=_worker_init) as pool:
        return pool.map(run_case, jobs, chunksize=max(1, min(64, len(jobs) // (procs * 4))))


def _run_tlc_retry(module, **kw):
    """run_tlc; when the JVM disappeared without any result (killed from outside), once more."""
    r = tlc.run_tlc(module, **kw)
    if not r.get("ok") and not r.get("error") and "is violated" not in r["out"]:
        r = tlc.run_tlc(module, **kw)
    return r


# ---------------------------------------------------------------------------
# TLC as judge

def judge(traces, procs=NCPU, batch=None):
    """Validate recorded cases with spec/MxActionsTrace.tla; returns (verdict list, stats)."""
    if not traces:
        return [], {"states": 0, "transitions": 0, "tlc_wall_s": 0.0, "batches": 0}
    if batch is None:      # a JVM start costs ~2.5 s, a trace ~1 ms: few, large batches
        batch = max(400, min(6000, len(traces) // min(procs, 8) + 1))
    chunks = [traces[i:i + batch] for i in range(0, len(traces), batch)]

    def one(chunk):
        try:
            return tlc.validate_traces(chunk, module=TRACE_MODULE, cfg=TRACE_CFG, timeout=3000)
        except tlc.TLCError as e:
            if "Error:" in str(e):
                raise
            # the JVM went away without a result (e.g. killed from outside): once more
            return tlc.validate_traces(chunk, module=TRACE_MODULE, cfg=TRACE_CFG, timeout=3000)

    t0 = time.time()
    with ThreadPoolExecutor(max_workers=min(procs, len(chunks))) as ex:
        results = list(ex.map(one, chunks))
    out, states, trans = [], 0, 0
    for chunk, (v, r) in zip(chunks, results):
        for i in range(len(chunk)):
            out.append(v[i + 1])
        states += r.get("states") or 0
        trans += r.get("transitions") or 0
    return out, {"states": states, "transitions": trans, "tlc_wall_s": time.time() - t0,
                 "batches": len(chunks)}


# ---------------------------------------------------------------------------
# cases

VARIANTS = [dict(style=s, callorder=c, torder=t)
            for s in ("def", "param", "lambda") for c in ("asc", "desc") for t in ("asc", "desc")]


def case_hash(case, var):
    key = {"case": {k: case[k] for k in ("n", "deps", "targets", "step", "inputs")},
           "var": {k: var[k] for k in ("style", "callorder", "torder")}}
    return hashlib.sha1(json.dumps(key, sort_keys=True).encode()).hexdigest()


def enumerate_cases(cfg):
    """spec -> code: the cases TLC prints from the model (each exactly once)."""
    r = _run_tlc_retry("MxActions", cfg=cfg, workers=NCPU, timeout=3000)
    cases = [json.loads(tlc.tla_to_py(t)[1]) for t in tlc._match_tuples(r["out"], "MBT")]
    if not r.get("ok") or not cases:
        raise tlc.TLCError("case enumeration failed (%s):\n%s" % (cfg, r["out"][-2000:]))
    for c in cases:
        c["inputs"] = [list(p) for p in c["inputs"]]
    cases.sort(key=lambda c: json.dumps(c, sort_keys=True))
    return cases, r


def random_cases(seed, count):
    """Seeded random larger DAGs (8-12 nodes), relabelled, with inputs among the dependencies."""
    rng = random.Random(seed)
    out = []
    for _ in range(count):
        n = rng.randint(8, 12)
        p = rng.choice([0.15, 0.3, 0.5])
        perm = list(range(1, n + 1))
        rng.shuffle(perm)           # perm[k-1] = label of the k-th node in topological numbering
        deps = [[] for _ in range(n)]
        for i in range(2, n + 1):
            for j in range(1, i):
                if rng.random() < p:
                    deps[perm[i - 1] - 1].append(perm[j - 1])
        deps = [sorted(d) for d in deps]
        targets = sorted(rng.sample(range(1, n + 1), rng.choice([1, 1, 2, 3])))
        step = rng.randint(1, n + 1)
        inputs = [[i, 50 + i] for i in range(1, n + 1)
                  if i not in targets and rng.random() < 0.15]
        out.append({"n": n, "deps": deps, "targets": targets, "step": step, "inputs": inputs})
    return out


def jobs_for(cases, seed, nvariants, direct_every):
    """nvariants variants per case, rotating through VARIANTS (with two or more: the first is
    a scalar style, the second the one-parameter style)."""
    rng = random.Random(seed)
    jobs = []
    for k, c in enumerate(cases):
        off = rng.randrange(len(VARIANTS))
        picks = []
        for j in range(nvariants):
            if nvariants == 1:
                v = VARIANTS[(off + k) % len(VARIANTS)]
            elif j == 0:
                v = [x for x in VARIANTS if x["style"] != "param"][(off + k) % 8]
            elif j == 1:
                v = [x for x in VARIANTS if x["style"] == "param"][(off + k) % 4]
            else:
                v = VARIANTS[(off + k + j * 5) % len(VARIANTS)]
            if v not in picks:
                picks.append(v)
        for v in picks:
            v = dict(v)
            v["direct"] = (len(jobs) % direct_every == 0)
            jobs.append((c, v))
    return jobs


# ---------------------------------------------------------------------------
# design-level model checking

MC_INVARIANTS = ["Inv_C16_TargetsHoldDirectValues", "Inv_C16_NothingElseLeft",
                 "Inv_C16_NoRecompute", "Inv_C16_EachDepOnceAfterPreds",
                 "Inv_C16_GenerateLeavesNothing"]


def model_check(cfg, coverage=False, timeout=3000, workers=NCPU):
    extra = ["-coverage", "1"] if coverage else []
    r = _run_tlc_retry("MxActions", cfg=cfg, workers=workers, timeout=timeout, extra=extra)
    res = {"cfg": cfg, "ok": bool(r.get("ok")), "states": r.get("states"),
           "transitions": r.get("transitions"), "depth": r.get("depth"),
           "wall_s": round(r["wall_s"], 1)}
    m = re.search(r"Finished computing initial states: (\d+) distinct state", r["out"])
    if m:
        res["initial_states"] = int(m.group(1))
    m = re.search(r"Invariant (\w+) is violated", r["out"])
    if m:
        res["violated_invariant"] = m.group(1)
    if "violated_invariant" in res:
        i = r["out"].find("Error: Invariant")
        res["counterexample"] = r["out"][i:i + 6000]
    elif not res["ok"]:
        res["tail"] = r["out"][-1500:]
    if coverage:
        taken = {}
        for a in MODEL_ACTIONS:
            mm = re.search(r"<%s line \d+, col \d+ to line \d+, col \d+ of module MxActions>: (\d+):(\d+)" % a,
                           r["out"])
            taken[a] = int(mm.group(2)) if mm else 0
        res["actions_taken"] = taken
    return res


def _mc_child(cfgs, cov_cfg, conn):
    """Runs in a forked process so that the model check overlaps the executions."""
    t0 = time.time()
    try:
        w = max(2, NCPU // 2)
        out = [model_check(c, workers=w) for c in cfgs]
        out.append(model_check(cov_cfg, coverage=True, workers=w))
        conn.send((out, time.time() - t0))
    except Exception:
        import traceback
        conn.send((traceback.format_exc(), time.time() - t0))
    finally:
        conn.close()


# ---------------------------------------------------------------------------
# negative controls

def corruptions(tr):
    """One corrupted copy per predicate: (trace, label TLC must raise)."""
    out = []
    n = tr["hdr"]["n"]
    tg = tr["hdr"]["targets"]
    t = copy.deepcopy(tr)                      # a target holds a wrong value
    for h in t["ev"][1]["post"]["held"]:
        if h[0] in tg:
            h[1] += 1
            out.append((t, "C16.TargetsHoldDirectValues"))
            break
    others = [i for i in range(1, n + 1) if i not in tg
              and i not in [p[0] for p in tr["hdr"]["inputs"]]]
    if others:
        t = copy.deepcopy(tr)                  # a calculated non-target is left behind
        t["ev"][1]["post"]["held"].append([others[0], 1])
        out.append((t, "C16.NothingElseLeft"))
        t = copy.deepcopy(tr)                  # generate_actions leaves a value behind
        t["ev"][0]["post"]["held"].append([others[0], 1])
        out.append((t, "C16.GenerateLeavesNothing"))
    t = copy.deepcopy(tr)                      # an element had to be computed twice
    ex = t["ev"][1]["execs"]
    if ex:
        ex[0][1] += 1
        out.append((t, "C16.NoRecompute"))
    t = copy.deepcopy(tr)                      # a needed element is in no calc step
    for a in t["ev"][0]["actions"]:
        if a["kind"] == "calc" and a["nodes"]:
            a["nodes"].pop(0)
            out.append((t, "C16.EachDepOnceAfterPreds"))
            break
    t = copy.deepcopy(tr)                      # an element is calculated before its dependency
    calc = [a for a in t["ev"][0]["actions"] if a["kind"] == "calc"]
    deps = tr["hdr"]["deps"]
    done = False
    for a in calc:
        ns = a["nodes"]
        for x in range(len(ns)):
            for y in range(x + 1, len(ns)):
                if ns[x] in deps[ns[y] - 1] and not done:
                    ns[x], ns[y] = ns[y], ns[x]
                    done = True
    if done:
        out.append((t, "C16.EachDepOnceAfterPreds"))
    return out


def negative_controls(traces, verdicts, rng):
    good = [tr for tr, v in zip(traces, verdicts)
            if not v["viol"] and len(tr["ev"][0]["actions"]) >= 6 and tr["hdr"]["n"] >= 3
            and len(tr["hdr"]["targets"]) < tr["hdr"]["n"]]
    rng.shuffle(good)
    made, labels = [], set()
    for tr in good[:40]:
        for c in corruptions(tr):
            if c[1] not in labels or len(made) < 12:
                made.append(c)
                labels.add(c[1])
        if labels >= set(PROPERTY_LABELS) and len(made) >= 12:
            break
    if not made:
        return {"attempted": 0, "rejected": 0, "labels": []}
    vs, _ = judge([c[0] for c in made], procs=1, batch=len(made))
    rejected = sum(1 for (c, lab), v in zip(made, vs) if any(l == lab for l, _ in v["viol"]))
    return {"attempted": len(made), "rejected": rejected, "labels": sorted(labels),
            "all_predicates_exercised": labels >= set(PROPERTY_LABELS)}


# ---------------------------------------------------------------------------
def save_replay(pid, tr):
    var = {k: tr["hdr"][k] for k in ("style", "callorder", "torder")}
    case = {k: tr["hdr"][k] for k in ("n", "deps", "targets", "step", "inputs")}
    h = case_hash(case, var)[:16]
    d = os.path.join(ROOT, "replays", pid)
    os.makedirs(d, exist_ok=True)
    path = os.path.join(d, h + ".json")
    with open(path, "w") as f:
        json.dump({"property": pid, "case": case, "variant": var,
                   "recorded": tr["ev"]}, f)
    return path


def save_design_replay(pid, r):
    """A counterexample of the design-level model check: re-checkable with --replay."""
    body = {"property": pid, "design_cfg": r["cfg"], "invariant": r["violated_invariant"],
            "counterexample": r.get("counterexample", "")}
    h = hashlib.sha1(json.dumps(body, sort_keys=True).encode()).hexdigest()[:16]
    d = os.path.join(ROOT, "replays", pid)
    os.makedirs(d, exist_ok=True)
    path = os.path.join(d, "design_" + h + ".json")
    with open(path, "w") as f:
        json.dump(body, f, indent=1)
    return path


def is_nontrivial(tr):
    """The memory optimisation did something: an element that is not a target was pasted or
    cleared by the plan."""
    tg = set(tr["hdr"]["targets"])
    for a in tr["ev"][0]["actions"]:
        if a["kind"] in ("paste", "clear") and any(x not in tg for x in a["nodes"]):
            return True
    return False


def _calc_seq(tr):
    return [x for a in tr["ev"][0]["actions"] if a["kind"] == "calc" for x in a["nodes"]]


def sample_of(tr):
    return {"case": {k: tr["hdr"][k] for k in ("n", "deps", "targets", "step", "inputs")},
            "variant": {k: tr["hdr"][k] for k in ("style", "callorder", "torder")},
            "actions": [[a["kind"], a["nodes"]] for a in tr["ev"][0]["actions"]],
            "held_after_generate": tr["ev"][0]["post"]["held"],
            "held_after_execute": tr["ev"][1]["post"]["held"],
            "inputs_after_execute": tr["ev"][1]["post"]["inputs"],
            "formula_executions_during_execute": tr["ev"][1]["execs"]}


TIERS = {
    "quick": dict(mc=["MC_MxActions_quick.cfg"], mc_cov="MC_MxActions_inputs_quick.cfg",
                  mbt=[("MBT_MxActions_quick.cfg", 2), ("MBT_MxActions_inputs_quick.cfg", 2)],
                  random=0, direct_every=7),
    "thorough": dict(mc=["MC_MxActions_thorough.cfg", "MC_MxActions_inputs_thorough.cfg"],
                     mc_cov="MC_MxActions_inputs_quick.cfg",
                     mbt=[("MBT_MxActions_quick.cfg", 6), ("MBT_MxActions_inputs_thorough.cfg", 1),
                          ("MBT_MxActions_thorough.cfg", 1)],
                     random=3000, direct_every=11),
}


def run(pid, tier, seed):
    cfg = TIERS[tier]
    rng = random.Random(seed)
    res = {"level": LEVEL[pid], "violations": [], "assumptions": list(ASSUMPTIONS)}
    failures = []

    # 1. design level (runs while the real library is exercised)
    ctx = mp.get_context("fork")
    mc_recv, mc_send = ctx.Pipe(duplex=False)
    mc_proc = ctx.Process(target=_mc_child, args=(cfg["mc"], cfg["mc_cov"], mc_send))
    mc_proc.start()

    # 2. spec -> code: the cases come from TLC
    t0 = time.time()
    jobs, enum = [], []
    seen = set()
    for mbt_cfg, nvar in cfg["mbt"]:
        cases, r = enumerate_cases(mbt_cfg)
        fresh = []
        for c in cases:
            k = json.dumps(c, sort_keys=True)
            if k not in seen:
                seen.add(k)
                fresh.append(c)
        enum.append({"cfg": mbt_cfg, "cases_printed": len(cases), "new_cases": len(fresh),
                     "variants_per_case": nvar})
        jobs += jobs_for(fresh, seed + len(jobs), nvar, cfg["direct_every"])
    n_enum_cases = len(seen)
    n_enum_jobs = len(jobs)
    rnd = random_cases(seed, cfg["random"])
    jobs += jobs_for(rnd, seed + 1, 1, 3)
    t_enum = time.time() - t0
    t0 = time.time()
    traces = produce(jobs)
    t_prod = time.time() - t0

    # 3. code -> spec
    verdicts, stats = judge(traces)
    labels_seen = collections.Counter()
    for tr, v in zip(traces, verdicts):
        if v["matched"] != v["total"] or v["total"] != 2:
            failures.append("trace consumed %d of %d events" % (v["matched"], v["total"]))
            break
    reported = 0
    for tr, v in zip(traces, verdicts):
        mine = []
        for lab, l in v["viol"]:
            labels_seen[lab] += 1
            base = lab[3:] if lab.startswith("KF:") else lab
            if base.startswith("C16."):
                mine.append((lab, l))
            elif base.startswith("MACH."):
                failures.append("oracle cross-check failed: %s on case %s" % (
                    lab, json.dumps(sample_of(tr)["case"])))
        if mine and reported < 25:
            reported += 1
            path = save_replay(pid, tr)
            for lab, l in sorted(mine, key=lambda x: x[1]):
                res["violations"].append({"label": lab, "line": l, "replay": path})

    # 1 (cont.)
    mcs, t_mc = mc_recv.recv()
    mc_proc.join()
    if isinstance(mcs, str):
        raise tlc.TLCError("design-level model check crashed:\n" + mcs)
    for r in mcs:
        if r.get("violated_invariant"):
            inv = r["violated_invariant"]
            lab = inv[4:].replace("_", ".", 1) if inv.startswith("Inv_C16_") else "MODEL." + inv
            if lab.startswith("C16."):
                res["violations"].append({"label": lab, "line": 0,
                                          "replay": save_design_replay(pid, r)})
            else:
                failures.append("algorithm-layer consistency invariant %s violated (%s)" % (inv, r["cfg"]))
        elif not r["ok"]:
            failures.append("design-level model check did not complete cleanly (%s)" % r["cfg"])
        r.pop("counterexample", None)
    taken = mcs[-1].get("actions_taken", {})
    dead = [a for a in MODEL_ACTIONS if not taken.get(a)]
    if dead and mcs[-1]["ok"]:
        failures.append("vacuous model: actions never taken: %s" % dead)

    # 4. negative controls
    nc = negative_controls(traces, verdicts, rng)
    if not res["violations"]:
        if nc["attempted"] == 0 or nc["rejected"] != nc["attempted"] \
                or not nc.get("all_predicates_exercised"):
            failures.append("negative control not rejected: %r" % (nc,))

    # 5. evidence
    kinds = collections.Counter()
    nonempty = collections.Counter()
    hashes, nontrivial = set(), set()
    by_n = collections.Counter()
    by_style = collections.Counter()
    for tr in traces:
        h = case_hash(tr["hdr"], tr["hdr"])
        hashes.add(h)
        if is_nontrivial(tr):
            nontrivial.add(h)
        by_n[str(tr["hdr"]["n"])] += 1
        by_style[tr["hdr"]["style"]] += 1
        for a in tr["ev"][0]["actions"]:
            kinds[a["kind"]] += 1
            if a["nodes"]:
                nonempty[a["kind"]] += 1
    for k in ("calc", "paste", "clear"):
        if not nonempty[k]:
            failures.append("vacuous run: no non-empty %s step was executed" % k)
    drift = {k: v for k, v in labels_seen.items() if k.startswith("DRIFT.")}
    agree = sum(1 for v in verdicts if not any(l.startswith("DRIFT.") for l, _ in v["viol"]))
    mc_states = sum(r.get("states") or 0 for r in mcs)
    mc_trans = sum(r.get("transitions") or 0 for r in mcs)
    samples = [sample_of(t) for t in traces if is_nontrivial(t)][:1] + \
              [sample_of(t) for t in traces[-1:]]
    cov = {
        "states": mc_states + stats["states"],
        "transitions": mc_trans + stats["transitions"],
        "traces_validated_against_impl": len(traces),
        "samples": samples,
        "evaluations": len(traces),
        "distinct_nontrivial": len(nontrivial),
        "distinct_cases": len(hashes),
        "rule": "one case = (DAG, target set, step size, inputs) x (cells style, call order, target "
                "order); the (DAG, targets, step, inputs) part is enumerated by TLC from MxActions "
                "(printed once per initial case) plus seeded random 8-12 node DAGs in the thorough "
                "tier; distinct by SHA-1 of case+variant; non-trivial = the returned plan pastes or "
                "clears at least one element that is not a target",
        "exhaustive": True,
        "exhaustive_note": "the model check and the case enumeration are complete for the bounds "
                           "of the cfg files (all DAGs x target sets x step sizes 1..n+1, the model "
                           "also x all topological orders); random larger DAGs are sampled",
        "design_model_check": mcs,
        "model_states": mc_states, "model_transitions": mc_trans,
        "trace_states": stats["states"],
        "case_enumeration": enum,
        "model_enumerated_cases": n_enum_cases,
        "model_enumerated_executions": n_enum_jobs,
        "random_larger_dag_cases": len(rnd),
        "executions_by_nodes": dict(by_n),
        "executions_by_style": dict(by_style),
        "action_steps_executed": dict(kinds),
        "nonempty_action_steps": dict(nonempty),
        "executions_where_modelx_order_is_not_ascending": sum(
            1 for t in traces if _calc_seq(t) != sorted(_calc_seq(t))),
        "oracle_cross_checked": sum(1 for t in traces if "directvals" in t["hdr"]),
        "labels_raised": dict(labels_seen),
        "drift": drift,
        "impl_model_agreement": {"agree": agree, "of": len(traces)},
        "negative_controls": nc,
        "wall": {"model_check_s": round(t_mc, 1), "enumeration_s": round(t_enum, 1),
                 "execution_s": round(t_prod, 1), "judgement_s": round(stats["tlc_wall_s"], 1)},
    }
    res["coverage"] = cov
    if failures:
        res["machinery_failure"] = "; ".join(failures[:3])
    res["summary"] = "model states=%d cases=%d executions=%d nontrivial=%d drift=%d neg=%d/%d" % (
        mc_states, n_enum_cases + len(rnd), len(traces), len(nontrivial), sum(drift.values()),
        nc["rejected"], nc["attempted"])
    return res


def replay(pid, path):
    rec = json.load(open(path))
    if "design_cfg" in rec:
        r = model_check(rec["design_cfg"])
        res = {"level": LEVEL[pid], "violations": [], "coverage": {}}
        if r.get("violated_invariant", "").startswith("Inv_C16_"):
            res["violations"].append({"label": r["violated_invariant"][4:].replace("_", ".", 1),
                                      "line": 0, "replay": path})
        elif not r["ok"]:
            res["machinery_failure"] = "design-level model check did not complete cleanly"
        res["summary"] = "design-level model check %s: %s" % (
            rec["design_cfg"], r.get("violated_invariant", "no invariant violated"))
        return res
    var = dict(rec["variant"])
    var["direct"] = True
    traces = produce([(rec["case"], var)], procs=1)
    verdicts, _ = judge(traces, procs=1)
    v = verdicts[0]
    res = {"level": LEVEL[pid], "violations": [], "coverage": {}}
    for lab, l in v["viol"]:
        base = lab[3:] if lab.startswith("KF:") else lab
        if base.startswith("C16."):
            res["violations"].append({"label": lab, "line": l, "replay": path})
    if v["matched"] != v["total"]:
        res["machinery_failure"] = "trace consumed %d of %d events" % (v["matched"], v["total"])
    res["summary"] = "replayed case n=%d targets=%s step=%d, labels=%r" % (
        rec["case"]["n"], rec["case"]["targets"], rec["case"]["step"], v["viol"])
    return res
