"""C14: the corpus of small models that are saved / loaded under fault injection.

Every model carries a generation marker (the model-level reference ``gen``) that is changed
before every save, so that whatever is found later at <path>, <path>_BAK1.. can be classified by
reading it back: which generation is it, and is it complete (fingerprint of everything the
model contains).
"""
import sys
import zlib

KINDS = ["plain", "pickled", "items", "pandas"]


class Marker:
    """A value modelx can only store by pickling.  Pickling and unpickling it are announced as
    audit events, which makes them operations the fault injector can count and fail."""

    def __init__(self, n):
        self.n = n

    def __reduce__(self):
        sys.audit("verif.pickle.reduce", self.n)
        return (_rebuild, (self.n,))

    def __repr__(self):
        return "Marker(%d)" % self.n


def _rebuild(n):
    sys.audit("verif.pickle.rebuild", n)
    return Marker(n)


def build(kind, name="M"):
    import modelx as mx
    m = mx.new_model(name)
    m.gen = 0
    s = m.new_space("S")
    s.new_cells("a", formula="lambda x: x + gen")
    s.new_cells("b", formula="lambda: a(1) * 2")
    c = s.new_space("C")
    c.new_cells("c", formula="lambda: 3")
    s.a[5] = 50                                     # an input value of a static cells
    if kind == "pickled":
        s.obj = Marker(0)
        s.new_cells("o", formula="lambda: obj.n + gen")
    elif kind == "items":
        p = m.new_space("P", formula=lambda i: None)
        p.new_cells("b", formula="lambda: i * 2 + gen")
        p.new_cells("c", formula="lambda y: y + i")
        p[1].b()
        p[2].c[0] = 7                               # an input inside an ItemSpace
    elif kind == "pandas":
        import pandas as pd
        df = pd.DataFrame({"u": [1, 2, 3], "v": [4, 5, 6]})
        s.new_pandas("df", "files/df.csv", df, file_type="csv")
        s.new_cells("t", formula="lambda: int(df['v'].sum()) + gen")
    elif kind != "plain":
        raise ValueError(kind)
    return m


def set_gen(m, kind, n):
    """Make the model generation n (called before every save)."""
    m.gen = n
    if kind == "pickled":
        m.S.obj = Marker(n)


def describe(m, kind):
    """Everything the model of this kind contains, computed through the public API."""
    out = [("gen", m.gen)]
    for sp in (m.S, m.S.C):
        out.append((sp.fullname.split(".", 1)[1], sorted(
            (c.name, c.formula.source.strip()) for c in sp.cells.values())))
    out.append(("a1", m.S.a(1)))
    out.append(("a5", m.S.a(5)))
    out.append(("b", m.S.b()))
    out.append(("c", m.S.C.c()))
    if kind == "pickled":
        out.append(("obj", type(m.S.obj).__name__, m.S.obj.n))
        out.append(("o", m.S.o()))
    elif kind == "items":
        out.append(("params", list(m.P.parameters)))
        out.append(("p1b", m.P[1].b()))
        out.append(("p2c0", m.P[2].c(0)))
        out.append(("p2c1", m.P[2].c(1)))
    elif kind == "pandas":
        out.append(("df", m.S.df.values.tolist(), list(m.S.df.columns)))
        out.append(("t", m.S.t()))
        out.append(("specs", len(m.iospecs)))
    return out


def fingerprint(m, kind):
    """(generation, fingerprint) of a live or read-back model; small ints for TLC."""
    d = describe(m, kind)
    return int(m.gen), zlib.crc32(repr(d).encode()) % 1000003
