"""./check <ID> --tier quick|thorough [--replay path]

Exit 0: property held on everything explored (KNOWN-FINDING lines may be printed).
Exit 1: a line "VIOLATION property=<id> replay=<path>" was printed.
Exit 2: the machinery itself failed (TLC error, malformed trace, vacuous run).
"""
import argparse
import json
import os
import sys
import time
import traceback

ROOT = os.path.dirname(os.path.dirname(os.path.abspath(__file__)))
sys.path.insert(0, ROOT)

from harness import engines  # noqa: E402


def load_known():
    path = os.path.join(ROOT, "known_findings.json")
    if os.path.exists(path):
        return json.load(open(path))
    return {"findings": []}


def main():
    ap = argparse.ArgumentParser()
    ap.add_argument("prop")
    ap.add_argument("--tier", default=os.environ.get("VERIF_TIER", "quick"),
                    choices=["quick", "thorough"])
    ap.add_argument("--replay")
    ap.add_argument("--seed", type=int, default=int(os.environ.get("VERIF_SEED", "20261002")))
    args = ap.parse_args()
    prop = args.prop
    if prop not in engines.PROPS:
        print("unknown property %s" % prop)
        return 2
    t0 = time.time()
    try:
        if args.replay:
            res = engines.replay(prop, args.replay)
        else:
            res = engines.run(prop, args.tier, args.seed)
    except Exception:
        traceback.print_exc()
        print("MACHINERY-FAILURE property=%s" % prop)
        return 2
    wall = time.time() - t0
    known = {f["label"]: f for f in load_known()["findings"] if f.get("status") == "known"}
    rc = 0
    seen_known = set()
    for v in res["violations"]:
        lab = v["label"]
        if lab.startswith("KF:"):
            if lab in known:
                if lab not in seen_known:
                    seen_known.add(lab)
                    print("KNOWN-FINDING: property=%s %s (%s)" % (prop, known[lab]["what"], lab))
                continue
            # a KF label that is not listed is reported as the violation it is
        print("VIOLATION property=%s replay=%s   [%s at event %s]" % (
            prop, v["replay"], lab, v.get("line")))
        rc = 1
    if not args.replay:
        ev = {
            "property_id": prop, "tier": args.tier, "seed": args.seed,
            "level": res["level"], "coverage": res["coverage"],
            "assumptions": res.get("assumptions", []),
            "wall_s": round(wall, 2),
            "violations": sum(1 for v in res["violations"] if not (
                v["label"].startswith("KF:") and v["label"] in known)),
        }
        os.makedirs(os.path.join(ROOT, "evidence"), exist_ok=True)
        with open(os.path.join(ROOT, "evidence", "%s.json" % prop), "w") as f:
            json.dump(ev, f, indent=1, sort_keys=True)
    if res.get("machinery_failure"):
        print("MACHINERY-FAILURE property=%s %s" % (prop, res["machinery_failure"]))
        return 2
    print("%s property=%s tier=%s wall=%.1fs %s" % (
        "OK" if rc == 0 else "FAILED", prop, args.tier, wall, res.get("summary", "")))
    return rc


if __name__ == "__main__":
    sys.exit(main())
