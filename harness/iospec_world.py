"""C18 driver: executes operation histories on the REAL modelx (IOSpecs, references, IOManager)
and projects the abstract state of spec/MxIOSpecProps.tla after every public call.

Nothing here decides anything about the property: the trace produced by run_case() is judged by
TLC with spec/MxIOSpecTrace.tla.

Vocabulary (shared with spec/MxIOSpec.tla):
  models "M1","M2"; every model has spaces A and B, each with a scalar cells "c"; B may derive
  from A; names of references are plain identifiers, "c" is the cells, "1x" is not an
  identifier, "A" is a space name at model level;
  values are identified BY IDENTITY with small ints: 0 = the int 0, pandas ids, module ids,
  and modelx objects OF THE SAME MODEL: 101 = space A, 102 = cells A.c, 103 = space B,
  104 = cells B.c.
"""
import hashlib
import json
import os
import shutil
import sys
import tempfile
import types

_mods = {}


def libs():
    """Import modelx/pandas lazily (VERIF_REPO overrides the library location)."""
    if not _mods:
        repo = os.environ.get("VERIF_REPO")
        if repo:
            repo = os.path.abspath(repo)
            if sys.path[0] != repo:
                sys.path.insert(0, repo)
            loaded = sys.modules.get("modelx")
            if loaded is not None and not os.path.abspath(loaded.__file__).startswith(repo + os.sep):
                # something imported the default tree first: drop it
                for k in [k for k in sys.modules if k == "modelx" or k.startswith("modelx.")]:
                    del sys.modules[k]
        import modelx
        import pandas
        from modelx.core.system import mxsys
        _mods.update(mx=modelx, pd=pandas, sys=mxsys)
    return _mods["mx"], _mods["pd"], _mods["sys"]


SPACES = ("A", "B", "K")      # K is a CHILD space of A (it goes away with A)


def sp_impl(impl, s):
    """Impl of the space called s in this world, or None."""
    if s == "K":
        a = impl.named_spaces.get("A") if "A" in impl.named_spaces else None
        return a.named_spaces["K"] if a is not None and "K" in a.named_spaces else None
    return impl.named_spaces[s] if s in impl.named_spaces else None
CLOSED = {"open": False, "base": False, "sp": [], "refs": [], "v2r": [], "specs": [], "gs": []}


def reset_session():
    """Close every model; then make sure nothing of an earlier case is left in the process-global
    registries (a case may have driven the library into a state where close() raises, and specs
    orphaned by a known finding stay in the IOManager for ever)."""
    mx, pd, mxsys = libs()
    for m in list(mx.get_models().values()):
        try:
            m.close()
        except Exception:
            pass
    mxsys.models.clear()
    mxsys.currentmodel = None
    ios = mxsys.iomanager.ios
    dict.clear(ios)
    ios.inverse.clear()


def make_pandas(pd, v, gen=0):
    if v % 2:
        return pd.DataFrame({"a": [v + gen, v + 1], "b": [v + 2, v + 3]})
    return pd.Series([v + gen, v + 1, v + 2], name="s%d" % v)


def content_of(pd, obj):
    """The value as a flat list of small ints (compared by TLC)."""
    if isinstance(obj, pd.DataFrame):
        return [2, obj.shape[0], obj.shape[1]] + [int(x) for x in obj.to_numpy().ravel()]
    if isinstance(obj, pd.Series):
        return [1, obj.shape[0]] + [int(x) for x in obj.to_numpy().ravel()]
    if isinstance(obj, types.ModuleType):
        return [3, int(getattr(obj, "X", -1))]
    return [0]


class HarnessError(Exception):
    pass


class World:
    def __init__(self, init):
        mx, pd, mxsys = libs()
        self.mx, self.pd, self.sys = mx, pd, mxsys
        reset_session()
        self.init = init
        self.tmp = tempfile.mkdtemp(prefix="mxv_c18_")
        self.obj = {}           # value id -> object (kept alive: identities stay unique)
        self.retired = []       # objects whose id was re-used for a newly loaded module
        for v in init["pvals"]:
            self.obj[v] = make_pandas(pd, v)
        self.mvals = list(init["mvals"])
        self.models = {}        # name -> Model interface, also after close
        self.oobj = {}          # model name -> {object value id -> Space / Cells interface}
        self.copies = []        # (name, Model) of read-back copies
        for name in init["models"]:
            m = mx.new_model(name)
            for s in SPACES:
                if s == "K" and not init.get("child"):
                    continue        # (configurations without the child space)
                sp = m.new_space(s) if s != "K" else m.A.new_space(s)
                sp.new_cells("c", formula="lambda: 1")
            if name in init["base"]:
                m.B.add_bases(m.A)
            self.models[name] = m
            # modelx objects as values (interfaces kept: identity survives deletion)
            self.oobj[name] = {101: m.A, 102: m.A.c, 103: m.B, 104: m.B.c}
        self.nwrites = 0

    def close(self):
        try:
            reset_session()
        finally:
            shutil.rmtree(self.tmp, ignore_errors=True)

    # -- identification -------------------------------------------------------
    def vid(self, o, mname=None):
        for k, x in self.obj.items():
            if x is o:
                return k
        for k, x in self.oobj.get(mname, {}).items():
            if x is o:
                return k
        if type(o) is int and o == 0:
            return 0
        return -1

    def vid_by_id(self, key, mname=None):
        for k, x in self.obj.items():
            if id(x) == key:
                return k
        for k, x in self.oobj.get(mname, {}).items():
            if id(x) == key:
                return k
        if key == id(0):
            return 0
        return -1

    def value(self, v, mname=None):
        if v >= 100:
            return self.oobj[mname][v]
        return 0 if v == 0 else self.obj[v]

    def model_name(self, g):
        for n, m in self.models.items():
            if m is g:
                return n
        for n, m in self.copies:
            if m is g:
                return n
        return "?"

    def loc_of(self, path):
        if path.is_absolute():
            try:
                return "/" + path.relative_to(self.tmp).as_posix()
            except ValueError:
                return path.as_posix()
        return path.as_posix()

    def is_open(self, name):
        return self.mx.get_models().get(name) is self.models[name]

    def parent(self, m, sp):
        model = self.models[m]
        return model if sp == "" else sp_impl(model._impl, sp).interface

    def msrc(self, v, gen=0):
        """Source file of module value id v."""
        p = os.path.join(self.tmp, "src_%d_%d.py" % (v, gen))
        if not os.path.exists(p):
            with open(p, "w") as f:
                f.write("X = %d\n" % (v * 10 + gen))
        return p

    # -- projection -----------------------------------------------------------
    def observe_model(self, name):
        m = self.models[name]
        if not self.is_open(name):
            return dict(CLOSED)
        impl = m._impl
        sps = [s for s in SPACES if sp_impl(impl, s) is not None]
        refs = []
        for n, r in impl.global_refs.items():
            if n != "__builtins__":
                refs.append({"sp": "", "n": n, "v": self.vid(r.interface, name), "d": False})
        for s in sps:
            for n, r in sp_impl(impl, s).own_refs.items():
                refs.append({"sp": s, "n": n, "v": self.vid(r.interface, name),
                             "d": bool(r.is_derived())})
        base = False
        if "A" in sps and "B" in sps:
            base = any(b is m.spaces["A"] for b in m.spaces["B"]._direct_bases)
        v2r = []
        for key, rs in impl.refmgr._valid_to_refs.items():
            v = self.vid_by_id(key, name)
            for r in rs:
                v2r.append({"v": v, "sp": "" if r.parent is impl else r.parent.name, "n": r.name})
        try:
            specs = [{"v": self.vid(s.value), "loc": self.loc_of(s.path)} for s in m.iospecs]
        except Exception as e:
            specs = [{"v": -3, "loc": "!" + type(e).__name__}]
        gs = []
        for v, o in sorted(self.obj.items()):
            try:
                s = m.get_spec(o)
            except ValueError:
                continue
            except Exception as e:
                gs.append({"v": -3, "loc": "!" + type(e).__name__})
                continue
            gs.append({"v": v, "loc": self.loc_of(s.path)})
        return {"open": True, "base": base, "sp": sps, "refs": refs, "v2r": v2r, "specs": specs,
                "gs": gs}

    def observe(self):
        ios = []
        for (g, path), io in self.sys.iomanager.ios.items():
            gname = "" if g is None else self.model_name(g)
            loc = self.loc_of(path)
            specs = list(io.specs.values())
            if not specs:
                ios.append({"g": gname, "loc": loc, "v": -2})
            for s in specs:
                ios.append({"g": gname, "loc": loc, "v": self.vid(s.value)})
        try:
            self.sys._check_sanity()
            sane = True
        except Exception:
            sane = False
        return {"M": {n: self.observe_model(n) for n in self.models}, "ios": ios, "sane": sane}

    def adopt_modules(self, v):
        """A module object loaded by the operation gets the id the operation announced."""
        found = None
        for name, m in self.models.items():
            if not self.is_open(name):
                continue
            impl = m._impl
            spaces = [sp_impl(impl, s) for s in SPACES if sp_impl(impl, s) is not None]
            for refs in [impl.global_refs] + [s.own_refs for s in spaces]:
                for n, r in refs.items():
                    o = r.interface
                    if isinstance(o, types.ModuleType) and n != "__builtins__" and self.vid(o) == -1:
                        found = o
        if found is not None:
            if v in self.obj:
                self.retired.append(self.obj[v])
            self.obj[v] = found

    # -- operations -------------------------------------------------------------
    def apply(self, op):
        """Execute one operation; returns the event (operation + res [+ rt, rspecs])."""
        mx, pd = self.mx, self.pd
        ev = dict(op)
        k = op["op"]
        m = self.models[op["m"]]
        try:
            if k == "new_spec":
                par = self.parent(op["m"], op["sp"])
                kind = op.get("kind") or ("module" if op["loc"].endswith(".py") else "csv")
                if kind == "csv":
                    par.new_pandas(op["n"], op["loc"], self.obj[op["v"]], file_type="csv")
                elif kind == "module":
                    par.new_module(op["n"], op["loc"], self.msrc(op["v"]))
                    self.adopt_modules(op["v"])
                else:
                    raise HarnessError("unknown kind")
            elif k == "assign":
                setattr(self.parent(op["m"], op["sp"]), op["n"], self.value(op["v"], op["m"]))
            elif k == "del_ref":
                delattr(self.parent(op["m"], op["sp"]), op["n"])
            elif k == "update":
                old = self.obj[op["old"]]
                if isinstance(old, types.ModuleType):
                    m.update_module(old, self.msrc(op["new"], 1))
                    self.adopt_modules(op["new"])
                elif op["new"] == op["old"]:
                    if op.get("inplace"):
                        old.iloc[0] = old.iloc[0] + 1
                    m.update_pandas(old)
                else:
                    m.update_pandas(old, self.obj[op["new"]])
            elif k == "add_base":
                m.spaces["B"].add_bases(m.spaces["A"])
            elif k == "remove_base":
                m.spaces["B"].remove_bases(m.spaces["A"])
            elif k == "del_space":
                delattr(m if op["sp"] != "K" else m.A, op["sp"])
            elif k == "close":
                m.close()
            elif k == "write_read":
                ev.update(self.write_read(op["m"]))
                return ev
            else:
                raise HarnessError("unknown operation %r" % (k,))
            ev["res"] = "ok"
        except HarnessError:
            raise
        except Exception as e:
            ev["res"] = "rejected"
            ev["exc"] = type(e).__name__
        return ev

    def write_read(self, name):
        """Save the model, read it back under another name, compare spec by spec, close the copy."""
        mx, pd = self.mx, self.pd
        m = self.models[name]
        self.nwrites += 1
        out = os.path.join(self.tmp, "out%d" % self.nwrites)
        rname = "R%d" % self.nwrites
        rt, rspecs, res, exc = [], [], "ok", ""
        orefs_ok = True
        copy = None
        try:
            src_specs = list(m.iospecs)
            src_refs = self.observe_model(name)["refs"]
            m.write(out)
            copy = mx.read_model(out, name=rname)
            self.copies.append((rname, copy))
            cspecs = {self.loc_of(s.path): s for s in copy.iospecs}
            rspecs = sorted(cspecs)
            # references bound to modelx objects: bound to the corresponding object of the copy
            cobj = {}
            for sname in ("A", "B"):
                if sname in copy._impl.named_spaces:
                    sp = copy.spaces[sname]
                    cobj[101 if sname == "A" else 103] = sp
                    cobj[102 if sname == "A" else 104] = sp.cells["c"]
            for r in src_refs:
                if r["v"] >= 100:
                    cpar = copy._impl if r["sp"] == "" else sp_impl(copy._impl, r["sp"])
                    crefs = None if cpar is None else (
                        cpar.global_refs if r["sp"] == "" else cpar.own_refs)
                    cr = crefs[r["n"]] if crefs is not None and r["n"] in crefs else None
                    if cr is None or cobj.get(r["v"]) is None or cr.interface is not cobj[r["v"]]:
                        orefs_ok = False
            for s in src_specs:
                loc = self.loc_of(s.path)
                v = self.vid(s.value)
                ent = {"v": v, "loc": loc, "exists": os.path.exists(os.path.join(out, loc)),
                       "eq": False, "src": content_of(pd, s.value), "rd": [], "refs_ok": False}
                cs = cspecs.get(loc)
                if cs is not None:
                    rv = cs.value
                    ent["rd"] = content_of(pd, rv)
                    if isinstance(rv, types.ModuleType):
                        ent["eq"] = (cs.io.source == s.io.source)
                    else:
                        ent["eq"] = bool(type(rv) is type(s.value) and rv.equals(s.value))
                    want = sorted((r["sp"], r["n"]) for r in src_refs if r["v"] == v)
                    got = []
                    cimpl = copy._impl
                    for n, r in cimpl.global_refs.items():
                        if r.interface is rv:
                            got.append(("", n))
                    for sname in SPACES:
                        if sp_impl(cimpl, sname) is not None:
                            for n, r in sp_impl(cimpl, sname).own_refs.items():
                                if r.interface is rv:
                                    got.append((sname, n))
                    ent["refs_ok"] = (sorted(got) == want)
                rt.append(ent)
        except Exception as e:
            res, exc = "rejected", type(e).__name__
        finally:
            try:
                if copy is not None:
                    copy.close()
                elif rname in mx.get_models():
                    mx.get_models()[rname].close()
            except Exception:
                pass
        return {"res": res, "rt": rt, "rspecs": rspecs, "exc": exc, "orefs_ok": orefs_ok}


def run_case(case, gen=None):
    """case = {"init": {...}, "ops": [...]} ; gen(world, obs, i) yields further ops when given.
    Returns the trace {"hdr":..., "ev":[...]}."""
    w = World(case["init"])
    try:
        obs = w.observe()
        hdr = {"init": obs, "vals": sorted(set(case["init"]["pvals"]) | set(case["init"]["mvals"])),
               "cfg": case["init"], "src": case.get("src", ""), "seed": case.get("seed", 0)}
        evs = []
        ops = list(case.get("ops", []))
        i = 0
        while True:
            if i < len(ops):
                op = ops[i]
            elif gen is not None:
                op = gen(w, obs, i)
                if op is None:
                    break
            else:
                break
            i += 1
            if not w.is_open(op["m"]):
                # an operation on a closed model is not part of the vocabulary
                continue
            ev = w.apply(op)
            obs = w.observe()
            ev["post"] = obs
            evs.append(ev)
        return {"hdr": hdr, "ev": evs}
    finally:
        w.close()


OPKEYS = ("op", "m", "sp", "n", "loc", "kind", "v", "old", "new", "inplace")


def ops_of(trace):
    return [{k: e[k] for k in OPKEYS if k in e} for e in trace["ev"]]


def case_hash(init, ops):
    return hashlib.sha1(json.dumps([init, ops], sort_keys=True).encode()).hexdigest()
