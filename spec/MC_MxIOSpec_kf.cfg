\* Tripwire configuration: the same instance as MC_MxIOSpec_quick1.cfg with "no known-finding label ever" as the only invariant. On the repaired code the model satisfies it; a counterexample here is the design-level form of one of the KF:C18.* findings.
CONSTANTS
  Models = {"M1"}
  BaseInit = {"M1"}
  Names = {"x", "y"}
  CsvLocs = {"p.csv", "q.csv"}
  ModLocs = {"mo.py"}
  PVals = {1, 2}
  MVals = {3}
  OVals = {101, 102}
  WithDelSpace = TRUE
  WithChild = FALSE
  OpenFindings = {}
  MaxOps = 3
  Dump = FALSE
VIEW View
INIT Init
NEXT Next

INVARIANT Inv_NoKnownFinding
CHECK_DEADLOCK FALSE
