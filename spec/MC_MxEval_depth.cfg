CONSTANTS
  MaxOps = 2
  MaxDepthC = 1
  Pattern = "any"
  Dump = FALSE
INIT Init
NEXT Next
CONSTRAINT Bound
INVARIANT Inv_C02_NoStale
INVARIANT Inv_C08_GraphEqCache
INVARIANT Inv_C05_Idle
INVARIANT Inv_C01_C05_Call
INVARIANT Inv_C17_Traceback
CHECK_DEADLOCK FALSE
