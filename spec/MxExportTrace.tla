--------------------------- MODULE MxExportTrace ---------------------------
(***************************************************************************)
(* C15 "An exported package computes the same values as the model".        *)
(*                                                                         *)
(* Translation validation: the source program is the definitions record D  *)
(* (MxSem), its meaning is the oracle Den(D, element); the translation is  *)
(* the self-contained package written by model.export()                    *)
(* (modelx/export/exporter.py:64-113), imported and queried in a process   *)
(* in which modelx cannot be imported.  A recorded trace is                *)
(*    [hdr |-> [init |-> <definitions>, ...],                              *)
(*     ev  |-> << export event, query event, query event, ... >>]          *)
(*  export event: [op |-> "export", exported, imported, nomodelx, hasf,    *)
(*                 fexported, fimported, flagsok]                          *)
(*  query event : [op |-> "query", c |-> <<path, steps, cells>>, args,     *)
(*                 live, pkg, pkg2, hasf, pkgf, pkgf2]                     *)
(*     steps = as the caller wrote them (ItemSpace arguments as given);    *)
(*     live  = value in the live model            (World, harness/world.py)*)
(*     pkg   = value returned by the package, first query                  *)
(*             (cache methods: exporter.py:384-404; ItemSpace __call__:    *)
(*              exporter.py:406-432; formulas rewritten by                 *)
(*              transformer.py:137-316; references: exporter.py:204-272)   *)
(*     pkg2  = the same query again (served by the package's cache)        *)
(*     pkgf / pkgf2 = the same from the package exported from the same     *)
(*             program with ALL cached flags flipped                       *)
(*     values are integers; None and errors use the codes of MxSem.        *)
(* One TLA+ step consumes one event; predicates never disable a step, they *)
(* add a label to `viol`.                                                  *)
(***************************************************************************)
EXTENDS MxProps, Json, IOUtils, TLCExt

Traces == JsonDeserialize(IOEnv.TRACE_FILE)

VARIABLES tid,     \* which trace of the batch
          l,       \* next event to consume
          D,       \* the definitions (never change: no edits after export)
          viol     \* set of <<label, event index>>
xvars == <<tid, l, D, viol>>

Tr   == Traces[tid]
NEv  == Len(Tr.ev)
Ev   == Tr.ev[l]
Tag  == <<tid, l>>

-----------------------------------------------------------------------------
(* From the element as the caller spelled it to the element of MxSem:      *)
(* arguments of ItemSpaces and of the cells are bound to the parameters    *)
(* (defaults applied) -- C01's "every spelling denotes the same element".  *)

RECURSIVE StepsBindable(_, _, _, _)
StepsBindable(DD, p, steps, acc) ==
    IF Len(steps) = 0 THEN TRUE
    ELSE LET st == steps[1] IN
         IF st[1] = "i"
         THEN LET b == BaseOf(DD, p, acc) IN
              /\ b \in DD.sp /\ b \in DOMAIN DD.pf
              /\ BindOK(DD.flib[DD.pf[b]].ps, st[3])
              /\ StepsBindable(DD, p, Tail(steps),
                     Append(acc, <<"i", "", Bind(DD.flib[DD.pf[b]].ps, st[3])>>))
         ELSE StepsBindable(DD, p, Tail(steps), Append(acc, <<"c", st[2], <<>>>>))

RECURSIVE BindSteps(_, _, _, _)
BindSteps(DD, p, steps, acc) ==
    IF Len(steps) = 0 THEN acc
    ELSE LET st == steps[1] IN
         IF st[1] = "i"
         THEN BindSteps(DD, p, Tail(steps),
                  Append(acc, <<"i", "", Bind(DD.flib[DD.pf[BaseOf(DD, p, acc)]].ps, st[3])>>))
         ELSE BindSteps(DD, p, Tail(steps), Append(acc, <<"c", st[2], <<>>>>))

\* the event denotes an element of the program
Denotes(DD, e) ==
    /\ StepsBindable(DD, e.c[1], e.c[2], <<>>)
    /\ LET st == BindSteps(DD, e.c[1], e.c[2], <<>>) IN
       /\ NodeExists(DD, <<e.c[1], st, e.c[3], <<>>>>)
       /\ BindOK(FRec(DD, CellRecOf(DD, <<e.c[1], st>>, e.c[3])).ps, e.args)

NodeOfQ(DD, e) ==
    LET st == BindSteps(DD, e.c[1], e.c[2], <<>>) IN
    <<e.c[1], st, e.c[3], Bind(FRec(DD, CellRecOf(DD, <<e.c[1], st>>, e.c[3])).ps, e.args)>>

-----------------------------------------------------------------------------
(* The property predicates.                                                *)

\* the package returns what the program means.  (A reference to an object that does not exist
\* -- e.g. a relative reference to a child space the deriving space has no counterpart of --
\* is exported as None, exporter.py:252-261: where the model raises DeletedObjectError the
\* package, which has no such exception, must fail too: AttributeError / TypeError.)
PackageEqOracle(v, exp)       == \/ v = exp
                                 \/ exp = ErrDeleted /\ v \in {ErrName, ErrType}
\* ... and so does the live model (otherwise the finding is about the model or the oracle,
\* not about export: reported as machinery label, never as C15)
LiveEqOracle(v, exp)          == v = exp
\* asking again (cache hit in the package) gives the same answer
PackageStable(v1, v2)         == v1 = v2
\* the package of the program with all cached flags flipped returns the same
CachedUncachedAgree(v, vf)    == v = vf

-----------------------------------------------------------------------------
(* REGRESSION TRIPWIRES for two genuine defects of                           *)
(* modelx/export/transformer.py that this check found (see                   *)
(* harness/export_templates.py) and that were repaired in /repo (0ecda46,    *)
(* 5b8fa93).  hdr.syn lists <<path, cells, feature>> for every DEFINED cells  *)
(* whose formula TEXT has the syntactic feature of one of them.  The         *)
(* predicates below describe exactly the two failing situations; any other   *)
(* disagreement keeps its normal label.                                      *)

Syn == Tr.hdr.syn
\* the formula text of the cells that element m evaluates has feature ft
HasSyn(DD, m, ft) ==
    LET def == Definer(DD, CtxBase(DD, <<m[1], m[2]>>), "cells", m[3]) IN
    \E i \in 1..Len(Syn) : Syn[i][1] = def /\ Syn[i][2] = m[3] /\ Syn[i][3] = ft

\* every element the formula of n may call (all ops, whether reached or not)
MayCall(DD, n) ==
    LET ctx == <<n[1], n[2]>>
        ops == FRec(DD, CellRecOf(DD, ctx, n[3])).ops IN
    {CallTarget(DD, ctx, n[4], ops[i]) :
        i \in {j \in 1..Len(ops) : ops[j][1] = "call" /\ ~Skipped(ops[j][3], n[4])
                                   /\ CallErr(DD, ctx, n[4], ops[j]) = 0}}
    \cup
    {CallTarget(DD, ItemCtx(DD, ctx, n[4], ops[i]), n[4], AsCall(ops[i])) :
        i \in {j \in 1..Len(ops) : ops[j][1] = "icall" /\ ItemCtx(DD, ctx, n[4], ops[j]) # Fail
                  /\ CallErr(DD, ItemCtx(DD, ctx, n[4], ops[j]), n[4], AsCall(ops[j])) = 0}}
RECURSIVE MayCallStar(_, _, _)
MayCallStar(DD, front, seen) ==
    LET nxt == UNION {MayCall(DD, m) : m \in front} \ seen IN
    IF nxt = {} THEN seen ELSE MayCallStar(DD, nxt, seen \cup nxt)

\* KF:C15.comprehension-after-nested-scope -- the package raises NameError (the oracle and
\* the live model say otherwise) and the element evaluates, directly or through its callees, a formula in which a
\* global name stands inside a list/set/dict comprehension that follows a nested function or
\* lambda (Python >= 3.12: should_replace, transformer.py:190-196, must look the name up in
\* the symbol table of the ENCLOSING scope; it used to step back to the previous table)
KFCompScope(DD, n, v, exp, live) ==
    /\ v # exp /\ v = ErrName /\ live = exp
    /\ \E m \in MayCallStar(DD, {n}, {n}) : HasSyn(DD, m, "compscope")

\* KF:C15.parenthesised-global-name -- the package does not compile (SyntaxError) and some
\* formula writes a global name in parentheses (leave_Name, transformer.py:280-296, used to
\* emit `self.(name)`)
KFParen(exported, imported, errkind) ==
    /\ exported /\ ~imported /\ errkind = "SyntaxError"
    /\ \E i \in 1..Len(Syn) : Syn[i][3] = "paren"

EqOracleLabel(DD, n, v, exp, live) ==
    IF PackageEqOracle(v, exp) THEN {}
    ELSE IF KFCompScope(DD, n, v, exp, live) THEN {"KF:C15.comprehension-after-nested-scope"}
    ELSE {"C15.PackageEqOracle"}

QueryLabels(DD, e) ==
    IF ~Denotes(DD, e) THEN {"MACH.NoSuchElement"}
    ELSE
    LET n   == NodeOfQ(DD, e)
        exp == Den(DD, n) IN
      (IF PackageEqOracle(e.pkg, exp)
             \/ ~PrintT(<<"INFO", Tag, "element", n, "package", e.pkg, "oracle", exp, "live", e.live>>)
       THEN {} ELSE EqOracleLabel(DD, n, e.pkg, exp, e.live))
      \cup Lbl(LiveEqOracle(e.live, exp)
          \/ ~PrintT(<<"INFO", Tag, "element", n, "live", e.live, "oracle", exp>>),
          "MACH.LiveDiffersFromOracle")
      \cup Lbl(PackageStable(e.pkg, e.pkg2), "C15.PackageStable")
      \cup (IF e.hasf
            THEN Lbl(CachedUncachedAgree(e.pkg, e.pkgf)
                     \/ ~PrintT(<<"INFO", Tag, "element", n, "package", e.pkg, "flipped", e.pkgf>>),
                     "C15.CachedUncachedAgree")
                 \cup EqOracleLabel(DD, n, e.pkgf, exp, e.live)
                 \cup Lbl(PackageStable(e.pkgf, e.pkgf2), "C15.PackageStable")
            ELSE {})

\* a model of the supported subset is accepted by export, the package imports, and importing
\* and querying it loads no module of modelx
ExportLabels(e) ==
    Lbl(e.flagsok, "MACH.FlagsNotAsDefined")
    \cup Lbl(e.exported /\ e.fexported, "C15.ExportAccepts")
    \cup (IF (e.exported => e.imported) /\ ((e.hasf /\ e.fexported) => e.fimported) THEN {}
          ELSE IF KFParen(e.exported, e.imported, e.errkind)
                  \/ (e.hasf /\ KFParen(e.fexported, e.fimported, e.errkind))
               THEN {"KF:C15.parenthesised-global-name"}
               ELSE {"C15.PackageImports"})
    \cup Lbl(e.nomodelx, "C15.SelfContained")

EventLabels(DD, e) ==
    IF e.op = "export" THEN ExportLabels(e)
    ELSE IF e.op = "query" THEN QueryLabels(DD, e)
    ELSE {"MACH.UnknownEvent"}

-----------------------------------------------------------------------------
XInit ==
    /\ tid \in 1..Len(Traces)
    /\ l = 1
    /\ D = DefsOf(Traces[tid].hdr.init)
    /\ viol = {}
    /\ TLCSet(tid, <<0, {}>>)

XNext ==
    /\ l <= NEv
    /\ LET new   == EventLabels(D, Ev)
           known == {v[1] : v \in viol} IN
       viol' = viol \cup {<<x, l>> : x \in new \ known}
    /\ l' = l + 1
    /\ UNCHANGED <<tid, D>>

XSpec == XInit /\ [][XNext]_xvars

Progress == IF l - 1 >= TLCGet(tid)[1] THEN TLCSet(tid, <<l - 1, viol>>) ELSE TRUE

Verdicts ==
    \A t \in 1..Len(Traces) :
        PrintT(<<"VERDICT", t, TLCGet(t)[1], Len(Traces[t].ev), TLCGet(t)[2]>>)
=============================================================================
