--------------------------- MODULE MxExportTrace ---------------------------
(***************************************************************************)
(* C15 "An exported package computes the same values as the model".        *)
(*                                                                         *)
(* Translation validation: the source program is the definitions record D  *)
(* (MxSem), its meaning is the oracle Den(D, element); the translation is  *)
(* the self-contained package written by model.export()                    *)
(* (modelx/export/exporter.py:63-111), imported and queried in a process   *)
(* in which modelx cannot be imported.  A recorded trace is                *)
(*    [hdr |-> [init |-> <definitions>, ...],                              *)
(*     ev  |-> << export event, query event, query event, ... >>]          *)
(*  export event: [op |-> "export", exported, imported, nomodelx, hasf,    *)
(*                 fexported, fimported, flagsok]                          *)
(*  query event : [op |-> "query", c |-> <<path, steps, cells>>, args,     *)
(*                 live, pkg, pkg2, hasf, pkgf, pkgf2]                     *)
(*     steps = as the caller wrote them (ItemSpace arguments as given);    *)
(*     live  = value in the live model            (World, harness/world.py)*)
(*     pkg   = value returned by the package, first query                  *)
(*             (cache methods: exporter.py:341-360; ItemSpace __call__:    *)
(*              exporter.py:362-389; formulas rewritten by                 *)
(*              transformer.py:137-300; references: exporter.py:207-272)   *)
(*     pkg2  = the same query again (served by the package's cache)        *)
(*     pkgf / pkgf2 = the same from the package exported from the same     *)
(*             program with ALL cached flags flipped                       *)
(*     values are integers; None and errors use the codes of MxSem.        *)
(* One TLA+ step consumes one event; predicates never disable a step, they *)
(* add a label to `viol`.                                                  *)
(***************************************************************************)
EXTENDS MxProps, Json, IOUtils, TLCExt

Traces == JsonDeserialize(IOEnv.TRACE_FILE)

VARIABLES tid,     \* which trace of the batch
          l,       \* next event to consume
          D,       \* the definitions (never change: no edits after export)
          viol     \* set of <<label, event index>>
xvars == <<tid, l, D, viol>>

Tr   == Traces[tid]
NEv  == Len(Tr.ev)
Ev   == Tr.ev[l]
Tag  == <<tid, l>>

-----------------------------------------------------------------------------
(* From the element as the caller spelled it to the element of MxSem:      *)
(* arguments of ItemSpaces and of the cells are bound to the parameters    *)
(* (defaults applied) -- C01's "every spelling denotes the same element".  *)

RECURSIVE StepsBindable(_, _, _, _)
StepsBindable(DD, p, steps, acc) ==
    IF Len(steps) = 0 THEN TRUE
    ELSE LET st == steps[1] IN
         IF st[1] = "i"
         THEN LET b == BaseOf(DD, p, acc) IN
              /\ b \in DD.sp /\ b \in DOMAIN DD.pf
              /\ BindOK(DD.flib[DD.pf[b]].ps, st[3])
              /\ StepsBindable(DD, p, Tail(steps),
                     Append(acc, <<"i", "", Bind(DD.flib[DD.pf[b]].ps, st[3])>>))
         ELSE StepsBindable(DD, p, Tail(steps), Append(acc, <<"c", st[2], <<>>>>))

RECURSIVE BindSteps(_, _, _, _)
BindSteps(DD, p, steps, acc) ==
    IF Len(steps) = 0 THEN acc
    ELSE LET st == steps[1] IN
         IF st[1] = "i"
         THEN BindSteps(DD, p, Tail(steps),
                  Append(acc, <<"i", "", Bind(DD.flib[DD.pf[BaseOf(DD, p, acc)]].ps, st[3])>>))
         ELSE BindSteps(DD, p, Tail(steps), Append(acc, <<"c", st[2], <<>>>>))

\* the event denotes an element of the program
Denotes(DD, e) ==
    /\ StepsBindable(DD, e.c[1], e.c[2], <<>>)
    /\ LET st == BindSteps(DD, e.c[1], e.c[2], <<>>) IN
       /\ NodeExists(DD, <<e.c[1], st, e.c[3], <<>>>>)
       /\ BindOK(FRec(DD, CellRecOf(DD, <<e.c[1], st>>, e.c[3])).ps, e.args)

NodeOfQ(DD, e) ==
    LET st == BindSteps(DD, e.c[1], e.c[2], <<>>) IN
    <<e.c[1], st, e.c[3], Bind(FRec(DD, CellRecOf(DD, <<e.c[1], st>>, e.c[3])).ps, e.args)>>

-----------------------------------------------------------------------------
(* The property predicates.                                                *)

\* the package returns what the program means
PackageEqOracle(v, exp)       == v = exp
\* ... and so does the live model (otherwise the finding is about the model or the oracle,
\* not about export: reported as machinery label, never as C15)
LiveEqOracle(v, exp)          == v = exp
\* asking again (cache hit in the package) gives the same answer
PackageStable(v1, v2)         == v1 = v2
\* the package of the program with all cached flags flipped returns the same
CachedUncachedAgree(v, vf)    == v = vf

QueryLabels(DD, e) ==
    IF ~Denotes(DD, e) THEN {"MACH.NoSuchElement"}
    ELSE
    LET n   == NodeOfQ(DD, e)
        exp == Den(DD, n) IN
      Lbl(PackageEqOracle(e.pkg, exp)
          \/ ~PrintT(<<"INFO", Tag, "element", n, "package", e.pkg, "oracle", exp, "live", e.live>>),
          "C15.PackageEqOracle")
      \cup Lbl(LiveEqOracle(e.live, exp)
          \/ ~PrintT(<<"INFO", Tag, "element", n, "live", e.live, "oracle", exp>>),
          "MACH.LiveDiffersFromOracle")
      \cup Lbl(PackageStable(e.pkg, e.pkg2), "C15.PackageStable")
      \cup (IF e.hasf
            THEN Lbl(CachedUncachedAgree(e.pkg, e.pkgf)
                     \/ ~PrintT(<<"INFO", Tag, "element", n, "package", e.pkg, "flipped", e.pkgf>>),
                     "C15.CachedUncachedAgree")
                 \cup Lbl(PackageEqOracle(e.pkgf, exp), "C15.PackageEqOracle")
                 \cup Lbl(PackageStable(e.pkgf, e.pkgf2), "C15.PackageStable")
            ELSE {})

\* a model of the supported subset is accepted by export, the package imports, and importing
\* and querying it loads no module of modelx
ExportLabels(e) ==
    Lbl(e.flagsok, "MACH.FlagsNotAsDefined")
    \cup Lbl(e.exported /\ e.fexported, "C15.ExportAccepts")
    \cup Lbl((e.exported => e.imported) /\ ((e.hasf /\ e.fexported) => e.fimported),
             "C15.PackageImports")
    \cup Lbl(e.nomodelx, "C15.SelfContained")

EventLabels(DD, e) ==
    IF e.op = "export" THEN ExportLabels(e)
    ELSE IF e.op = "query" THEN QueryLabels(DD, e)
    ELSE {"MACH.UnknownEvent"}

-----------------------------------------------------------------------------
XInit ==
    /\ tid \in 1..Len(Traces)
    /\ l = 1
    /\ D = DefsOf(Traces[tid].hdr.init)
    /\ viol = {}
    /\ TLCSet(tid, <<0, {}>>)

XNext ==
    /\ l <= NEv
    /\ LET new   == EventLabels(D, Ev)
           known == {v[1] : v \in viol} IN
       viol' = viol \cup {<<x, l>> : x \in new \ known}
    /\ l' = l + 1
    /\ UNCHANGED <<tid, D>>

XSpec == XInit /\ [][XNext]_xvars

Progress == IF l - 1 >= TLCGet(tid)[1] THEN TLCSet(tid, <<l - 1, viol>>) ELSE TRUE

Verdicts ==
    \A t \in 1..Len(Traces) :
        PrintT(<<"VERDICT", t, TLCGet(t)[1], Len(Traces[t].ev), TLCGet(t)[2]>>)
=============================================================================
