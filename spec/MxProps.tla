------------------------------ MODULE MxProps ------------------------------
(***************************************************************************)
(* Property layer, part 2: the properties C01..C20 as predicates over an    *)
(* observed (pre state, operation, post state).  Every operator returns a  *)
(* set of labels "Cxx.Name" of the predicates that are FALSE (empty set =  *)
(* everything holds).  The same operators judge                            *)
(*   - recorded executions of the real library (MxTrace), and              *)
(*   - every state of the algorithm-layer models (MxEval, ...).            *)
(* `tag` is only used to identify diagnostics printed for a failure.       *)
(***************************************************************************)
EXTENDS MxSem

Lbl(b, s) == IF b THEN {} ELSE {s}

\* definitions record from its JSON form (see harness/world.py)
DefsOf(j) ==
    [ sp    |-> Range(j.sp),
      bases |-> PairsToFun(j.bases),
      cells |-> PairsToFun(j.cells),
      refs  |-> PairsToFun(j.refs),
      grefs |-> j.grefs,
      pf    |-> PairsToFun(j.pf),
      inp   |-> PairsToFun(j.inp),
      an    |-> j.an,
      span  |-> PairsToFun(j.span),
      flib  |-> j.flib ]


-----------------------------------------------------------------------------
(* Formula-execution log: a sequence of                                    *)
(*   <<"enter", node>> | <<"exit", node, value>> | <<"unwind", node, exctype, line>> *)

Enters(fx)     == {fx[i][2] : i \in {j \in 1..Len(fx) : fx[j][1] = "enter"}}
ExitIdx(fx)    == {j \in 1..Len(fx) : fx[j][1] = "exit"}
UnwindIdx(fx)  == {j \in 1..Len(fx) : fx[j][1] = "unwind"}
\* nodes whose formula was left by an exception (they must hold no value)
Unwound(fx)    == {fx[j][2] : j \in UnwindIdx(fx)}
\* number of trailing unwind records = length of the chain the escaping
\* exception travelled through
RECURSIVE TrailUnw(_, _)
TrailUnw(fx, j) == IF j >= 1 /\ fx[j][1] = "unwind" THEN 1 + TrailUnw(fx, j - 1) ELSE 0
RECURSIVE DepthAt(_, _)
DepthAt(fx, j) == IF j = 0 THEN 0
                  ELSE DepthAt(fx, j - 1) + (IF fx[j][1] = "enter" THEN 1 ELSE -1)
MaxDepth(fx)   == IF Len(fx) = 0 THEN 0
                  ELSE LET S == {DepthAt(fx, j) : j \in 1..Len(fx)} IN
                       CHOOSE x \in S : \A y \in S : y <= x
\* expected traceback, outermost first: the frames the escaping exception
\* unwound, each with the line it was at
ChainOf(fx) ==
    LET k == TrailUnw(fx, Len(fx))
        n == Len(fx) IN
    [i \in 1..k |-> <<fx[n - i + 1][2], fx[n - i + 1][4]>>]

\* index of the "enter" record matching the exit/unwind record at j
RECURSIVE MatchEnter(_, _, _)
MatchEnter(fx, j, bal) ==      \* start with MatchEnter(fx, j - 1, 0)
    IF j = 0 THEN 0
    ELSE IF fx[j][1] = "enter"
         THEN IF bal = 0 THEN j ELSE MatchEnter(fx, j - 1, bal - 1)
         ELSE MatchEnter(fx, j - 1, bal + 1)

\* elements whose formula completed although a formula it called failed
\* (its handler swallowed the failure): KNOWN FINDING KF1 -- the failed callee
\* leaves no trace in the dependency graph, so such a value is not discarded
\* when the callee is repaired.  Values computed from them inherit the taint.
Swallowers(DD, fx) ==
    \* x completed normally although some formula inside its span failed: the
    \* failure was swallowed by x or by an element whose value x consumed
    {fx[j][2] : j \in {x \in ExitIdx(fx) :
        LET i == MatchEnter(fx, x - 1, 0) IN
        \E y \in (i + 1)..(x - 1) :
            \/ fx[y][1] = "unwind"
            \/ (fx[y][1] = "exit" /\ fx[y][3] = NoneV
                /\ ~AllowNone(DD, <<fx[y][2][1], fx[y][2][2]>>, fx[y][2][3]))}}
    \* ... or x's own handler swallowed a failure of x's own formula (a name that could not
    \* be resolved, a raise): nothing links the value to what failed either
    \cup {fx[j][2] : j \in {x \in ExitIdx(fx) :
            LET m == fx[x][2] IN
            /\ NodeExists(DD, m)
            /\ FRec(DD, CellRecOf(DD, <<m[1], m[2]>>, m[3])).catch
            /\ Len(m[4]) = Len(FRec(DD, CellRecOf(DD, <<m[1], m[2]>>, m[3])).ps)
            /\ IsErr(RawDen(DD, m))}}

RECURSIVE TaintClosure(_, _, _)
TaintClosure(DD, held, t) ==
    IF t = {} THEN {} ELSE
    LET more == {n \in held \ t : ~IsInput(DD, n) /\ NodeExists(DD, n)
                                   /\ CalledThrough(DD, n) \cap t # {}} IN
    IF more = {} THEN t ELSE TaintClosure(DD, held, t \cup more)

-----------------------------------------------------------------------------
RECURSIVE ReachFrom(_, _, _)
ReachFrom(E, front, seen) ==
    LET nxt == {x[2] : x \in {y \in E : y[1] \in front}} \ seen IN
    IF nxt = {} THEN seen ELSE ReachFrom(E, nxt, seen \cup nxt)
GraphAcyclic(N, E) == \A n \in N : n \notin ReachFrom(E, {n}, {})

-----------------------------------------------------------------------------
\* Quiescent state after any operation.  D2 = definitions after it, dl = held
\* values, il = elements flagged as input, (tgn, tge) = dependency graph,
\* idle = executor stacks empty and nothing marked executing, sane = the
\* library's self checks passed, det = the surviving inputs are fixed by
\* the properties for this kind of operation.
StateLabels(tag, D2, dl, il, tgn, tge, idle, sane, det, taint) ==
    LET held == DOMAIN dl
        alive == {n \in held : NodeExists(D2, n)}
        calc  == alive \ il
        cellnodes == {n \in tgn : n[3] # "" /\ n[4] # ObjKey}
        stale == {n \in calc : dl[n] # Den(D2, n)}
    IN
      Lbl(held = alive /\ \A n \in cellnodes : NodeExists(D2, n), "C13.NoResidue")
      \cup Lbl(\A n \in stale \ taint :
                  ~PrintT(<<"INFO", tag, "held", n, "value", dl[n], "expected", Den(D2, n)>>),
               "C02.NoStale")
      \cup Lbl(stale \cap taint = {}, "KF:C02.caught-failure")
      \cup Lbl(\A n \in alive : IsCachedNode(D2, n), "C09.UncachedHoldNothing")
      \cup Lbl(det => il = DOMAIN D2.inp, "C06.InputsPersist")
      \cup Lbl(\A n \in il \cap DOMAIN D2.inp : n \in held /\ dl[n] = D2.inp[n], "C06.InputWins")
      \cup Lbl(cellnodes = held, "C08.GraphEqCache")
      \cup Lbl(GraphAcyclic(tgn, tge), "C08.Acyclic")
      \cup Lbl(\A x \in tge : x[1] \in tgn /\ x[2] \in tgn, "C08.EdgesInNodes")
      \cup Lbl(idle, "C05.ExecutorIdle")
      \cup Lbl(sane, "C12.SanityChecks")

\* dependency listings: rows = set of <<node, preds (set), succs (set)>> as
\* reported by preds()/succs() for every element holding a value
DepsLabels(tag, D2, il, allrows, taint) ==
    LET rows == {r \in allrows : NodeExists(D2, r[1]) /\ r[1] \notin il /\ r[1] \notin taint} IN
      Lbl(\A r \in rows : (r[2] = GraphPreds(D2, r[1])
              \/ ~PrintT(<<"INFO", tag, "preds", r[1], "reported", r[2], "expected", GraphPreds(D2, r[1])>>)),
          "C08.PredsExact")
      \cup Lbl(\A r \in rows : \A q \in rows :
                 (r[1] \in q[2]) <=> (q[1] \in r[3]), "C08.SuccsInverse")

\* A top-level call of element n under definitions DD returned res (a value
\* or an error code); pre = held values before, dl = after, fx = execution log.
\* maxdepth = 0 when no recursion limit was configured for the run.
CallLabels(tag, DD, n, res, pre, dl, fx, maxdepth, taint) ==
    LET exp  == Den(DD, n)
        cachedT == IsCachedNode(DD, n)
        \* a DeepReferenceError is history dependent by design: it is legitimate
        \* exactly when the chain of executing formulas reached the limit
        deepOK == maxdepth > 0 /\ MaxDepth(fx) >= maxdepth + 1
        \* ... also when a handler inside the evaluation caught that DeepReferenceError
        deepCaught == \E j \in UnwindIdx(fx) : fx[j][3] = "DeepReferenceError"
        \* elements the execution log names that do not exist under DD (a changed
        \* tree may execute members the definitions no longer give the space)
        ghosts == {m \in Enters(fx) : ~NodeExists(DD, m)}
        Ent    == Enters(fx) \ ghosts
    IN
      Lbl(ghosts = {} \/ ~PrintT(<<"INFO", tag, "executed elements that do not exist", ghosts>>),
          "C01.Transparent")
      \cup
      Lbl(IF res = ErrDeep \/ deepCaught THEN deepOK
          ELSE (res = exp \/ n \in taint
                \/ ~PrintT(<<"INFO", tag, "call", n, "returned", res, "expected", exp>>)),
          "C01.Transparent")
      \cup Lbl(res = ErrDeep \/ deepCaught \/ res = exp \/ n \notin taint, "KF:C01.caught-failure")
      \* get_error() is the original exception: when the evaluation fails (by the oracle
      \* or in fact), the error reported is the one the oracle's evaluation ends with
      \cup Lbl((IsErr(exp) \/ IsErr(res)) => (res = exp \/ res = ErrDeep \/ deepCaught \/ n \in taint
                    \/ ~PrintT(<<"INFO", tag, "error of", n, "reported", res, "expected", exp>>)),
               "C17.ErrorIdentity")
      \cup Lbl(\A m \in Ent : IsCachedNode(DD, m) => m \notin DOMAIN pre, "C01.ComputedOnce")
      \cup Lbl(\A m \in Ent : IsCachedNode(DD, m) =>
                  Cardinality({j \in ExitIdx(fx) : fx[j][2] = m /\ fx[j][3] # NoneV}) <= 1, "C01.ComputedOnceInCall")
      \cup Lbl((cachedT /\ ~IsErr(res)) => (n \in DOMAIN dl /\ dl[n] = res), "C01.SameElement")
      \cup Lbl((~cachedT) => n \in Enters(fx), "C09.UncachedReexecuted")
      \cup Lbl(IsErr(res) => (Unwound(fx) \cap DOMAIN dl = {}), "C05.FailedHoldNothing")
      \cup Lbl(\A j \in ExitIdx(fx) :
                  LET m == fx[j][2] IN
                  (m \notin ghosts /\ IsCachedNode(DD, m) /\ m \notin Unwound(fx) /\ fx[j][3] # NoneV)
                      => (m \in DOMAIN dl /\ dl[m] = fx[j][3]), "C05.CompletedKept")
      \* the configured recursion limit is enforced: no chain of executing formulas is
      \* longer than the one at which DeepReferenceError is raised
      \cup Lbl(maxdepth = 0 \/ MaxDepth(fx) <= maxdepth + 1, "C05.DepthLimitEnforced")
      \cup Lbl(DOMAIN pre \subseteq DOMAIN dl, "C06.CallDiscardsNothing")
      \cup Lbl(\A m \in DOMAIN pre \cap DOMAIN dl : dl[m] = pre[m], "C06.CallChangesNothing")

\* tb = what get_traceback() listed: sequence of <<node, line>>
\* chain = the formula frames the interpreter's own traceback of the escaping
\* exception lists (logged as `tbx`; equal to ChainOf(fx) unless a handler ran other
\* evaluations before re-raising, which puts foreign unwind records in between)
TracebackLabels(tag, res, chain, tb) ==
    LET
        \* NoneReturnedError is raised after the formula returned: the
        \* element that returned None closes the listing, without a line
        want == IF res = ErrNone /\ Len(tb) > 0 THEN Len(chain) + 1 ELSE Len(chain)
    IN
      Lbl(Len(tb) = want \/ ~PrintT(<<"INFO", tag, "traceback", tb, "chain", chain>>), "C17.TracebackLength")
      \cup Lbl(\A i \in 1..Len(chain) : i <= Len(tb) => tb[i][1] = chain[i][1], "C17.TracebackNodes")
      \cup Lbl(\A i \in 1..Len(chain) : i <= Len(tb) => tb[i][2] = chain[i][2], "C17.TracebackLines")

\* set_value / clear_at of element n (accepted): exactly the dependents go
ValueEditLabels(tag, DD, D2, isSet, n, pre, dl, fx, recalc, taint) ==
    LET \* (on a broken tree values may be held by objects whose definition is gone: they are
        \*  reported by C13.NoResidue / C07 where they appear, and take no part here)
        ghosts == {x \in DOMAIN pre \cup DOMAIN dl : ~NodeExists(DD, x)}
        P == DOMAIN pre \ ghosts
        \* (clearing an element that holds nothing -- never computed, or of an uncached
        \*  cells -- changes nothing)
        gone == IF ~isSet /\ n \notin P THEN {}
                ELSE {x \in P : x # n /\ ~IsInput(DD, x) /\ n \in DepsStar(DD, x)}
        \* what tainted values depended on when they were computed is not
        \* recoverable from the current definitions: they may stay or go
        free == taint \cup ghosts
        want == IF isSet THEN (P \ gone) \cup {n} ELSE P \ (gone \cup {n})
    IN
      IF recalc /\ isSet
      THEN Lbl(want \subseteq DOMAIN dl /\
               \A x \in gone : (~IsErr(Den(D2, x))) => x \in DOMAIN dl, "C06.RecalcEqLazy")
           \cup Lbl(\A x \in (P \ (gone \cup {n})) \cap DOMAIN dl : dl[x] = pre[x], "C06.SurvivorsUnchanged")
      ELSE Lbl(DOMAIN dl \ free = want \ free \/ ~PrintT(<<"INFO", tag, "discard", n, "missing", want \ DOMAIN dl, "extra", DOMAIN dl \ want>>), "C06.ExactDiscard")
           \cup Lbl(\A x \in (P \ (gone \cup {n})) \cap DOMAIN dl : dl[x] = pre[x], "C06.SurvivorsUnchanged")
           \cup Lbl(Len(fx) = 0, "C06.NotRecomputed")

\* a rejected operation: definitions as reported by the library and held
\* values are what they were
RejectedLabels(tag, defsBefore, defsAfter, pre, dl) ==
    Lbl(defsAfter = defsBefore, "C11.RejectedUnchanged")
    \cup Lbl(DOMAIN dl = DOMAIN pre /\ \A x \in DOMAIN pre : dl[x] = pre[x], "C11.RejectedKeepsValues")
-----------------------------------------------------------------------------
(* The definitions as the library reports them (public API projection pd)  *)
(* against the definitions D2 obtained from the edits alone:               *)
(* C03 derived members = derivation from scratch along C3; C10 bindings;   *)
(* C11 well-formedness; C12 names.                                         *)

Visible(D2, s) ==
    ENames(D2, s, "cells") \cup ENames(D2, s, "refs") \cup {"_self", "_space", "_model"}
    \cup DOMAIN D2.grefs \cup {"__builtins__"} \cup ChildNames(D2, s)

\* C10, exactly the cases the property states: a derived reference in relative
\* or auto mode whose value is the defining space or one of its cells is bound
\* to the deriving space / its corresponding cells; absolute stays
C10Expected(D2, s, n) ==
    LET b == Definer(D2, s, "refs", n)
        r == D2.refs[b][n]
        v == r.v IN
    IF b = s \/ v[1] \notin {"sp", "ce"} THEN <<TRUE, v>>
    ELSE IF r.mode = "absolute" THEN <<TRUE, v>>
    ELSE IF v[2] = b /\ v[3] = <<>>
         THEN <<TRUE, IF v[1] = "ce" THEN CeObj(s, <<>>, v[4]) ELSE SpObj(s, <<>>)>>
    ELSE <<FALSE, v>>                 \* not fixed by the property

DefsLabels(tag, D2, pd) ==
    LET psp    == Range(pd.sp)
        pcells == PairsToFun(pd.cells)
        prefs  == PairsToFun(pd.refs)
        pbases == PairsToFun(pd.bases)
        pdb    == PairsToFun(pd.dbases)
        pdir   == PairsToFun(pd.dir)
        both   == psp \cap D2.sp
        PD     == [D2 EXCEPT !.sp = psp, !.bases = pdb]
    IN
      Lbl(psp = D2.sp \/ ~PrintT(<<"INFO", tag, "spaces", psp, "expected", D2.sp>>), "C03.SpaceTree")
      \cup Lbl(\A s \in both : DOMAIN pcells[s] = ENames(D2, s, "cells")
                  \/ ~PrintT(<<"INFO", tag, "cells of", s, DOMAIN pcells[s], "expected", ENames(D2, s, "cells")>>),
               "C03.DerivedCellsNames")
      \cup Lbl(\A s \in both : \A c \in DOMAIN pcells[s] \cap ENames(D2, s, "cells") :
                  LET m == EMember(D2, s, "cells", c)  q == pcells[s][c] IN
                  (q.f = m.f /\ q.cached = m.cached /\ q.derived = IsDerived(D2, s, "cells", c))
                  \/ ~PrintT(<<"INFO", tag, "cells", s, c, q, "expected", m, IsDerived(D2, s, "cells", c)>>),
               "C03.DerivedCellsDefs")
      \cup Lbl(\A s \in both : DOMAIN prefs[s] = ENames(D2, s, "refs")
                  \/ ~PrintT(<<"INFO", tag, "refs of", s, DOMAIN prefs[s], "expected", ENames(D2, s, "refs")>>),
               "C03.DerivedRefsNames")
      \cup Lbl(\A s \in both : \A n \in DOMAIN prefs[s] \cap ENames(D2, s, "refs") :
                  LET m == EMember(D2, s, "refs", n)  q == prefs[s][n] IN
                  (q.mode = m.mode /\ q.derived = IsDerived(D2, s, "refs", n)
                   /\ (m.v[1] \in {"int", "lit"} => q.v = m.v))
                  \/ ~PrintT(<<"INFO", tag, "ref", s, n, q, "expected", m>>),
               "C03.DerivedRefsDefs")
      \cup Lbl(\A s \in both : \A n \in DOMAIN prefs[s] \cap ENames(D2, s, "refs") :
                  LET x == C10Expected(D2, s, n) IN
                  (x[1] => prefs[s][n].v = x[2])
                  \/ ~PrintT(<<"INFO", tag, "binding", s, n, prefs[s][n].v, "expected", x[2]>>),
               "C10.ModeBinding")
      \cup Lbl(\A s \in both : \A n \in DOMAIN prefs[s] \cap ENames(D2, s, "refs") :
                  prefs[s][n].v = ERefVal(D2, s, n)
                  \/ ~PrintT(<<"INFO", tag, "refvalue", s, n, prefs[s][n].v, "model", ERefVal(D2, s, n)>>),
               "DRIFT.RefValue")
      \cup Lbl(\A s \in both : (C3(D2, s) # Fail) =>
                  (pbases[s] = Tail(C3(D2, s))
                   \/ ~PrintT(<<"INFO", tag, "bases", s, pbases[s], "expected", Tail(C3(D2, s))>>)),
               "C03.BasesIsC3")
      \cup Lbl(\A s \in both : pdb[s] = D2.bases[s], "C03.DirectBases")
      \cup Lbl(pd.grefs = [n \in DOMAIN D2.grefs |-> [v |-> D2.grefs[n].v]], "C12.ModelRefs")
      \cup Lbl(\A s \in both : Range(pdir[s]) = Visible(D2, s)
                  \/ ~PrintT(<<"INFO", tag, "dir", s, Range(pdir[s]), "expected", Visible(D2, s)>>),
               "C12.VisibleEqContainers")
      \cup Lbl(\A s \in psp :
                  LET cn == DOMAIN pcells[s]  rn == DOMAIN prefs[s]
                      sn == {Last(t) : t \in {u \in psp : Len(u) = Len(s) + 1 /\ SubSeq(u, 1, Len(s)) = s}} IN
                  cn \cap rn = {} /\ cn \cap sn = {} /\ rn \cap sn = {},
               "C12.NamesUnique")
      \cup Lbl({<<Last(t)>> : t \in {u \in psp : Len(u) = 1}} \cap {<<n>> : n \in DOMAIN pd.grefs} = {},
               "C12.ModelNamesUnique")
      \cup Lbl(WellFormed(PD), "C11.WellFormed")
      \cup Lbl(Len(pd.badnames) = 0, "C11.ValidNames")

\* handles (C13): rows <<id, kind, state, path, steps, name>>; a handle is dead,
\* or it is the current object at the place it reports and that place exists
HandleLabels(tag, D2, rows) ==
    LET stat == {h \in rows : Len(h[5]) = 0 \/ h[3] = "dead"}
        dyn  == rows \ stat
        Denotes(h) == IF h[2] = "space" THEN CtxExists(D2, <<h[4], h[5]>>)
                      ELSE NodeExists(D2, <<h[4], h[5], h[6], <<>>>>) IN
    Lbl(\A h \in stat : h[3] \in {"dead", "current"}
            \/ ~PrintT(<<"INFO", tag, "handle", h>>), "C13.DeletedHandlesDead")
    \cup Lbl(\A h \in stat : h[3] = "current" => Denotes(h), "C13.LiveHandlesDenote")
    \* C07: a handle to (something inside) an ItemSpace obtained earlier is dead or denotes
    \* the instance that currently exists for its arguments
    \cup Lbl(\A h \in dyn : (h[3] = "current" /\ Denotes(h))
            \/ ~PrintT(<<"INFO", tag, "dynamic handle", h>>), "C07.HandleDeadOrCurrent")

\* items = rows <<path, steps, handle id>> of every ItemSpace that exists; a get_item
\* event returns the instance for the bound arguments (C07: equal binding, same instance)
ItemLabels(tag, DD, D2, e, items) ==
    Lbl(\A a \in items : \A b \in items : (a[1] = b[1] /\ a[2] = b[2]) => a[3] = b[3],
        "C07.SameArgsSameInstance")
    \cup Lbl(\A a \in items : CtxExists(D2, <<a[1], a[2]>>), "C07.InstanceOfExistingBase")
    \cup (IF e.op = "get_item" /\ e.res = "ok"
          THEN LET b == BaseOf(DD, e.s, e.st)
                   key == Bind(DD.flib[DD.pf[b]].ps, e.key)
                   want == <<e.s, Append(e.st, <<"i", "", key>>)>> IN
               Lbl(\E a \in items : a[1] = want[1] /\ a[2] = want[2] /\ a[3] = e.hid,
                   "C07.SameArgsSameInstance")
          ELSE {})
-----------------------------------------------------------------------------
(* C04: a write_read event carries, for each container format, the          *)
(* projection of the model that was read back (rd.defs, with formula source *)
(* text, docs, parameter formulas), its inputs, and the value every queried *)
(* element returned in it; fdefs/minputs are the same projections of the    *)
(* model that was written.                                                 *)
\* KNOWN FINDING KF2: the reference mode of a reference whose value is not a modelx
\* object (the file format writes it as `name = <literal>`) is not saved: it reads
\* back as "auto".  Projections are compared modulo exactly that.
NormValueModes(pd) ==
    [pd EXCEPT !.refs = [i \in DOMAIN @ |->
        <<@[i][1], [n \in DOMAIN @[i][2] |->
            IF @[i][2][n].v[1] \in {"int", "lit", "dead"} THEN [@[i][2][n] EXCEPT !.mode = "auto"]
            ELSE @[i][2][n]]>>]]

WriteReadLabels(tag, D2, e, pdefsBefore, dataBefore, dl) ==
    LET reads == Range(e.reads) IN
      Lbl(\A rd \in reads : rd.readable, "C04.ReadableIfWritten")
      \cup Lbl(\A rd \in {x \in reads : x.readable} :
                 NormValueModes(rd.defs) = NormValueModes(e.fdefs)
                 \/ ~PrintT(<<"INFO", tag, "roundtrip", rd.fmt, "differs">>), "C04.DefsRoundTrip")
      \cup Lbl(\A rd \in {x \in reads : x.readable} :
                 NormValueModes(rd.defs) = NormValueModes(e.fdefs) => rd.defs = e.fdefs,
               "KF:C04.refmode-of-value-reference")
      \* KNOWN FINDING KF3: values assigned to a DERIVED cells are not written (derived
      \* cells are not part of the saved text at all); compared modulo exactly those
      \cup Lbl(\A rd \in {x \in reads : x.readable} :
                 LET Own(S) == {q \in S : ~(Len(q[1][2]) = 0 /\ NodeExists(D2, q[1])
                                             /\ IsDerived(D2, q[1][1], "cells", q[1][3]))} IN
                 Own(Range(rd.inputs)) = Own(Range(e.minputs)), "C04.InputsRoundTrip")
      \cup Lbl(\A rd \in {x \in reads : x.readable} :
                 LET Der(S) == {q \in S : Len(q[1][2]) = 0 /\ NodeExists(D2, q[1])
                                           /\ IsDerived(D2, q[1][1], "cells", q[1][3])} IN
                 Der(Range(rd.inputs)) = Der(Range(e.minputs)), "KF:C04.input-of-derived-cells")
      \* (values are judged under the inputs that were actually read back; whether
      \*  those are the right ones is C04.InputsRoundTrip's business)
      \cup Lbl(\A rd \in {x \in reads : x.readable} :
                 LET Dr == [D2 EXCEPT !.inp = PairsToFun(rd.inputs)] IN
                 \A q \in Range(rd.values) :
                 ((NodeExists(Dr, q[1])
                   /\ Len(q[1][4]) = Len(FRec(Dr, CellRecOf(Dr, <<q[1][1], q[1][2]>>, q[1][3])).ps))
                      => q[2] = Den(Dr, q[1]))
                 \/ ~PrintT(<<"INFO", tag, "read-back value", rd.fmt, q, "expected", Den(Dr, q[1])>>),
               "C04.ValuesRoundTrip")
      \cup Lbl(\A rd \in {x \in reads : x.readable /\ "defs2" \in DOMAIN x} :
                 NormValueModes(rd.defs2) = NormValueModes(e.fdefs)
                 /\ Range(rd.inputs2) = Range(rd.inputs), "C04.ChainRoundTrip")
      \cup Lbl(Range(e.files_dir) = Range(e.files_zip)
               \/ ~PrintT(<<"INFO", tag, "files", Range(e.files_dir) \ Range(e.files_zip),
                            Range(e.files_zip) \ Range(e.files_dir)>>), "C04.ZipEqDir")
      \cup Lbl(e.post.defs = pdefsBefore /\ DOMAIN dl = DOMAIN dataBefore
               /\ \A x \in DOMAIN dl : dl[x] = dataBefore[x], "C04.WriteAltersNothing")
=============================================================================
