CONSTANTS
  MaxOps = 4
  MaxModels = 4
  Dump = FALSE
  BaseNames = {"A", "B", "A_BAK1"}
  BadNames = {"1x"}
  NFiles = 2
  EditKinds = {"defs", "value"}
  Linking = TRUE
  StaleOps = TRUE
INIT Init
NEXT Next
VIEW View
CONSTRAINT Bound
INVARIANT Inv_C19_NamesUniqueAndCurrent
INVARIANT Inv_C19_HandlesFollow
INVARIANT Inv_C19_NoModelDropped
INVARIANT Inv_C19_CloseRemovesExactlyOne
INVARIANT Inv_C19_Isolation
INVARIANT Inv_Algo_NoPanic
CHECK_DEADLOCK FALSE
