CONSTANTS
  MaxOps = 5
  MaxModels = 4
  Dump = FALSE
  BaseNames = {"A", "B", "A_BAK1"}
  BadNames = {"1x"}
INIT Init
NEXT Next
VIEW View
CONSTRAINT Bound
INVARIANT Inv_C19_NamesUniqueAndCurrent
INVARIANT Inv_C19_HandlesFollow
INVARIANT Inv_Algo_NoPanic
PROPERTY Act_C19_NoModelDropped
PROPERTY Act_C19_CloseRemovesExactlyOne
PROPERTY Act_C19_Isolation
CHECK_DEADLOCK FALSE
