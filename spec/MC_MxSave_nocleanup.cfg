CONSTANTS
  MaxSaves = 3
  MaxLoads = 1
  NFiles = 2
  CleanupOnFail = FALSE
  Swallowed = FALSE
  MaxOps = 0
  Dump = FALSE
INIT MCInit
NEXT Next
CONSTRAINT Bound
INVARIANT Inv_C14_LastGoodSafe
INVARIANT Inv_C14_GenerationsOrdered
INVARIANT Inv_C14_GenerationsKept
INVARIANT Inv_C14_NoPartialZip
INVARIANT Inv_C14_SessionUsable
INVARIANT Inv_C14_NoHalfLoadedModel
POSTCONDITION WitPrint
CHECK_DEADLOCK FALSE
