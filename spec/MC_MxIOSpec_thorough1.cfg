\* one model, two names, two csv locations + one module location, space deletion: the COMPLETE reachable state space (histories of any length)
CONSTANTS
  Models = {"M1"}
  BaseInit = {"M1"}
  Names = {"x", "y"}
  CsvLocs = {"p.csv", "q.csv"}
  ModLocs = {"mo.py"}
  PVals = {1, 2}
  MVals = {3}
  OVals = {}
  WithDelSpace = TRUE
  WithChild = FALSE
  OpenFindings = {}
  MaxOps = 99
  Dump = TRUE
VIEW ViewU
INIT Init
NEXT Next
INVARIANT Inv_C18_SpecsEqBoundValues
INVARIANT Inv_C18_NoOrphanSpec
INVARIANT Inv_C18_LocationsUnique
INVARIANT Inv_C18_RejectedLeavesNothing
INVARIANT Inv_C18_SanityChecks
INVARIANT Inv_C18_SavedSpecsRoundTrip
INVARIANT Inv_NoRepairedFinding
CHECK_DEADLOCK FALSE
