\* two models, two names, two locations, two values: all histories of 4 operations
CONSTANTS
  Models = {"M1", "M2"}
  BaseInit = {"M1"}
  Names = {"x", "y"}
  CsvLocs = {"p.csv", "q.csv"}
  ModLocs = {}
  PVals = {1, 2}
  MVals = {}
  OVals = {}
  WithDelSpace = FALSE
  WithChild = FALSE
  OpenFindings = {}
  MaxOps = 4
  Dump = FALSE
VIEW View
INIT Init
NEXT Next
INVARIANT Inv_C18_SpecsEqBoundValues
INVARIANT Inv_C18_NoOrphanSpec
INVARIANT Inv_C18_LocationsUnique
INVARIANT Inv_C18_RejectedLeavesNothing
INVARIANT Inv_C18_SanityChecks
INVARIANT Inv_C18_SavedSpecsRoundTrip
INVARIANT Inv_NoRepairedFinding
CHECK_DEADLOCK FALSE
