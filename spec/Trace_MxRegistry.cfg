CONSTANTS
  MaxOps = 0
  MaxModels = 0
  Dump = FALSE
  BaseNames = {}
  BadNames = {}
  NFiles = 0
  EditKinds = {}
  Linking = FALSE
  StaleOps = TRUE
INIT TInit
NEXT TNext
CONSTRAINT Progress
POSTCONDITION Verdicts
CHECK_DEADLOCK FALSE
