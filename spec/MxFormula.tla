----------------------------- MODULE MxFormula -----------------------------
(***************************************************************************)
(* Algorithm layer for C20: how modelx turns a definition into a Formula   *)
(* and edits it afterwards, as a state machine over the abstract sources   *)
(* of MxFormulaBase.                                                       *)
(*                                                                         *)
(* Initial states = the feature product of layouts (MxFormulaBase part 1), *)
(* or the sample of it selected by SampleMod / VERIF_SEED.                 *)
(* One action per step of the code (formula.py / cells.py line numbers):   *)
(*   GetSource        Formula.__init__ :383-385 (text), _init_from_func    *)
(*                    :389-395 inspect.getsource / extract_lambda_from_func*)
(*                    :330-337 inspect.findsource (objects)                *)
(*   Classify         is_funcdef :139-152 / has_lambda :282-289 /          *)
(*                    is_func_lambda :292, the lambdas of the line :341-351*)
(*   DedentStep       formula.dedent :102-136 called at :402, :411-413     *)
(*   RemoveDecoratorStep   remove_decorator :170-187                       *)
(*   ReplaceFuncNameStep   replace_funcname :190-215                       *)
(*   CompileStep      compile/exec :417-423                                *)
(*   ExtractLambdaStep     extract_lambda_from_source/_func :319-351       *)
(*   ExecLambdaStep   _init_from_lambda :425-440                           *)
(* and, on a captured formula,                                             *)
(*   Recreate         a new cells from formula.source (:397-405)           *)
(*   Rename(n)        cells.py:921-944 on_rename                           *)
(*   SetDoc(k, ii)    cells.py:907-919 set_doc = replace_docstring         *)
(*                    (formula.py:226-279) + set_cells_formula             *)
(*   SetRef(v)        the global name of the function gets another value   *)
(* The C20 predicates (MxFormulaBase part 4/5) are the invariants; they    *)
(* are evaluated on the projection of the model state that has the shape   *)
(* of a recorded observation.                                              *)
(***************************************************************************)
EXTENDS MxFormulaBase, Json, IOUtils

CONSTANTS SampleMod,   \* 1: every layout; n: about one layout in n (chosen by VERIF_SEED)
          MaxOps,      \* operations after the capture (free mode); scripted mode: 0 = print only
          Scripted,    \* TRUE: the operations follow Script(lay) (one history per layout)
          ExcuseKF,    \* TRUE: the situations of the known findings are excused
          Dump         \* TRUE: print every layout with its script once (spec -> code)

VARIABLES lay,      \* the layout (fixed)
          src,      \* Text(lay), the abstract source (fixed)
          labels,   \* labels earned by the last completed operation (property layer)
          g,        \* value of the global name G in the cells' space
          pc,       \* "start" "classify" "dedent" "undecorate" "rename" "compile"
                    \* "extract" "execlam" | "ready" | "failed"
          text,     \* the text being rewritten by the capture pipeline
          cur,      \* the abstract formula of the cells
          prev,     \* ... before the last operation
          res,      \* result of the last operation (a formula, or Rejected(err))
          op, arg,  \* the last operation
          cn,       \* the name the cells must have
          nops

vars == <<lay, src, labels, g, pc, text, cur, prev, res, op, arg, cn, nops>>

Seed == IF "VERIF_SEED" \in DOMAIN IOEnv THEN atoi(IOEnv.VERIF_SEED) % 10007 ELSE 0
Sampled(l) == IF SampleMod = 1 THEN TRUE ELSE Hash(l, Seed) % SampleMod = 0

NoArg == [name |-> "", k |-> 0, ii |-> FALSE, g |-> 0]

\* one history per layout, varying with the layout
DocK(l, n)  == LET k == 11 + ((Mix(l) \div n) % 7) IN IF l.hdr = "one" /\ k = 12 THEN 13 ELSE k
Script(l) ==
    << [op |-> "setref",   arg |-> [NoArg EXCEPT !.g = 11]],
       [op |-> "recreate", arg |-> NoArg],
       [op |-> "rename",   arg |-> [NoArg EXCEPT !.name = "bar"]],
       [op |-> "setdoc",   arg |-> [NoArg EXCEPT !.k = DocK(l, 1), !.ii = (Mix(l) \div 2) % 2 = 1]],
       [op |-> "recreate", arg |-> NoArg],
       [op |-> "rename",   arg |-> [NoArg EXCEPT !.name = "baz"]],
       [op |-> "setdoc",   arg |-> [NoArg EXCEPT !.k = DocK(l, 5), !.ii = (Mix(l) \div 3) % 2 = 1]],
       [op |-> "setref",   arg |-> [NoArg EXCEPT !.g = 7]] >>

\* the layouts are enumerated dimension by dimension (= AllLayouts, without building the set)
Start(l) ==
    /\ Sampled(l)
    /\ lay = l
    /\ src = Text(l)
    /\ labels = {}
    /\ g = 7
    /\ pc = "start"
    /\ text = <<>>
    /\ cur = Rejected("") /\ prev = Rejected("") /\ res = Rejected("")
    /\ op = "capture" /\ arg = NoArg
    /\ cn = CellsName(l)
    /\ nops = 0

Init ==
    \/ \E f \in DefForms, w \in WsKinds, dc \in 0..(NDeco - 1), p \in {"none", "both"},
          h \in {"norm", "ann", "ml"}, ds \in OrigDocs, b \in 0..(NBody - 1), t \in {"none", "tc", "last"} :
          Start([form |-> f, ws |-> w, deco |-> dc, pre |-> p, hdr |-> h, doc |-> ds, body |-> b,
                 tail |-> t, embed |-> "-", ml |-> "-", lbody |-> "-", lpar |-> "-", cmt |-> FALSE, pick |-> 0])
    \/ \E f \in DefForms, w \in WsKinds, dc \in 0..(NDeco - 1), p \in {"none", "both"},
          ds \in {0, 2}, t \in {"none", "tc"} :
          Start([form |-> f, ws |-> w, deco |-> dc, pre |-> p, hdr |-> "one", doc |-> ds, body |-> 0,
                 tail |-> t, embed |-> "-", ml |-> "-", lbody |-> "-", lpar |-> "-", cmt |-> FALSE, pick |-> 0])
    \/ \E f \in LamForms, w \in WsKinds, e \in Embeds, m \in MlKinds,
          lb \in {"plain", "compr", "pp", "nest"}, lp \in {"xy", "x", "none"}, c \in BOOLEAN :
          /\ LamValid(f, e, m)
          /\ Start([form |-> f, ws |-> w, deco |-> 0, pre |-> "none", hdr |-> "-", doc |-> 0, body |-> 0,
                    tail |-> "-", embed |-> e, ml |-> m, lbody |-> lb, lpar |-> lp, cmt |-> c, pick |-> 0])
    \/ \E w \in WsKinds, e \in MultiEmbeds, m \in {"none", "own", "outer"}, pk \in 1..3,
          lb \in {"plain", "compr", "pp", "nest"}, lp \in {"xy", "x", "none"}, c \in BOOLEAN :
          /\ MultiValid(e, m, pk)
          /\ Start([form |-> "lamobj", ws |-> w, deco |-> 0, pre |-> "none", hdr |-> "-", doc |-> 0, body |-> 0,
                    tail |-> "-", embed |-> e, ml |-> m, lbody |-> lb, lpar |-> lp, cmt |-> c, pick |-> pk])

-----------------------------------------------------------------------------------------------------------------------------------------------------
(* property layer: the labels an operation earns, evaluated on the          *)
(* projection of the model state that has the shape of an observation       *)

ObsOf(o_, cur_, res_, g_) ==
    IF res_.ok THEN Project(lay, res_, g_)
    ELSE IF o_ = "capture" THEN ProjectRejected(res_.err)
    ELSE [Project(lay, cur_, g_) EXCEPT !.ok = FALSE, !.err = res_.err]

LabelsOf(o_, a_, cn_, g_, prev_, cur_, res_) ==
    OpLabels(lay, src, o_, a_, cn_, g_, Project(lay, prev_, g_), ObsOf(o_, cur_, res_, g_))

-----------------------------------------------------------------------------
(* the capture pipeline                                                    *)

Fail(err) ==
    /\ res' = Rejected(err) /\ pc' = "failed"
    /\ labels' = LabelsOf("capture", NoArg, cn, g, prev, cur, Rejected(err))
    /\ UNCHANGED <<lay, src, g, text, cur, prev, op, arg, cn, nops>>

GetSource ==
    /\ pc = "start"
    /\ text' = IF lay.form = "funcobj" THEN GetBlock(src) ELSE src
    /\ pc' = "classify"
    /\ UNCHANGED <<lay, src, labels, g, cur, prev, res, op, arg, cn, nops>>

Classify ==
    /\ pc = "classify"
    /\ IF IsDef(lay) /\ ParseErr(Dedent(text)) # ""
       THEN Fail(ParseErr(Dedent(text)))          \* is_funcdef parses dedent(src) and raises
       ELSE IF Unsupported(lay)
       THEN Fail("ValueError")                    \* more than 1 lambda on the object's line
       ELSE /\ pc' = IF lay.form = "lamobj" THEN "extract" ELSE "dedent"
            /\ UNCHANGED <<lay, src, labels, g, text, cur, prev, res, op, arg, cn, nops>>

DedentStep ==
    /\ pc = "dedent"
    /\ text' = Dedent(text)
    /\ pc' = IF IsDef(lay) THEN "undecorate" ELSE "extract"
    /\ UNCHANGED <<lay, src, labels, g, cur, prev, res, op, arg, cn, nops>>

RemoveDecoratorStep ==
    /\ pc = "undecorate"
    /\ text' = RemoveDecorator(text)
    /\ pc' = "rename"
    /\ UNCHANGED <<lay, src, labels, g, cur, prev, res, op, arg, cn, nops>>

ReplaceFuncNameStep ==          \* the name token of the first `def`; lines stay
    /\ pc = "rename"
    /\ pc' = "compile"
    /\ UNCHANGED <<lay, src, labels, g, text, cur, prev, res, op, arg, cn, nops>>

Captured(f) ==
    /\ res' = f /\ cur' = f /\ pc' = "ready"
    /\ labels' = LabelsOf("capture", NoArg, cn, g, prev, f, f)
    /\ UNCHANGED <<lay, src, g, text, prev, op, arg, cn, nops>>

CompileStep ==
    /\ pc = "compile"
    /\ IF ParseErr(text) # "" THEN Fail(ParseErr(text))
       ELSE Captured([ok |-> TRUE, err |-> "", islam |-> FALSE, name |-> cn, lines |-> text,
                      doc |-> [code |-> lay.doc, exact |-> FALSE, cont |-> 0]])

ExtractLambdaStep ==
    /\ pc = "extract"
    /\ text' = ExtractLambda(text)
    /\ pc' = "execlam"
    /\ UNCHANGED <<lay, src, labels, g, cur, prev, res, op, arg, cn, nops>>

ExecLambdaStep ==
    /\ pc = "execlam"
    /\ IF LamExecErr(text) # "" THEN Fail(LamExecErr(text))
       ELSE Captured([ok |-> TRUE, err |-> "", islam |-> TRUE, name |-> cn, lines |-> text, doc |-> NoDoc])

-----------------------------------------------------------------------------
(* operations on a captured formula                                        *)

Allowed(o, a) ==
    /\ pc = "ready"
    /\ IF Scripted THEN nops < Len(Script(lay)) /\ Script(lay)[nops + 1] = [op |-> o, arg |-> a]
       ELSE nops < MaxOps

\* the operation o(a) produced r; the cells is c afterwards, its name must be n, G is v
Did(o, a, r, c, n, v) ==
    /\ op' = o /\ arg' = a /\ res' = r /\ cur' = c /\ cn' = n /\ g' = v
    /\ prev' = cur /\ nops' = nops + 1 /\ pc' = "ready"
    /\ labels' = LabelsOf(o, a, n, v, cur, c, r)
    /\ UNCHANGED <<lay, src, text>>

Recreate == 
    /\ Allowed("recreate", NoArg)
    /\ Did("recreate", NoArg, RecreateFn(cur), cur, cn, g)

Rename(n) ==
    LET a == [NoArg EXCEPT !.name = n]
        r == RenameFn(cur, n)
    IN /\ Allowed("rename", a)
       /\ n # cur.name
       /\ Did("rename", a, r, KeepOld(cur, r), IF r.ok THEN n ELSE cn, g)

SetDoc(k, ii) ==
    LET a == [NoArg EXCEPT !.k = k, !.ii = ii]
        r == SetDocFn(cur, k, ii)
    IN /\ Allowed("setdoc", a)
       /\ (IsDef(lay) /\ IsOne(cur.lines)) => NewDocLen(k) = 1    \* bound: one-line docs on one-line bodies
       /\ Did("setdoc", a, r, KeepOld(cur, r), cn, g)

SetRef(v) ==
    /\ Allowed("setref", [NoArg EXCEPT !.g = v])
    /\ v # g
    /\ Did("setref", [NoArg EXCEPT !.g = v], cur, cur, cn, v)

Next ==
    \/ GetSource \/ Classify \/ DedentStep \/ RemoveDecoratorStep \/ ReplaceFuncNameStep
    \/ CompileStep \/ ExtractLambdaStep \/ ExecLambdaStep
    \/ Recreate
    \/ \E n \in {"bar", "baz"} : Rename(n)
    \/ \E k \in NewDocs, ii \in BOOLEAN : SetDoc(k, ii)
    \/ \E v \in {7, 11} : SetRef(v)

Spec == Init /\ [][Next]_vars

-----------------------------------------------------------------------------
(* the C20 predicates as invariants (one per predicate)                    *)

Settled == pc \in {"ready", "failed"}
Holds(label) == label \notin labels

Inv_C20_Accepted            == Holds("C20.Accepted")
Inv_C20_NoDecoratorLeft     == Holds("C20.NoDecoratorLeft")
Inv_C20_NameIsCellsName     == Holds("C20.NameIsCellsName")
Inv_C20_BodyUntouched       == Holds("C20.BodyUntouched")
Inv_C20_SelfContained       == Holds("C20.SelfContained")
Inv_C20_BehavesLikeFunction == Holds("C20.BehavesLikeFunction")
Inv_C20_ParamsKept          == Holds("C20.ParamsKept")
Inv_C20_Idempotent          == Holds("C20.Idempotent")
Inv_C20_RenameInert         == Holds("C20.RenameInert")
Inv_C20_DocInert            == Holds("C20.DocInert")
\* the known findings are counterexamples of the design as it is (MC_MxFormula_kf.cfg)
Inv_NoKnownFinding          == ExcuseKF \/ labels \cap KFNames = {}

\* consistency of the algorithm layer: the steps compose to the function the trace
\* specification uses
Inv_StepsEqFunction ==
    (Settled /\ op = "capture") =>
        LET f == CaptureFn(lay, src, cn) IN
        IF f.ok THEN pc = "ready" /\ cur = f ELSE pc = "failed" /\ res = f

-----
(* spec -> code: every layout printed once with the history to run on it   *)
CaseJson ==
    [lay |-> lay, via |-> Via(lay), eofnl |-> EofNl(lay), cname |-> CellsName(lay),
     text |-> src,
     script |-> Script(lay)]

\* (with MaxOps = 0 the scripted behaviours are only printed, not explored)
DumpCase == IF Dump /\ pc = "start" THEN PrintT(<<"MBT", ToJson(CaseJson)>>) /\ MaxOps > 0 ELSE TRUE

-----------------------------------------------------------------------------
(* which known findings does the design as modelled exhibit?  (MC_MxFormula_kf.cfg, one    *)
(* worker: register 1 collects the KF labels of all reachable states)                      *)
KFInit    == Init /\ TLCSet(1, {})
CollectKF == TLCSet(1, TLCGet(1) \cup (labels \cap KFNames))
PrintKF   == PrintT(<<"KFSEEN", TLCGet(1)>>)
=============================================================================
