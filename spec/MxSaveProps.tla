---------------------------- MODULE MxSaveProps ----------------------------
(***************************************************************************)
(* C14 "Saving never loses the last good save; failed saves and loads      *)
(* leave no residue" -- PROPERTY LAYER.                                    *)
(*                                                                         *)
(* Pure operators (no variables) over the abstract file system of one      *)
(* model path:                                                             *)
(*     fs : 0..3 -> slot        0 = <path>, n = <path>_BAKn                *)
(*     slot = [p    : is something there,                                  *)
(*             ok   : is it a COMPLETE saved model (reads back and equals   *)
(*                    what was saved as generation gen),                   *)
(*             gen  : generation marker of the content (0 = unknown),      *)
(*             kind : "dir" | "zip" | "file" | "none"]                     *)
(* They are shared by the algorithm-layer model MxSave (model checked) and *)
(* by the trace specification MxSaveTrace (executions of the real modelx). *)
(* The part of the mechanism that both need as a FUNCTION -- the backup    *)
(* rotation of modelx/serialize/__init__.py:28-45 -- is here as well, so   *)
(* that the trace specification can compare what the code did with what    *)
(* the model says it does (DRIFT, never a verdict).                        *)
(***************************************************************************)
EXTENDS Integers, Sequences, FiniteSets

SlotIx    == 0..3
MaxBak    == 3                      \* serialize/__init__.py:20 DEFAULT_MAX_BACKUPS
Absent    == [p |-> FALSE, ok |-> FALSE, gen |-> 0, kind |-> "none"]
Mk(g, c, k) == [p |-> TRUE, ok |-> c, gen |-> g, kind |-> k]
AllAbsent == [n \in SlotIx |-> Absent]

-----------------------------------------------------------------------------
(* The predicates of C14.                                                  *)

Good(s, g) == s.p /\ s.ok /\ s.gen = g

\* C14.LastGoodSafe: the most recent completely written generation lg is
\* complete at <path> or at <path>_BAK1
Safe(fs, lg) == lg = 0 \/ Good(fs[0], lg) \/ Good(fs[1], lg)

\* C14.GenerationsOrdered: complete copies appear newest first, none twice
Ordered(fs) == \A a, b \in SlotIx :
                  (a < b /\ fs[a].p /\ fs[a].ok /\ fs[b].p /\ fs[b].ok) => fs[a].gen > fs[b].gen

\* C14.NoPartialZip: whatever is present and is not a directory is a complete archive
NoPartialZip(fs) == \A n \in SlotIx : (fs[n].p /\ fs[n].kind # "dir") => fs[n].ok

\* C14.GenerationsKept: a save with backups on keeps the (up to three) most
\* recent earlier generations: what was complete at <path>, _BAK1, _BAK2
\* before the save is still complete somewhere after it (only _BAK3 may go)
Kept(pre, post) == \A n \in 0..(MaxBak - 1) :
                      (pre[n].p /\ pre[n].ok) =>
                          \E m \in SlotIx : Good(post[m], pre[n].gen)

-----------------------------------------------------------------------------
(* _increment_backups(model, base_path, max_backups, nth) -- the file      *)
(* operations it performs, in order.  All exists() tests are made on the   *)
(* way DOWN the recursion (__init__.py:34), every rename/remove on the way *)
(* UP (:36-39, :45), so the list is a function of the state at entry.      *)

RECURSIVE RotFrom(_, _, _)
RotFrom(fs, maxb, n) ==
    IF ~fs[n].p THEN <<>>                                                  \* :34
    ELSE IF n = maxb THEN << [k |-> "delete", a |-> n, b |-> n] >>         \* :35-39
    ELSE RotFrom(fs, maxb, n + 1) \o << [k |-> "rename", a |-> n, b |-> n + 1] >>   \* :43-45

RotOps(fs, backup) == RotFrom(fs, IF backup THEN MaxBak ELSE 0, 0)        \* :71, :74

ApplyRot(fs, op) ==
    IF op.k = "delete" THEN [fs EXCEPT ![op.a] = Absent]
    ELSE [fs EXCEPT ![op.b] = fs[op.a], ![op.a] = Absent]

RECURSIVE ApplyAll(_, _)
ApplyAll(fs, ops) == IF ops = <<>> THEN fs ELSE ApplyAll(ApplyRot(fs, Head(ops)), Tail(ops))

\* shutil.rmtree is not atomic: a failing removal of a DIRECTORY may already have removed
\* part of it (what is left is present but no longer a complete copy)
FailedRot(fs, op) ==
    {fs} \cup (IF op.k = "delete" /\ fs[op.a].kind = "dir"
               THEN {[fs EXCEPT ![op.a] = [@ EXCEPT !.ok = FALSE]]} ELSE {})

\* every quiescent file-system state the modelled mechanism can end a save in
\* (failure at any operation, or success), given the state it started from
Outcomes(fs, fmt, backup, g, cleanup, swallowed) ==
    LET ops == RotOps(fs, backup)
        R   == ApplyAll(fs, ops) IN
    UNION {FailedRot(ApplyAll(fs, SubSeq(ops, 1, j)), ops[j + 1]) : j \in 0..(Len(ops) - 1)}   \* failed in the rotation
    \cup {R}                                                                 \* failed while writing
    \cup {[R EXCEPT ![0] = Mk(g, TRUE, fmt)]}                               \* written completely
    \cup (IF fmt = "dir" /\ ~cleanup THEN {[R EXCEPT ![0] = Mk(g, FALSE, "dir")]} ELSE {})
    \cup (IF fmt = "zip" /\ swallowed THEN {[R EXCEPT ![0] = Mk(g, FALSE, "zip")]} ELSE {})   \* known findings

\* what can be compared between the model and an observation
AbsSlot(s) == IF s.p /\ s.ok THEN <<s.gen, s.kind>> ELSE IF s.p THEN <<-1, s.kind>> ELSE <<0, "none">>
AbsFs(fs)  == [n \in SlotIx |-> AbsSlot(fs[n])]
=============================================================================
