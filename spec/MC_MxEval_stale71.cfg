\* Design-level control: with clear_attr_referrers as it was before repair #71 (dependents of a
\* reader stay in the reference graph) the model MUST lose an assigned value: the action property InputsKept fails.
CONSTANTS
  MaxOps = 4
  MaxDepthC = 0
  Pattern = "any"
  Dump = FALSE
  StaleRefEdges <- StaleOn
INIT Init
NEXT Next
CONSTRAINT Bound
PROPERTY InputsKept
CHECK_DEADLOCK FALSE
