CONSTANTS
  MaxN = 5
  AllOrders = FALSE
  WithInputs = FALSE
  Dump = TRUE
INIT Init
NEXT Next
CONSTRAINT DumpCase
CHECK_DEADLOCK FALSE
