--------------------------- MODULE MxActionsBase ---------------------------
(***************************************************************************)
(* Memory-optimised runs (property C16): definitions shared by the         *)
(* algorithm-layer state machine MxActions and by the trace specification  *)
(* MxActionsTrace.                                                         *)
(*                                                                         *)
(* A case is                                                               *)
(*    deps  : node -> set of nodes its formula calls ("depends on")        *)
(*    inv0  : input node -> assigned value (inputs set before the run)     *)
(*    T     : set of target nodes                                          *)
(*    step  : step size                                                    *)
(* Nodes are 1..n.  The formula of node i is  i + sum of its dependencies, *)
(* so a missing, stale or wrong dependency shows in the value.             *)
(*                                                                         *)
(* PART 1 (property layer) : the oracle Direct and the five C16 predicates *)
(*                           over explicitly passed observations.          *)
(* PART 2 (algorithm layer): the abstract cache with the semantics of      *)
(*                           evaluate / assign / clear, get_calcsteps      *)
(*                           transcribed (Plan), and the micro-operations  *)
(*                           that execute_actions performs.                *)
(***************************************************************************)
EXTENDS Integers, Sequences, FiniteSets

Range(s)   == {s[i] : i \in DOMAIN s}
PairsToFun(ps) == [k \in {p[1] : p \in Range(ps)} |->
                      (CHOOSE p \in Range(ps) : p[1] = k)[2]]
Upd(f, k, v) == [x \in DOMAIN f \cup {k} |-> IF x = k THEN v ELSE f[x]]
Min2(a, b) == IF a < b THEN a ELSE b

RECURSIVE SumOver(_, _)
SumOver(S, f) ==                       \* f is a function defined on S
    IF S = {} THEN 0
    ELSE LET x == CHOOSE x \in S : TRUE IN f[x] + SumOver(S \ {x}, f)

RECURSIVE RevSeq(_)
RevSeq(s) == IF s = <<>> THEN <<>> ELSE Append(RevSeq(Tail(s)), Head(s))

RECURSIVE Concat(_)
Concat(ss) == IF ss = <<>> THEN <<>> ELSE Head(ss) \o Concat(Tail(ss))

RECURSIVE SortedSeq(_)                  \* a set of integers in ascending order
SortedSeq(S) ==
    IF S = {} THEN <<>>
    ELSE LET m == CHOOSE x \in S : \A y \in S : x <= y IN <<m>> \o SortedSeq(S \ {m})

-----------------------------------------------------------------------------
(*                       PART 1 : PROPERTY LAYER                           *)

\* The value direct evaluation gives: an input wins, otherwise the formula.
\* Looks at the definitions only (never at a cache, a graph or a plan).
RECURSIVE Direct(_, _, _)
Direct(deps, inv0, n) ==
    IF n \in DOMAIN inv0 THEN inv0[n]
    ELSE n + SumOver(deps[n], [d \in deps[n] |-> Direct(deps, inv0, d)])

\* What evaluating n has to calculate when the nodes in `stop` hold values:
\* n and everything it reaches through calls without passing through `stop`.
RECURSIVE Behind(_, _, _)
Behind(deps, stop, n) ==
    IF n \in stop THEN {}
    ELSE {n} \cup UNION {Behind(deps, stop, d) : d \in deps[n]}

\* "every element the targets depend on" (targets included; inputs are not
\* calculated and hide what is behind them)
Needed(deps, inv0, T) == UNION {Behind(deps, DOMAIN inv0, t) : t \in T}

\* An action list is a sequence of [kind |-> "calc"|"paste"|"clear", nodes |-> <<..>>]
CalcSeq(acts) ==
    Concat([i \in DOMAIN acts |-> IF acts[i].kind = "calc" THEN acts[i].nodes ELSE <<>>])
Positions(s, x) == {i \in DOMAIN s : s[i] = x}

P_TargetsHoldDirectValues(deps, inv0, T, val) ==
    \A t \in T : t \in DOMAIN val /\ val[t] = Direct(deps, inv0, t)

\* whatever else is still held is an untouched input of the user
P_NothingElseLeft(inv0, T, val, inp) ==
    \A m \in DOMAIN val :
        m \in T \/ (m \in DOMAIN inv0 /\ m \in inp /\ val[m] = inv0[m])

\* cnt : node -> number of times its formula ran during execute_actions
P_NoRecompute(cnt) == \A m \in DOMAIN cnt : cnt[m] <= 1

P_EachDepOnceAfterPreds(deps, inv0, T, acts) ==
    LET cs     == CalcSeq(acts)
        R      == Needed(deps, inv0, T)
        Pos(x) == CHOOSE i \in DOMAIN cs : cs[i] = x
    IN /\ \A x \in R : Cardinality(Positions(cs, x)) = 1
       /\ \A x \in R : \A d \in deps[x] \cap R : Pos(d) < Pos(x)

P_GenerateLeavesNothing(inv0, val, inp) ==
    /\ DOMAIN val = DOMAIN inv0
    /\ \A m \in DOMAIN val : val[m] = inv0[m]
    /\ inp = DOMAIN inv0

-----------------------------------------------------------------------------
(*                      PART 2 : ALGORITHM LAYER                           *)
(* The abstract cache:                                                     *)
(*   val : held node -> value      (cells.data of every cells)             *)
(*   inp : set of input nodes      (cells.input_keys)                      *)
(*   tg  : set of <<callee, caller>> (model.tracegraph; its nodes = held)  *)
(*   cnt : node -> number of formula executions                            *)

NewCache(nodes, inv0) ==
    [val |-> inv0, inp |-> DOMAIN inv0, tg |-> {}, cnt |-> [m \in nodes |-> 0]]
Held(c) == DOMAIN c.val

RECURSIVE ValIn(_, _, _)
ValIn(deps, val, m) ==
    IF m \in DOMAIN val THEN val[m]
    ELSE m + SumOver(deps[m], [d \in deps[m] |-> ValIn(deps, val, d)])

\* get_value_from_key(n) from the top level.
\*   system.py:48-66   eval_node: a held node is returned as is (hit; inside a
\*                     formula the edge callee -> caller is added), otherwise
\*   system.py:68-81   _eval_formula: push, run the formula (which evaluates its
\*                     dependencies the same way, recursively), pop
\*   system.py:261-289 CallStack.pop adds the edge callee -> caller
\*   cells.py:741-743,809-818  the value is stored
\* Every node whose formula runs is counted.
Eval(deps, c, n) ==
    LET new == Behind(deps, Held(c), n) IN
    [c EXCEPT !.val = [m \in Held(c) \cup new |-> ValIn(deps, c.val, m)],
              !.tg  = @ \cup UNION {{<<d, m>> : d \in deps[m]} : m \in new},
              !.cnt = [m \in DOMAIN @ |-> IF m \in new THEN @[m] + 1 ELSE @[m]]]

RECURSIVE Reach(_, _)
Reach(tg, S) ==
    LET nxt == S \cup {e[2] : e \in {x \in tg : x[1] \in S}} IN
    IF nxt = S THEN S ELSE Reach(tg, nxt)

\* clear_value_at(n): cells.py:832-835 -> model.py:758-764 clear_with_descs ->
\* model.py:60-73 remove_with_descs (the node and everything reachable from it
\* in the trace graph) -> cells.py:823-826 on_clear_trace (value and input mark)
ClearAt(c, n) ==
    IF n \notin Held(c) THEN c
    ELSE LET gone == Reach(c.tg, {n}) IN
         [c EXCEPT !.val = [m \in Held(c) \ gone |-> c.val[m]],
                   !.inp = @ \ gone,
                   !.tg  = {e \in @ : e[1] \notin gone /\ e[2] \notin gone}]

\* set_value_from_key(n, v) from the top level: cells.py:787-804
\* clear the element with its dependents, store the value, add the bare node
\* (no edge to what it was computed from), mark it as input
Assign(c, n, v) ==
    LET c1 == ClearAt(c, n) IN
    [c1 EXCEPT !.val = Upd(c1.val, n, v), !.inp = @ \cup {n}]

-----------------------------------------------------------------------------
(* get_calcsteps, model.py:781-845, transcribed.                           *)
(*   ord     = list(nx.topological_sort(subgraph))  -- ANY topological     *)
(*             order of the nodes entered while tracing the targets        *)
(*   targets = the targets that are not inputs                             *)
(*   subgraph.successors(x) = nodes of ord whose formula called x          *)

Succs(deps, R, x) == {m \in R : x \in deps[m]}

RECURSIVE PlanFrom(_, _, _, _, _, _)
PlanFrom(deps, T, step, ord, k, pasted) ==
    IF k * step >= Len(ord)                                   \* :796
    THEN [acts |-> <<>>, left |-> pasted]
    ELSE
    LET R        == Range(ord)
        start    == k * step + 1                              \* :798 (1-based)
        stop     == Min2(Len(ord), (k + 1) * step)            \* :799
        block    == SubSeq(ord, start, stop)                  \* :801
        inblock  == Range(block)
        IsPaste(x) == x \in T                                 \* :808-815
                      \/ \E s \in Succs(deps, R, x) : s \notin inblock
        IsClear(x) == ~IsPaste(x)
        curPaste == SelectSeq(block, IsPaste)                 \* :817
        curClear == SelectSeq(block, IsClear)                 \* :819
        accum    == Range(SubSeq(ord, 1, stop))               \* :821
        StillUsed(x) == \E s \in Succs(deps, R, x) : s \notin accum   \* :825-828
        Released(x)  == ~StillUsed(x)
        NotTarget(x) == x \notin T
        released == SelectSeq(pasted, Released)               \* :830-832
        pasted2  == SelectSeq(pasted, StillUsed)
                    \o SelectSeq(curPaste, NotTarget)         \* :834-836
        rest     == PlanFrom(deps, T, step, ord, k + 1, pasted2)
    IN [acts |-> << [kind |-> "calc",  nodes |-> block],              \* :838
                    [kind |-> "paste", nodes |-> RevSeq(curPaste)],   \* :839
                    [kind |-> "clear", nodes |-> curClear \o released] >>  \* :840
                 \o rest.acts,
        left |-> rest.left]

Plan(deps, T, step, ord)     == PlanFrom(deps, T, step, ord, 0, <<>>).acts
PlanLeft(deps, T, step, ord) == PlanFrom(deps, T, step, ord, 0, <<>>).left   \* :844 assert not pasted

IsTopological(deps, ord) ==
    /\ \A i, j \in DOMAIN ord : i # j => ord[i] # ord[j]
    /\ \A i, j \in DOMAIN ord : ord[i] \in deps[ord[j]] => i < j

-----------------------------------------------------------------------------
(* execute_actions, model.py:715-740, as a program of micro-operations:    *)
(*   calc  x : get_value_from_key                        (:718-721)        *)
(*   pget  x : get_value_from_key, remember the value    (:725-729)        *)
(*   pset  x : set_value_from_key with that value        (:730-731)        *)
(*   clear x : clear_value_at                            (:733-736)        *)
(* A paste step does all its pgets before its first pset.                  *)

OpsOf(a) ==
    LET Mk(o) == [i \in DOMAIN a.nodes |-> [op |-> o, n |-> a.nodes[i]]] IN
    CASE a.kind = "calc"  -> Mk("calc")
      [] a.kind = "paste" -> Mk("pget") \o Mk("pset")
      [] a.kind = "clear" -> Mk("clear")
Prog(acts) == Concat([i \in DOMAIN acts |-> OpsOf(acts[i])])

\* st = [c |-> cache, buf |-> node -> value read by pget]
MicroStep(deps, st, o) ==
    CASE o.op = "calc"  -> [st EXCEPT !.c = Eval(deps, @, o.n)]
      [] o.op = "pget"  -> LET c2 == Eval(deps, st.c, o.n) IN
                           [c |-> c2, buf |-> Upd(st.buf, o.n, c2.val[o.n])]
      [] o.op = "pset"  -> [st EXCEPT !.c = Assign(@, o.n, st.buf[o.n])]
      [] o.op = "clear" -> [st EXCEPT !.c = ClearAt(@, o.n)]

RECURSIVE RunFrom(_, _, _, _)
RunFrom(deps, st, prog, i) ==
    IF i > Len(prog) THEN st ELSE RunFrom(deps, MicroStep(deps, st, prog[i]), prog, i + 1)
RunProg(deps, c, prog) == RunFrom(deps, [c |-> c, buf |-> <<>>], prog, 1).c
=============================================================================
