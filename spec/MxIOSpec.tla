------------------------------ MODULE MxIOSpec ------------------------------
(***************************************************************************)
(* Algorithm layer of C18: how modelx keeps IOSpecs, references and the    *)
(* IOManager's table of shared IO objects in step.  Written to be bound to *)
(* the code: every operator below transcribes one routine (file:line of    *)
(* /repo/modelx as of commit e8315ba in its comment) and the public ops are *)
(* compositions of them in the order the code calls them.  modelx is       *)
(* sequential, a public call runs to completion, so one public call is one *)
(* TLA+ action (NewSpec, Assign, DelRef, UpdateValue, AddBase, RemoveBase, *)
(* DelSpace, CloseModel, WriteRead); its intermediate steps are the nested *)
(* operators.                                                              *)
(*                                                                         *)
(* State S (one record, so that the trace specification can apply the same *)
(* operators to the state OBSERVED on the real library):                   *)
(*   S.open       open models                                              *)
(*   S.sp[m]      spaces of m that exist (subset of {"A","B","K"})         *)
(*   S.base[m]    B derives from A  (B.add_bases(A))                       *)
(*   S.refs[m]    {[sp, n, v, d]}  own references (sp = "" : model level); *)
(*                d = derived                                              *)
(*   S.v2r[m]     {[v, sp, n]}     ReferenceManager._valid_to_refs         *)
(*                (model.py:1903): value id -> registered references       *)
(*   S.mgr        <<[g, loc, v]>>  IOManager.ios (baseio.py:151) flattened *)
(*                spec by spec, in dict order; g = io_group (model name,   *)
(*                "" for absolute paths), loc = path                       *)
(* Every space has one scalar cells "c"; names in InvalidNames are not     *)
(* identifiers.                                                            *)
(* Values: 0 = a plain int, PVals = pandas objects, MVals = modules, and   *)
(* MODELX OBJECTS of the same model (ids >= 100): 101 = space A, 102 =     *)
(* cells A.c, 103 = space B, 104 = cells B.c.  A reference may be bound to *)
(* them like to any value, but an Interface value is never registered in   *)
(* _valid_to_refs (model.py ReferenceManager.new_ref / change_ref /        *)
(* del_ref: `if not isinstance(value, Interface)`), and the derived copy   *)
(* of a reference to A or A.c in B is bound RELATIVELY to B / B.c.         *)
(***************************************************************************)
EXTENDS MxIOSpecProps, SequencesExt, Json

CONSTANTS Models,      \* e.g. {"M1","M2"}
          BaseInit,    \* models in which B derives from A initially
          Names,       \* reference names used by assignments/deletions, e.g. {"x","y"}
          CsvLocs,     \* locations for new_pandas(file_type="csv")
          ModLocs,     \* locations for new_module
          PVals,       \* ids of pandas values
          MVals,       \* ids of module values
          OVals,       \* ids of modelx objects that assignments may bind (subset of 101..104)
          WithDelSpace,\* explore `del model.<space>`
          WithChild,   \* the models have the child space A.K (FALSE: only A and B, which keeps
                       \* the unbounded thorough configurations at their size)
          OpenFindings, \* KF labels of findings not repaired in the code: states reached through
                        \* their situation are judged and printed but not expanded
          MaxOps,      \* history length bound
          Dump         \* print histories for replay on the real library

CellNames    == {"c"}
InvalidNames == {"1x"}
SpaceNames   == {"A", "B", "K"}     \* K is a child space of A: it goes away with A
TopSpaces    == {"A", "B"}

IsObj(v)   == v >= 100
SpaceOf(v) == IF v \in {101, 102} THEN "A" ELSE "B"
\* value of the copy that sub space B derives from a reference of A
\* (refmode "auto": a target inside the defining space is re-bound relatively,
\*  SpaceManager.get_relative_interface; anything else stays as it is)
RelMap(v)  == CASE v = 101 -> 103 [] v = 102 -> 104 [] OTHER -> v

VARIABLES S, P, lab, hist
vars == <<S, P, lab, hist>>

-----------------------------------------------------------------------------
(* IOManager (modelx/io/baseio.py)                                         *)

NoSpec == [g |-> "", loc |-> "", v |-> -9]

\* get_spec_from_value, baseio.py:238-243: IO objects of the model's group in
\* table order, then those of group None; first spec whose value IS v
GetSpec(St, m, v) ==
    LET c == SelectSeq(St.mgr, LAMBDA e : e.v = v /\ e.g = m)
             \o SelectSeq(St.mgr, LAMBDA e : e.v = v /\ e.g = "") IN
    IF c = <<>> THEN NoSpec ELSE c[1]
HasSpec(St, m, v) == GetSpec(St, m, v) # NoSpec

\* del_spec + _del_io, baseio.py:231-236 and 180-186 (csv / module IO objects
\* hold one spec, so the IO object goes with it)
MgrDelSpec(St, e) == [St EXCEPT !.mgr = SelectSeq(@, LAMBDA x : x # e)]

\* new_spec, baseio.py:202-222: get_or_create_io (195-200), _on_load_value,
\* add_spec (224-229) -> _can_add_spec: a csv or module IO object never takes
\* a second spec (pandasio.py:206-208, moduleio.py:117-118) -> ValueError, and
\* the except branch removes an IO object created for nothing (217-220)
MgrCanAdd(St, m, loc) == ~\E i \in DOMAIN St.mgr : St.mgr[i].g = m /\ St.mgr[i].loc = loc
MgrNewSpec(St, m, loc, v) == [St EXCEPT !.mgr = Append(@, [g |-> m, loc |-> loc, v |-> v])]

\* specs of a model = first spec of every registered value, model.py:1927-1934
SpecsOf(St, m) ==
    {[v |-> v, loc |-> GetSpec(St, m, v).loc] :
        v \in {t.v : t \in {t \in St.v2r[m] : HasSpec(St, m, t.v)}}}

-----------------------------------------------------------------------------
(* References and inheritance                                              *)

RefsAt(St, m, sp, n) == {r \in St.refs[m] : r.sp = sp /\ r.n = n}
GlobalNames(St, m)   == {r.n : r \in {r \in St.refs[m] : r.sp = ""}}
OwnNames(St, m, sp)  == {r.n : r \in {r \in St.refs[m] : r.sp = sp}}
\* names visible in a parent: cells, own references, model-level references
\* (a model: its spaces and its references)
Namespace(St, m, sp) ==
    IF sp = "" THEN (St.sp[m] \cap TopSpaces) \cup GlobalNames(St, m)
    ELSE CellNames \cup OwnNames(St, m, sp) \cup GlobalNames(St, m)
         \cup (IF sp = "A" /\ "K" \in St.sp[m] THEN {"K"} ELSE {})

\* effect of SpaceManager.update_subs / the propagation loops of new_ref,
\* change_ref, del_ref (model.py:1354-1356, 1500-1560) on the one base/sub
\* pair of this instance: B holds a derived copy of every reference of A
\* that B does not define itself.  Derived references are NOT registered
\* in _valid_to_refs (only ReferenceManager.new_ref/change_ref register,
\* and they are called for the defined reference only).
Rederive(St, m, refs) ==
    LET keep == {r \in refs : ~(r.sp = "B" /\ r.d)} IN
    IF St.base[m] /\ {"A", "B"} \subseteq St.sp[m]
    THEN keep \cup {[sp |-> "B", n |-> a.n, v |-> RelMap(a.v), d |-> TRUE] :
                       a \in {a \in keep : a.sp = "A"
                                /\ ~\E b \in keep : b.sp = "B" /\ b.n = a.n}}
    ELSE keep

Result(St, res) == [S |-> St, res |-> res]

\* ReferenceManager.new_ref, model.py:1936-1948
\*  model level: ModelImpl.new_ref (963-968), no check at all;
\*  space: SpaceManager.new_ref (1500-1527): only a cells or a space of that name in the
\*  space or a sub space is a conflict (none in this vocabulary: the cells is
\*  "c", never used as a reference name here); a sub space that defines the
\*  name keeps its own reference, the others get a derived copy;
\*  then the defined reference is registered under its value -- unless the
\*  value is a modelx object (`if not isinstance(value, Interface)`).
Reg(v, sp, n) == IF IsObj(v) THEN {} ELSE {[v |-> v, sp |-> sp, n |-> n]}
RmNewRef(St, m, sp, n, v) ==
    Result([St EXCEPT
            !.refs[m] = Rederive(St, m, @ \cup {[sp |-> sp, n |-> n, v |-> v, d |-> FALSE]}),
            !.v2r[m]  = @ \cup Reg(v, sp, n)], "ok")

\* ReferenceManager.change_ref, model.py:1990-2017
\*  - remember the previous reference and its value;
\*  - replace it (ModelImpl.change_ref = del + new, 959-961; SpaceManager.change_ref, 1529-1560:
\*    the reference becomes a defined one, derived copies follow);
\*  - register the NEW reference first (so that re-assigning the current
\*    value keeps the registration non-empty) -- not for a modelx object;
\*  - un-register the previous reference object; if it was the LAST one of
\*    its value, delete the value's spec (first found).  A previous value
\*    that is a modelx object has no entry (`refs is None`): nothing to do.
RmChangeRef(St, m, sp, n, v) ==
    LET prev == CHOOSE r \in RefsAt(St, m, sp, n) : TRUE
        S1 == [St EXCEPT !.refs[m] =
                  Rederive(St, m, (@ \ {prev}) \cup {[sp |-> sp, n |-> n, v |-> v, d |-> FALSE]}),
                         !.v2r[m] = @ \cup Reg(v, sp, n)] IN
    IF prev.v = v THEN Result(S1, "ok")      \* old object out, new object in: same entry
    ELSE
    LET regp == {t \in S1.v2r[m] : t.v = prev.v}
        me   == [v |-> prev.v, sp |-> sp, n |-> n]
        left == IF prev.d THEN regp ELSE regp \ {me} IN
    IF regp # {} /\ left = {}
    THEN LET S2 == [S1 EXCEPT !.v2r[m] = @ \ regp] IN
         Result(IF HasSpec(S2, m, prev.v) THEN MgrDelSpec(S2, GetSpec(S2, m, prev.v)) ELSE S2, "ok")
    ELSE Result([S1 EXCEPT !.v2r[m] = IF prev.d THEN @ ELSE @ \ {me}], "ok")

\* set_attr: UserSpaceImpl space.py:1750-1776, ModelImpl model.py:980-986
\* (reached from `parent.name = value`, parent.py:93-104)
SetAttr(St, m, sp, n, v) ==
    IF sp = ""
    THEN IF n \in St.sp[m] \cap TopSpaces THEN Result(St, "rejected")                   \* KeyError, 981-982
         ELSE IF n \in GlobalNames(St, m) THEN RmChangeRef(St, m, sp, n, v)
         ELSE RmNewRef(St, m, sp, n, v)                                   \* no name check
    ELSE IF n \in InvalidNames THEN Result(St, "rejected")               \* ValueError, 1756-1757
    ELSE IF n \in OwnNames(St, m, sp) THEN RmChangeRef(St, m, sp, n, v)  \* 1761-1762
    ELSE IF n \in CellNames THEN Result(St, "rejected")                  \* (a cells: not in the vocabulary of Assign)
    ELSE RmNewRef(St, m, sp, n, v)                                        \* 1763-1764, 1776

\* ReferenceManager.del_ref, model.py:1950-1975, reached from del_attr
\* (space.py:1778-1816, model.py:988-995)
\*  1957-1962 delete the reference (a derived one is re-derived at once by
\*            update_subs, so nothing changes for it);
\*  1964-1975 un-register: `assert refs` / `refs.remove(ref)` raise when the
\*            reference was never registered (a derived one, or one whose
\*            registration was lost) -- AFTER the deletion;
\*            last registered reference gone -> delete the value's spec;
\*            a modelx object is not registered: the deletion just succeeds.
RmDelRef(St, m, sp, n) ==
    IF RefsAt(St, m, sp, n) = {} THEN Result(St, "rejected")              \* KeyError
    ELSE
    LET ref == CHOOSE r \in RefsAt(St, m, sp, n) : TRUE
        me  == [v |-> ref.v, sp |-> sp, n |-> n]
        S1  == [St EXCEPT !.refs[m] = Rederive(St, m, @ \ {ref})]
        reg == {t \in St.v2r[m] : t.v = ref.v} IN
    IF IsObj(ref.v) THEN Result(S1, "ok")   \* not registered, nothing to un-register (a derived one: no net change)
    ELSE IF ref.d \/ me \notin reg THEN Result(S1, "rejected")
    ELSE LET S2 == [S1 EXCEPT !.v2r[m] = @ \ {me}] IN
         IF reg = {me} /\ HasSpec(S2, m, ref.v)
         THEN Result(MgrDelSpec(S2, GetSpec(S2, m, ref.v)), "ok")
         ELSE Result(S2, "ok")

-----------------------------------------------------------------------------
(* Public operations                                                       *)

\* EditableParentImpl.new_pandas / new_module, parent.py:919-961
\*  922/945  _check_ioref_name (889-893): a name of the parent's namespace
\*           that is not a reference (cells, child space) -> KeyError before
\*           anything is created;
\*  923-926  new_pandas only: a value that is referenced in the model and already
\*           has a spec -> ValueError before anything is created;
\*  927/947  IOManager.new_spec (may raise: location already claimed);
\*  934-938  set_attr; on ValueError/KeyError/AttributeError the spec is
\*           deleted again and KeyError raised.
NewSpecStep(St, op) ==
    LET m == op.m  sp == op.sp  n == op.n IN
    IF n \in Namespace(St, m, sp) /\ n \notin OwnNames(St, m, sp) \cup GlobalNames(St, m)
    THEN Result(St, "rejected")
    ELSE IF op.kind = "csv" /\ op.v \in {t.v : t \in St.v2r[m]} /\ HasSpec(St, m, op.v)
    THEN Result(St, "rejected")   \* new_pandas: "data already has <spec>" (a referenced value has one spec)
    ELSE IF ~MgrCanAdd(St, m, op.loc) THEN Result(St, "rejected")
    ELSE LET r == SetAttr(MgrNewSpec(St, m, op.loc, op.v), m, sp, n, op.v) IN
         IF r.res = "ok" THEN r ELSE Result(St, "rejected")

AssignStep(St, op) == SetAttr(St, op.m, op.sp, op.n, op.v)

DelRefStep(St, op) ==
    IF op.sp # "" /\ op.n \notin OwnNames(St, op.m, op.sp)
    THEN Result(St, "rejected")      \* not an own reference: del_ref raises (space.py:1801-1816)
    ELSE RmDelRef(St, op.m, op.sp, op.n)

\* ReferenceManager.update_value, model.py:2024-2056 (Model.update_pandas /
\* update_module, model.py:147-231)
\*  2026-2031 value not registered -> ValueError;
\*  2036-2038 old has a spec and new (another value) has its own spec -> ValueError;
\*  2040-2042 the spec (if any) takes the new value in place
\*            (IOManager.update_spec_value, baseio.py:245-252);
\*  2044-2052 every registered reference is re-bound at impl level
\*            (derived copies follow);
\*  2054-2056 _valid_to_refs: the old entry is popped and the moved references
\*            are ADDED to the entry of the new value.
UpdateStep(St, op) ==
    LET m == op.m
        reg == {t \in St.v2r[m] : t.v = op.old} IN
    IF reg = {} THEN Result(St, "rejected")
    ELSE IF HasSpec(St, m, op.old) /\ op.new # op.old /\ HasSpec(St, m, op.new)
    THEN Result(St, "rejected")   \* "new value already has its own IOSpec"
    ELSE
    LET S1 == IF HasSpec(St, m, op.old)
              THEN LET sp0 == GetSpec(St, m, op.old) IN
                   [St EXCEPT !.mgr = [i \in DOMAIN @ |->
                        IF @[i] = sp0 THEN [@[i] EXCEPT !.v = op.new] ELSE @[i]]]
              ELSE St
        moved == {[sp |-> t.sp, n |-> t.n] : t \in reg}
        S2 == [S1 EXCEPT !.refs[m] = Rederive(S1, m,
                  {r \in @ : [sp |-> r.sp, n |-> r.n] \notin moved}
                  \cup {[sp |-> x.sp, n |-> x.n, v |-> op.new, d |-> FALSE] : x \in moved})] IN
    Result([S2 EXCEPT !.v2r[m] = {t \in @ : t.v # op.old}
                                   \cup {[v |-> op.new, sp |-> x.sp, n |-> x.n] : x \in moved}],
           "ok")

\* UserSpace.add_bases / remove_bases (B.add_bases(A)): derived references
\* appear / disappear in B; the ReferenceManager is not involved
AddBaseStep(St, op) ==
    LET S1 == [St EXCEPT !.base[op.m] = TRUE] IN
    Result([S1 EXCEPT !.refs[op.m] = Rederive(S1, op.m, @)], "ok")
RemoveBaseStep(St, op) ==
    LET S1 == [St EXCEPT !.base[op.m] = FALSE] IN
    Result([S1 EXCEPT !.refs[op.m] = Rederive(S1, op.m, @)], "ok")

\* `del model.A`: ModelImpl.del_attr (model.py:988-991) -> SpaceUpdater.
\* del_defined_space (1810-); the references of the space go with it and
\* ReferenceManager.del_space_refs (1977-1988)
\* un-registers the defined ones; a value whose last registration goes loses
\* its spec (first found)
DelSpaceStep(St, op) ==
    LET m == op.m
        gsp == IF op.sp = "A" THEN {"A", "K"} ELSE {op.sp}      \* child spaces go with the parent
        S1 == [St EXCEPT !.sp[m] = @ \ gsp, !.base[m] = IF op.sp \in TopSpaces THEN FALSE ELSE @]
        S2 == [S1 EXCEPT !.refs[m] = Rederive(S1, m, {r \in @ : r.sp \notin gsp})]
        regs == {t \in St.v2r[m] : t.sp \in gsp
                   /\ \E r \in St.refs[m] : r.sp = t.sp /\ r.n = t.n /\ r.v = t.v /\ ~r.d}
        S3 == [S2 EXCEPT !.v2r[m] = @ \ regs]
        dead == {v \in {t.v : t \in regs} : ~\E t \in S3.v2r[m] : t.v = v}
        gone == {GetSpec(S3, m, v) : v \in {v \in dead : HasSpec(S3, m, v)}} IN
    Result([S3 EXCEPT !.mgr = SelectSeq(@, LAMBDA e : e \notin gone)], "ok")

\* System.close_model, system.py:657-661 -> ReferenceManager.del_all_spec
\* (model.py:2019-2022): the specs reachable through _valid_to_refs
CloseStep(St, op) ==
    LET m == op.m
        gone == {GetSpec(St, m, x.v) : x \in SpecsOf(St, m)} IN
    Result([St EXCEPT !.open = @ \ {m}, !.mgr = SelectSeq(@, LAMBDA e : e \notin gone),
                      !.refs[m] = {}, !.v2r[m] = {}, !.sp[m] = {}, !.base[m] = FALSE], "ok")

\* write_model + read_model under another name + close of the copy:
\* IOManager.write_ios (baseio.py:274-277) writes every IO object of the
\* model's group; the copy gets one spec per spec reachable from a
\* reference; closing the copy removes its specs again.  Nothing changes.
WriteReadInfo(St, m) ==
    [rt |-> {[v |-> x.v, loc |-> x.loc, exists |-> TRUE, eq |-> TRUE, src |-> <<x.v>>,
              rd |-> <<x.v>>, refs_ok |-> TRUE] : x \in SpecsOf(St, m)},
     rspecs |-> {x.loc : x \in SpecsOf(St, m)}, orefs_ok |-> TRUE]

Step(St, op) ==
    CASE op.op = "new_spec"    -> NewSpecStep(St, op)
      [] op.op = "assign"      -> AssignStep(St, op)
      [] op.op = "del_ref"     -> DelRefStep(St, op)
      [] op.op = "update"      -> UpdateStep(St, op)
      [] op.op = "add_base"    -> AddBaseStep(St, op)
      [] op.op = "remove_base" -> RemoveBaseStep(St, op)
      [] op.op = "del_space"   -> DelSpaceStep(St, op)
      [] op.op = "close"       -> CloseStep(St, op)
      [] op.op = "write_read"  -> Result(St, "ok")

\* mxsys._check_sanity(): ModelImpl._check_sanity (model.py:941-948) asserts
\* that the value of every model-level reference is a modelx object or is
\* registered in _valid_to_refs
SanityOK(St) ==
    \A m \in St.open : \A r \in St.refs[m] :
        r.sp = "" => (IsObj(r.v) \/ \E t \in St.v2r[m] : t.v = r.v)

\* what the recorder would project from S
Obs(St, vals) ==
    [M |-> [m \in DOMAIN St.refs |->
              [open |-> m \in St.open, base |-> St.base[m], sp |-> St.sp[m],
               refs |-> St.refs[m], v2r |-> St.v2r[m], specs |-> SpecsOf(St, m),
               gs |-> IF m \in St.open
                      THEN {[v |-> v, loc |-> GetSpec(St, m, v).loc] :
                               v \in {v \in vals : HasSpec(St, m, v)}}
                      ELSE {}]],
     ios |-> St.mgr, sane |-> SanityOK(St)]

-----------------------------------------------------------------------------
(* The model: all histories over the vocabulary                            *)

AllVals == PVals \cup MVals
\* values some reference or spec still holds (a module id outside this set can
\* be given to a newly loaded module object)
LiveVals(St) == UNION {{r.v : r \in St.refs[m]} : m \in DOMAIN St.refs}
               \cup {St.mgr[i].v : i \in DOMAIN St.mgr}
Parents(St, m) == {""} \cup St.sp[m]
BadNames(sp) == IF sp = "" THEN {"A"} ELSE CellNames \cup InvalidNames

MinV(s) == CHOOSE x \in s : \A y \in s : x <= y
FreshM(St) == LET f == MVals \ LiveVals(St) IN IF f = {} THEN {} ELSE {MinV(f)}

OpsOf(St, m) ==
    {[op |-> "new_spec", m |-> m, sp |-> sp, n |-> n, loc |-> loc, kind |-> "csv", v |-> v] :
        sp \in Parents(St, m), n \in Names, loc \in CsvLocs, v \in PVals}
    \cup UNION {{[op |-> "new_spec", m |-> m, sp |-> sp, n |-> n, loc |-> loc, kind |-> "csv", v |-> v] :
                    n \in BadNames(sp), loc \in CsvLocs, v \in PVals} : sp \in Parents(St, m)}
    \cup {[op |-> "new_spec", m |-> m, sp |-> sp, n |-> n, loc |-> loc, kind |-> "module", v |-> v] :
        sp \in Parents(St, m), n \in Names, loc \in ModLocs, v \in FreshM(St)}
    \cup {[op |-> "assign", m |-> m, sp |-> sp, n |-> n, v |-> v] :
        sp \in Parents(St, m), n \in Names,
        \* (a module is only bound again where it has its spec: a model holding a
        \*  module without a spec cannot be saved, which is not C18's subject)
        v \in {0} \cup PVals \cup (MVals \cap {x.v : x \in SpecsOf(St, m)})
              \cup {o \in OVals : SpaceOf(o) \in St.sp[m]}}
    \cup {[op |-> "del_ref", m |-> m, sp |-> sp, n |-> n] : sp \in Parents(St, m), n \in Names}
    \cup {[op |-> "update", m |-> m, old |-> o, new |-> w] : o \in PVals, w \in PVals}
    \cup {[op |-> "update", m |-> m, old |-> o, new |-> w] :
        o \in {x.v : x \in SpecsOf(St, m)} \cap MVals, w \in FreshM(St)}
    \cup (IF St.base[m] THEN {[op |-> "remove_base", m |-> m]}
          ELSE IF TopSpaces \subseteq St.sp[m] THEN {[op |-> "add_base", m |-> m]} ELSE {})
    \* (a space is only deleted when no reference outside it points into it:
    \*  dangling references are not C18's subject)
    \cup (IF WithDelSpace
          THEN {[op |-> "del_space", m |-> m, sp |-> sp] :
                  sp \in {s \in St.sp[m] : ~\E r \in St.refs[m] :
                                              IsObj(r.v) /\ SpaceOf(r.v) = s /\ r.sp # s}}
          ELSE {})
    \cup {[op |-> "write_read", m |-> m], [op |-> "close", m |-> m]}

Ops(St) == UNION {OpsOf(St, m) : m \in St.open}

Init ==
    /\ S = [open |-> Models, sp |-> [m \in Models |-> IF WithChild THEN SpaceNames ELSE TopSpaces],
            base |-> [m \in Models |-> m \in BaseInit],
            refs |-> [m \in Models |-> {}], v2r |-> [m \in Models |-> {}], mgr |-> <<>>]
    /\ P = P0(Models)
    /\ lab = {}
    /\ hist = <<>>

\* (\E x \in {expr} makes TLC evaluate expr once.)  An operation that raises and
\* changes nothing leads back to the same state, which has been judged when it
\* was reached, so it is not judged again.
Do(op) ==
    \E r \in {Step(S, op)} :
    IF r.res = "rejected" /\ r.S = S
    THEN /\ S' = S /\ P' = P /\ lab' = {} /\ hist' = Append(hist, op @@ [res |-> r.res])
    ELSE
    \E e \in {IF op.op = "write_read" THEN (op @@ [res |-> r.res]) @@ WriteReadInfo(S, op.m)
               ELSE op @@ [res |-> r.res]} :
    \E pre \in {Obs(S, AllVals)} : \E post \in {Obs(r.S, AllVals)} :
    \E j \in {Judge(P, pre, e, post)} :
        /\ S' = r.S
        /\ P' = j.P
        /\ lab' = j.labels
        /\ hist' = Append(hist, op @@ [res |-> r.res])

OpenTaint == {t \in P.taint : t.k \in OpenFindings}

\* spec -> code: the history by which TLC first reached a state is printed when
\* the state is expanded, i.e. once per distinct abstract state
\* (of the states reached through a known finding only those with short histories)
Emit == (Dump /\ (OpenTaint = {} \/ Len(hist) <= 3)) => PrintT(<<"MBT", ToJson([h |-> hist, lab |-> SetToSeq(lab)])>>)

\* states reached through the situation of a finding that is still open are
\* judged (invariants) and printed for replay, but not expanded
Next == /\ Emit
        /\ OpenTaint = {}
        /\ Len(hist) < MaxOps
        /\ \E op \in Ops(S) : Do(op)

Spec == Init /\ [][Next]_vars

-----------------------------------------------------------------------------
(* Property layer as invariants: lab holds the labels the property layer   *)
(* (MxIOSpecProps.Judge) raised for the last operation.  Situations of the *)
(* known findings carry KF: labels and are checked by MC_MxIOSpec_kf.cfg.  *)
Inv_C18_SpecsEqBoundValues    == "C18.SpecsEqBoundValues" \notin lab
Inv_C18_NoOrphanSpec          == "C18.NoOrphanSpec" \notin lab
Inv_C18_LocationsUnique       == "C18.LocationsUnique" \notin lab
Inv_C18_RejectedLeavesNothing == "C18.RejectedLeavesNothing" \notin lab
Inv_C18_SanityChecks          == "C18.SanityChecks" \notin lab
Inv_C18_SavedSpecsRoundTrip   == "C18.SavedSpecsRoundTrip" \notin lab
\* repaired findings must not come back; open ones are demonstrated by MC_MxIOSpec_kf.cfg
Inv_NoRepairedFinding         == lab \cap (KFLabels \ OpenFindings) = {}
Inv_NoKnownFinding            == lab \cap KFLabels = {}

\* hist does not distinguish states: every abstract state is expanded once
\* bounded search with several workers: the depth is part of the identity, so
\* that the set of states explored does not depend on the scheduling
\* (taints of repaired findings do not distinguish states: every discrepancy
\*  carries some label and every label is an invariant)
View  == <<S, P.io, OpenTaint, lab, Len(hist)>>
\* complete (unbounded) search: the abstract state alone
ViewU == <<S, P.io, OpenTaint, lab>>

=============================================================================
