---------------------------- MODULE MxIOSpecTrace ----------------------------
(***************************************************************************)
(* Executions of the REAL modelx judged by TLC (code -> spec), and replays *)
(* of histories TLC enumerated from MxIOSpec (spec -> code) judged the     *)
(* same way.                                                               *)
(*                                                                         *)
(* A batch file is a JSON array of traces                                  *)
(*    [hdr |-> [init |-> <observation>, vals |-> <<value ids>>, ...],      *)
(*     ev  |-> << [op, m, ..., res, post |-> <observation>], ... >>]       *)
(* One TLA+ step consumes one event.  The property layer                   *)
(* (MxIOSpecProps.Judge) is evaluated on (observation before, event,       *)
(* observation after); its history variables P evolve from the operation   *)
(* ARGUMENTS.  A predicate never disables a step: violated predicates add  *)
(* <<label, event index>> to viol.                                         *)
(*                                                                         *)
(* Binding to the algorithm layer: the state S of MxIOSpec is read off the *)
(* observation before the event, MxIOSpec.Step predicts the observation    *)
(* after it; a difference is recorded as a "DRIFT.*" label -- reported as  *)
(* implementation/model agreement, never as a violation.                   *)
(***************************************************************************)
EXTENDS MxIOSpec, IOUtils, TLCExt

Traces == JsonDeserialize(IOEnv.TRACE_FILE)

VARIABLES tid, l, viol
tvars == <<S, P, lab, hist, tid, l, viol>>

Tr  == Traces[tid]
NEv == Len(Tr.ev)

\* JSON arrays -> sets
NormModel(j) == [open |-> j.open, base |-> j.base, sp |-> SeqRange(j.sp),
                 refs |-> SeqRange(j.refs), v2r |-> SeqRange(j.v2r),
                 specs |-> SeqRange(j.specs), gs |-> SeqRange(j.gs)]
NormObs(j) == [M |-> [m \in DOMAIN j.M |-> NormModel(j.M[m])], ios |-> j.ios, sane |-> j.sane]
NormEv(j) == IF j.op = "write_read"
             THEN [op |-> j.op, m |-> j.m, res |-> j.res, rt |-> SeqRange(j.rt),
                   rspecs |-> SeqRange(j.rspecs), orefs_ok |-> j.orefs_ok]
             ELSE j

\* algorithm-layer state read off an observation
SOf(O) == [open |-> OpenModels(O),
           sp   |-> [m \in DOMAIN O.M |-> O.M[m].sp],
           base |-> [m \in DOMAIN O.M |-> O.M[m].base],
           refs |-> [m \in DOMAIN O.M |-> O.M[m].refs],
           v2r  |-> [m \in DOMAIN O.M |-> O.M[m].v2r],
           mgr  |-> O.ios]

DriftLabels(pre, e, post, vals) ==
    IF e.op = "write_read" THEN
        LET w == WriteReadInfo(SOf(pre), e.m) IN
        (IF e.res = "ok" /\ w.rspecs = e.rspecs
            /\ {[v |-> y.v, loc |-> y.loc] : y \in w.rt} = {[v |-> y.v, loc |-> y.loc] : y \in e.rt}
         THEN {} ELSE {"DRIFT.write_read"})
        \cup (IF Core(pre) = Core(post) THEN {} ELSE {"DRIFT.state"})
    ELSE
    LET r == Step(SOf(pre), e)
        o == Obs(r.S, vals) IN
    (IF r.res = e.res THEN {} ELSE {"DRIFT.res"})
    \cup (IF \A m \in DOMAIN o.M : o.M[m].refs = post.M[m].refs /\ o.M[m].open = post.M[m].open
                                    /\ o.M[m].base = post.M[m].base /\ o.M[m].sp = post.M[m].sp
          THEN {} ELSE {"DRIFT.refs"})
    \cup (IF \A m \in DOMAIN o.M : o.M[m].v2r = post.M[m].v2r THEN {} ELSE {"DRIFT.v2r"})
    \cup (IF o.ios = post.ios THEN {} ELSE {"DRIFT.ios"})
    \cup (IF o.sane = post.sane THEN {} ELSE {"DRIFT.sane"})
    \cup (IF \A m \in DOMAIN o.M : o.M[m].specs = post.M[m].specs /\ o.M[m].gs = post.M[m].gs
          THEN {} ELSE {"DRIFT.specs"})

TInit ==
    /\ tid \in 1..Len(Traces)
    /\ l = 1
    /\ S = SOf(NormObs(Traces[tid].hdr.init))
    /\ P = P0(DOMAIN Traces[tid].hdr.init.M)
    /\ lab = {} /\ hist = <<>>
    /\ viol = {}
    /\ TLCSet(tid, <<0, {}>>)

TNext ==
    /\ l <= NEv
    /\ \E pre \in {NormObs(IF l = 1 THEN Tr.hdr.init ELSE Tr.ev[l - 1].post)} :
       \E post \in {NormObs(Tr.ev[l].post)} :
       \E e \in {NormEv(Tr.ev[l])} :
       \E j \in {Judge(P, pre, e, post)} :
       \E d \in {DriftLabels(pre, e, post, SeqRange(Tr.hdr.vals))} :
          LET known == {x[1] : x \in viol} IN
          /\ viol' = viol \cup {<<x, l>> : x \in (j.labels \cup d) \ known}
          /\ P' = j.P
          /\ S' = SOf(post)
          /\ lab' = j.labels
    /\ l' = l + 1
    /\ tid' = tid
    /\ hist' = hist

TSpec == TInit /\ [][TNext]_tvars

Progress == IF l - 1 >= TLCGet(tid)[1] THEN TLCSet(tid, <<l - 1, viol>>) ELSE TRUE

Verdicts ==
    \A t \in 1..Len(Traces) :
        PrintT(<<"VERDICT", t, TLCGet(t)[1], Len(Traces[t].ev), TLCGet(t)[2]>>)
=============================================================================
