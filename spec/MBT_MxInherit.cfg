CONSTANTS
  MaxOps = 2
  Dump = TRUE
INIT Init
NEXT Next
CONSTRAINT Bound
CHECK_DEADLOCK FALSE
