CONSTANTS
  MaxOps = 3
  MaxModels = 3
  Dump = TRUE
  BaseNames = {"A", "B", "A_BAK1"}
  BadNames = {"1x"}
  NFiles = 2
  EditKinds = {"defs", "value"}
  Linking = TRUE
  StaleOps = FALSE
INIT Init
NEXT Next
VIEW View
CONSTRAINT Bound
INVARIANT Inv_C19_NamesUniqueAndCurrent
INVARIANT Inv_C19_HandlesFollow
INVARIANT Inv_C19_NoModelDropped
INVARIANT Inv_C19_CloseRemovesExactlyOne
INVARIANT Inv_C19_Isolation
INVARIANT Inv_Algo_NoPanic
CHECK_DEADLOCK FALSE
