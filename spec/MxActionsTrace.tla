--------------------------- MODULE MxActionsTrace ---------------------------
(***************************************************************************)
(* C16, code -> spec: executions of the REAL Model.generate_actions /      *)
(* Model.execute_actions judged by TLC.                                    *)
(*                                                                         *)
(* A batch file holds many recorded cases.  Each is                        *)
(*   [hdr |-> [n, deps, targets, step, inputs, ...],                       *)
(*    ev  |-> << generate event, execute event >>]                         *)
(*   generate: actions (the list modelx returned: kind + node ids),        *)
(*             post.held (<<node, value>> pairs), post.inputs              *)
(*   execute : post.held, post.inputs, execs (<<node, number of times its  *)
(*             formula ran during execute_actions>>, from sys.monitoring)  *)
(* One TLA+ step consumes one event and evaluates the C16 predicates of    *)
(* MxActionsBase (part 1) on what was recorded; the oracle Direct is       *)
(* computed here from the header only.  Predicates never disable a step.   *)
(* Two further labels are NOT violations (DRIFT: the code disagrees with   *)
(* the algorithm layer although no property is broken):                    *)
(*   DRIFT.PlanDiffers : the action list is not Plan(..) of get_calcsteps  *)
(*                       for the order modelx used (= its calc lists)      *)
(*   DRIFT.ExecDiffers : the recorded final cache / execution counts are   *)
(*                       not what the Exec* micro-operations give          *)
(***************************************************************************)
EXTENDS MxActionsBase, TLC, TLCExt, Json, IOUtils

Traces == JsonDeserialize(IOEnv.TRACE_FILE)

VARIABLES tid, l, viol
tvars == <<tid, l, viol>>

Tr   == Traces[tid]
Hdr  == Tr.hdr
NEv  == Len(Tr.ev)
Ev   == Tr.ev[l]

Nodes == 1..Hdr.n
Deps  == [i \in Nodes |-> Range(Hdr.deps[i])]
Inv0  == PairsToFun(Hdr.inputs)
TS    == Range(Hdr.targets)

ValL(e) == PairsToFun(e.post.held)
InpL(e) == Range(e.post.inputs)
CntL(e) == [m \in Nodes |-> IF m \in {p[1] : p \in Range(e.execs)}
                            THEN PairsToFun(e.execs)[m] ELSE 0]

Label(cond, name) == IF cond THEN {} ELSE {name}

GenerateLabels(e) ==
    LET usedOrd == CalcSeq(e.actions)
        calcT   == TS \ DOMAIN Inv0 IN
    Label(P_GenerateLeavesNothing(Inv0, ValL(e), InpL(e)), "C16.GenerateLeavesNothing")
    \cup Label(P_EachDepOnceAfterPreds(Deps, Inv0, TS, e.actions), "C16.EachDepOnceAfterPreds")
    \cup Label(e.actions = Plan(Deps, calcT, Hdr.step, usedOrd), "DRIFT.PlanDiffers")

ExecuteLabels(e) ==
    LET acts  == Tr.ev[1].actions
        final == RunProg(Deps, NewCache(Nodes, Inv0), Prog(acts)) IN
    Label(P_TargetsHoldDirectValues(Deps, Inv0, TS, ValL(e)), "C16.TargetsHoldDirectValues")
    \cup Label(P_NothingElseLeft(Inv0, TS, ValL(e), InpL(e)), "C16.NothingElseLeft")
    \cup Label(P_NoRecompute(CntL(e)), "C16.NoRecompute")
    \cup Label(/\ DOMAIN final.val = DOMAIN ValL(e)
               /\ \A m \in DOMAIN final.val : final.val[m] = ValL(e)[m]
               /\ final.inp = InpL(e)
               /\ final.cnt = CntL(e), "DRIFT.ExecDiffers")

\* machinery cross-check (not a property): where the driver also ran a real direct
\* evaluation, the oracle must agree with it
OracleLabels ==
    IF "directvals" \in DOMAIN Hdr
    THEN Label(\A p \in Range(Hdr.directvals) : Direct(Deps, Inv0, p[1]) = p[2],
               "MACH.OracleMismatch")
    ELSE {}

Labels(e) ==
    CASE e.op = "generate" -> GenerateLabels(e) \cup OracleLabels
      [] e.op = "execute"  -> ExecuteLabels(e)

TInit ==
    /\ tid \in 1..Len(Traces)
    /\ l = 1
    /\ viol = {}
    /\ TLCSet(tid, <<0, {}>>)

TNext ==
    /\ l <= NEv
    /\ LET new   == Labels(Ev)
           known == {v[1] : v \in viol} IN
       viol' = viol \cup {<<x, l>> : x \in new \ known}
    /\ l' = l + 1
    /\ tid' = tid

TSpec == TInit /\ [][TNext]_tvars

Progress == IF l - 1 >= TLCGet(tid)[1] THEN TLCSet(tid, <<l - 1, viol>>) ELSE TRUE

Verdicts ==
    \A t \in 1..Len(Traces) :
        PrintT(<<"VERDICT", t, TLCGet(t)[1], Len(Traces[t].ev), TLCGet(t)[2]>>)
=============================================================================
