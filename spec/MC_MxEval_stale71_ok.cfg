\* The same instance with the repaired mechanism: no invariant fails.
CONSTANTS
  MaxOps = 4
  MaxDepthC = 0
  Pattern = "any"
  Dump = FALSE
INIT Init
NEXT Next
CONSTRAINT Bound
INVARIANT Inv_C06_Inputs
INVARIANT Inv_C02_NoStale
INVARIANT Inv_C08_GraphEqCache
PROPERTY ExactDiscard
PROPERTY InputsKept
CHECK_DEADLOCK FALSE
