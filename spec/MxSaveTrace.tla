---------------------------- MODULE MxSaveTrace ----------------------------
(***************************************************************************)
(* C14 -- executions of the REAL modelx judged by TLC (code -> spec, and   *)
(* the replays of TLC-enumerated histories).                               *)
(*                                                                         *)
(* A batch file holds many recorded scenarios.  Each is                    *)
(*   [hdr |-> [model, fps (fingerprint of generation g at fps[g]), ...],   *)
(*    ev  |-> << attempt, ... >>]                                          *)
(* attempt (save): fmt, bk, gen, fault (index of the audited operation     *)
(*   that was made to fail, 0 = none), fired, raised, ops (the audited     *)
(*   operations <<event, target, target2/mode>>), post (the four slots     *)
(*   <path>, _BAK1.._BAK3 classified by READING THEM BACK: p, kind, r,     *)
(*   gen, fp, cid), nbak, flags, reg0, reg.                                *)
(* attempt (load): slot, fault, fired, raised, got, flags, reg0, reg, name *)
(*                                                                         *)
(* One TLA+ step consumes one attempt.  The predicates of MxSaveProps are  *)
(* evaluated on (slots before, attempt, slots after); they never disable a *)
(* step: a scenario is consumed to its end and every predicate that failed *)
(* is reported with the first attempt at which it failed.                  *)
(*                                                                         *)
(* Labels "DRIFT:..." compare the observation with the ALGORITHM layer     *)
(* (MxSave / MxSaveProps.RotOps, Outcomes); they are never verdicts.       *)
(* Labels "KF:..." classify the two known ways in which the zip path       *)
(* swallows a failure (see MxSave.ZipReopenTruncates / ZipArchiveSkips).   *)
(***************************************************************************)
EXTENDS MxSaveProps, Json, IOUtils, TLC, TLCExt

Traces == JsonDeserialize(IOEnv.TRACE_FILE)

VARIABLES tid,       \* which scenario of the batch
          l,         \* next attempt to consume
          fs,        \* slots after the previous attempt
          lastGood,  \* generation of the most recent copy that was observed complete at <path>
          taint,     \* {<<content id, KF label>>}: archives left incomplete by a swallowed failure
          viol       \* {<<label, attempt index>>}
tvars == <<tid, l, fs, lastGood, taint, viol>>

Tr  == Traces[tid]
NEv == Len(Tr.ev)
Fps == Tr.hdr.fps
Range(s) == {s[i] : i \in DOMAIN s}

\* a slot record as observed -> abstract slot; COMPLETE = it reads back and everything in it
\* equals what was saved as that generation
Slot(r) == [p    |-> r.p,
            ok   |-> r.p /\ r.r /\ r.gen \in 1..Len(Fps) /\ r.fp = Fps[r.gen],
            gen  |-> IF r.p /\ r.r THEN r.gen ELSE 0,
            kind |-> r.kind]
FsOf(post)  == [n \in SlotIx |-> Slot(post[n + 1])]
CidOf(post) == [n \in SlotIx |-> post[n + 1].cid]

-----------------------------------------------------------------------------
(* what the code did to the slots, as seen by the audit hook                *)
SlotNo(a) == CASE a = "path" -> 0 [] a = "bak1" -> 1 [] a = "bak2" -> 2 [] a = "bak3" -> 3 [] OTHER -> -1
IsSlotOp(o) == /\ o[1] \in {"os.rename", "shutil.rmtree", "os.remove"} /\ SlotNo(o[2]) >= 0
               /\ (o[1] = "os.rename" => SlotNo(o[3]) >= 0)
AsRot(o) == IF o[1] = "os.rename" THEN [k |-> "rename", a |-> SlotNo(o[2]), b |-> SlotNo(o[3])]
            ELSE [k |-> "delete", a |-> SlotNo(o[2]), b |-> SlotNo(o[2])]
ObsRot(e) == LET so == SelectSeq(e.ops, IsSlotOp) IN [i \in 1..Len(so) |-> AsRot(so[i])]
IsPrefix(s, t) == Len(s) <= Len(t) /\ SubSeq(t, 1, Len(s)) = s

-----------------------------------------------------------------------------
SaveLabels(e) ==
    LET post   == FsOf(e.post)
        cid    == CidOf(e.post)
        lg2    == IF Good(post[0], e.gen) THEN e.gen ELSE lastGood
        fop    == IF e.fired > 0 THEN e.ops[e.fired] ELSE <<"none", "none", "">>
        swallowed == e.fired > 0 /\ ~e.raised
        partialAtPath == post[0].p /\ post[0].kind # "dir" /\ ~post[0].ok
        \* the two known findings, each described by the exact failing operation
        kfTrunc == e.fmt = "zip" /\ swallowed /\ partialAtPath /\ fop = <<"open", "tmp:arc", "r+">>
        kfWalk  == e.fmt = "zip" /\ swallowed /\ partialAtPath /\ fop[1] = "os.scandir" /\ fop[2] = "tmp"
        taint2 == taint \cup (IF kfTrunc THEN {<<cid[0], "KF:C14.zip-append-reopen-truncates">>} ELSE {})
                        \cup (IF kfWalk  THEN {<<cid[0], "KF:C14.zip-archive-listing-error-ignored">>} ELSE {})
        KfOf(n) == {t[2] : t \in {u \in taint2 : u[1] = cid[n]}}
        badzip == {n \in SlotIx : post[n].p /\ post[n].kind # "dir" /\ ~post[n].ok}
        unsafe == e.bk /\ Safe(fs, lastGood) /\ ~Safe(post, lg2)
        drift  ==
            (IF AbsFs(post) \in {AbsFs(o) : o \in Outcomes(fs, e.fmt, e.bk, e.gen, TRUE, kfTrunc \/ kfWalk)}
             THEN {} ELSE {"DRIFT:Outcome"})
            \cup (IF IsPrefix(RotOps(fs, e.bk), ObsRot(e))
                     \/ (e.fired > 0 /\ IsPrefix(ObsRot(e), RotOps(fs, e.bk)))
                  THEN {} ELSE {"DRIFT:Rotation"})
    IN
    [ labels |->
        \* C14.NoPartialZip
        UNION {IF KfOf(n) # {} THEN KfOf(n) ELSE {"C14.NoPartialZip"} : n \in badzip}
        \* C14.LastGoodSafe (the copy that pushed the good one away is a known-finding archive?)
        \cup (IF ~unsafe THEN {}
              ELSE IF \E n \in {0, 1} : n \in badzip /\ KfOf(n) # {}
                   THEN UNION {KfOf(n) : n \in {0, 1} \cap badzip}
                   ELSE {"C14.LastGoodSafe"})
        \cup (IF Ordered(post) /\ e.nbak <= MaxBak THEN {} ELSE {"C14.GenerationsOrdered"})
        \cup (IF e.bk /\ ~Kept(fs, post) THEN {"C14.GenerationsKept"} ELSE {})
        \cup (IF e.flags # 0 \/ (e.fault = 0 /\ (e.raised \/ ~Good(post[0], e.gen)))
              THEN {"C14.SessionUsable"} ELSE {})
        \cup drift,
      fs |-> post, lg |-> lg2, taint |-> taint2 ]

LoadLabels(e) ==
    LET s == fs[e.slot] IN
    [ labels |->
        (IF e.raised /\ Range(e.reg) # Range(e.reg0) THEN {"C14.NoHalfLoadedModel"} ELSE {})
        \cup (IF e.flags # 0
                 \/ (e.fault = 0 /\ s.ok /\
                       (\/ e.raised \/ e.got.gen # s.gen \/ e.got.fp # Fps[s.gen]
                        \/ Range(e.reg) # Range(e.reg0) \cup {e.name}))
              THEN {"C14.SessionUsable"} ELSE {})
        \* the model says: a complete copy loads unless an operation fails, an incomplete one never
        \cup (IF (~e.raised /\ ~s.ok) \/ (e.fired = 0 /\ e.raised /\ s.ok)
              THEN {"DRIFT:Load"} ELSE {}),
      fs |-> fs, lg |-> lastGood, taint |-> taint ]

-----------------------------------------------------------------------------
TInit ==
    /\ tid \in 1..Len(Traces)
    /\ l = 1
    /\ fs = AllAbsent /\ lastGood = 0 /\ taint = {} /\ viol = {}
    /\ TLCSet(tid, <<0, {}>>)

TNext ==
    /\ l <= NEv
    /\ LET e == Tr.ev[l]
           r == IF e.op = "save" THEN SaveLabels(e) ELSE LoadLabels(e)
           known == {v[1] : v \in viol} IN
       /\ viol' = viol \cup {<<x, l>> : x \in r.labels \ known}
       /\ fs' = r.fs /\ lastGood' = r.lg /\ taint' = r.taint
    /\ l' = l + 1
    /\ tid' = tid

TSpec == TInit /\ [][TNext]_tvars

Progress == IF l - 1 >= TLCGet(tid)[1] THEN TLCSet(tid, <<l - 1, viol>>) ELSE TRUE

Verdicts ==
    \A t \in 1..Len(Traces) :
        PrintT(<<"VERDICT", t, TLCGet(t)[1], Len(Traces[t].ev), TLCGet(t)[2]>>)
=============================================================================
