--------------------------- MODULE MxFormulaTrace ---------------------------
(***************************************************************************)
(* C20, code -> spec: executions of the REAL modelx judged by TLC.         *)
(*                                                                         *)
(* A batch file holds many recorded cases.  Each is                        *)
(*   [hdr |-> [lay, via, cname, eofnl, origvals],                          *)
(*    ev  |-> << [op, arg |-> [name, k, ii, g], obs] ... >>]               *)
(* where obs is the observation of the cells after the operation (for      *)
(* "recreate": of the cells created from formula.source), in the shape     *)
(* described in MxFormulaBase part 4.                                      *)
(* One TLA+ step consumes one event:                                       *)
(*   - the C20 predicates (MxFormulaBase part 4/5, OpLabels) are evaluated *)
(*     on the observations: a false one adds its label "C20.<Name>" (or    *)
(*     the label of the known finding whose situation it is);              *)
(*   - the algorithm layer (MxFormulaBase part 3: CaptureFn, RecreateFn,   *)
(*     RenameFn, SetDocFn) computes what the code as modelled produces;    *)
(*     a difference is DRIFT.<op>, never a violation;                      *)
(*   - MACH.OracleMismatch: the TLA+ meaning of the layout differs from    *)
(*     the text executed by Python alone (a fault of the rendering, not    *)
(*     of modelx).                                                         *)
(* Predicates never disable a step.                                        *)
(***************************************************************************)
EXTENDS MxFormulaBase, TLCExt, Json, IOUtils

Traces == JsonDeserialize(IOEnv.TRACE_FILE)

VARIABLES tid, l, viol,
          cur,     \* the abstract formula the algorithm layer predicts
          pobs,    \* the last observation of the cells itself
          cn, g    \* the name the cells must have, the value of G

tvars == <<tid, l, viol, cur, pobs, cn, g>>

Tr  == Traces[tid]
Hdr == Tr.hdr
NEv == Len(Tr.ev)
Ev  == Tr.ev[l]

TInit ==
    /\ tid \in 1..Len(Traces)
    /\ l = 1
    /\ viol = {}
    /\ cur = Rejected("")
    /\ pobs = ProjectRejected("")
    /\ cn = Traces[tid].hdr.cname
    /\ g = 7
    /\ TLCSet(tid, <<0, {}>>)

\* what the algorithm layer makes of the event
ModelResult(lay, T0, e) ==
    CASE e.op = "capture"  -> CaptureFn(lay, T0, Hdr.cname)
      [] ~cur.ok           -> cur           \* the model lost track earlier (DRIFT was reported)
      [] e.op = "recreate" -> RecreateFn(cur)
      [] e.op = "rename"   -> RenameFn(cur, e.arg.name)
      [] e.op = "setdoc"   -> IF ~cur.islam /\ IsOne(cur.lines) /\ NewDocLen(e.arg.k) > 1
                              THEN Rejected("unmodelled") ELSE SetDocFn(cur, e.arg.k, e.arg.ii)
      [] e.op = "setref"   -> cur

TNext ==
    /\ l <= NEv
    /\ LET e   == Ev
           o   == e.obs
           lay == Hdr.lay
           T0  == Text(lay)
           g2  == IF e.op = "setref" THEN e.arg.g ELSE g
           cn2 == IF e.op = "rename" /\ o.ok THEN e.arg.name ELSE cn
           r   == ModelResult(lay, T0, e)
           c2  == CASE e.op = "capture" -> r
                    [] e.op \in {"recreate", "setref"} -> cur
                    [] OTHER -> KeepOld(cur, r)
           m   == IF r.ok THEN Project(lay, r, g2)
                  ELSE IF e.op = "capture" \/ e.op = "recreate" THEN ProjectRejected(r.err)
                  ELSE [Project(lay, cur, g2) EXCEPT !.ok = FALSE, !.err = r.err]
           new == OpLabels(lay, T0, e.op, e.arg, cn2, g2, pobs, o)
                  \cup (IF SameAsModel(m, o) THEN {} ELSE {"DRIFT." \o e.op})
                  \* the documentation string of the captured cells is the function's own,
                  \* character by character (white space inside the literal included)
                  \cup (IF e.op = "capture" /\ o.ok /\ "docsame" \in DOMAIN o /\ ~o.docsame
                        THEN {"C20.BehavesLikeFunction"} ELSE {})
                  \cup (IF e.op = "capture" /\ Hdr.origvals # ValsOf(lay, T0, 7)
                        THEN {"MACH.OracleMismatch"} ELSE {})
           known == {v[1] : v \in viol}
       IN /\ viol' = viol \cup {<<x, l>> : x \in new \ known}
          /\ cur' = c2
          /\ pobs' = IF e.op = "recreate" THEN pobs ELSE o
          /\ cn' = cn2
          /\ g' = g2
    /\ l' = l + 1
    /\ tid' = tid

TSpec == TInit /\ [][TNext]_tvars

Progress == IF l - 1 >= TLCGet(tid)[1] THEN TLCSet(tid, <<l - 1, viol>>) ELSE TRUE

Verdicts ==
    \A t \in 1..Len(Traces) :
        PrintT(<<"VERDICT", t, TLCGet(t)[1], Len(Traces[t].ev), TLCGet(t)[2]>>)
=============================================================================
