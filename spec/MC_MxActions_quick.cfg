CONSTANTS
  MaxN = 4
  AllOrders = TRUE
  WithInputs = FALSE
  Dump = FALSE
INIT Init
NEXT Next
INVARIANT Inv_C16_TargetsHoldDirectValues
INVARIANT Inv_C16_NothingElseLeft
INVARIANT Inv_C16_NoRecompute
INVARIANT Inv_C16_EachDepOnceAfterPreds
INVARIANT Inv_C16_GenerateLeavesNothing
INVARIANT Inv_AssertNotPasted
INVARIANT Inv_OrdOrdersTraced
INVARIANT Inv_GraphEqCache
INVARIANT Inv_ValuesAreDirect
CHECK_DEADLOCK FALSE
