CONSTANTS
  MaxOps = 9
  Keys = {0, 1}
  Dump = TRUE
INIT Init
NEXT Next
CONSTRAINT Bound
CHECK_DEADLOCK FALSE
