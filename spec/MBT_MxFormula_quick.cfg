CONSTANTS
  SampleMod = 30
  MaxOps = 8
  Scripted = TRUE
  ExcuseKF = FALSE
  Dump = TRUE
INIT Init
NEXT Next
CONSTRAINT DumpCase
INVARIANT Inv_C20_Accepted
INVARIANT Inv_C20_NoDecoratorLeft
INVARIANT Inv_C20_NameIsCellsName
INVARIANT Inv_C20_BodyUntouched
INVARIANT Inv_C20_SelfContained
INVARIANT Inv_C20_BehavesLikeFunction
INVARIANT Inv_C20_ParamsKept
INVARIANT Inv_C20_Idempotent
INVARIANT Inv_C20_RenameInert
INVARIANT Inv_C20_DocInert
INVARIANT Inv_NoKnownFinding
INVARIANT Inv_StepsEqFunction
CHECK_DEADLOCK FALSE
