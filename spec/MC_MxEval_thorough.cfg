CONSTANTS
  MaxOps = 3
  MaxDepthC = 0
  Pattern = "any"
  Dump = FALSE
INIT Init
NEXT Next
CONSTRAINT Bound
INVARIANT Inv_C02_NoStale
INVARIANT Inv_C08_GraphEqCache
INVARIANT Inv_C08_Acyclic
INVARIANT Inv_C08_Preds
INVARIANT Inv_C09_Uncached
INVARIANT Inv_C05_Idle
INVARIANT Inv_C06_Inputs
INVARIANT Inv_C01_C05_Call
INVARIANT Inv_C17_Traceback
PROPERTY ExactDiscard
PROPERTY InputsKept
CHECK_DEADLOCK FALSE
