------------------------------- MODULE MxSem -------------------------------
(***************************************************************************)
(* Property layer, part 1: the MEANING of a modelx model.                  *)
(*                                                                         *)
(* Everything here is a pure function of a definitions record D.  Nothing  *)
(* looks at caches, dependency graphs, flags of freshness or history: this *)
(* is the "model to which only the edits were applied" of C02, the         *)
(* "uncached evaluation" of C01/C09, the "derivation from scratch" of C03. *)
(*                                                                         *)
(* D == [ sp    : set of static space paths (a path is a Seq of names)     *)
(*      , bases : [path -> Seq(path)]      direct bases, in order          *)
(*      , cells : [path -> [name -> CellRec]]    DEFINED cells only        *)
(*      , refs  : [path -> [name -> RefRec]]     DEFINED references only   *)
(*      , grefs : [name -> RefRec]               model-level references    *)
(*      , pf    : [path -> formula id]   parameter formulas (DOMAIN <= sp) *)
(*      , flib  : [formula id -> FormulaRec]                               *)
(*      , inp   : [Node -> Int]          values assigned by the user       *)
(*      , an    : BOOLEAN  model allow_none ; span : [path -> 0|1|2] ]     *)
(* CellRec    == [f : formula id (key of D.flib), cached : BOOLEAN, an : 0|1|2]            *)
(*               (0 = unset/inherit, 1 = False, 2 = True)                  *)
(* FormulaRec == [ps : Seq(<<name, hasDefault, default>>), ops : Seq(Op),  *)
(*                catch : BOOLEAN, onerr : Int]                            *)
(* RefRec     == [v : Obj, mode : "auto"|"absolute"|"relative"]            *)
(* Obj        == <<tag, a, steps, name>>                                   *)
(*      <<"int", n, <<>>, "">>  <<"sp", path, steps, "">>                  *)
(*      <<"ce", path, steps, cellsname>>   <<"mo", <<>>, <<>>, "">>        *)
(*      <<"no", <<>>, <<>>, "">> (name not resolvable)                     *)
(* Node       == <<path, steps, cellsname, key>>     key : Seq(Int)        *)
(* Ctx        == <<path, steps>>   steps = <<>> for a static space; a step *)
(*               is <<"i", "", key>> (ItemSpace) or <<"c", name, <<>>>>    *)
(* Op  == <<"const", v>> | <<"call", namepath, args, spelling>>            *)
(*      | <<"read", namepath>> | <<"raise", e>> | <<"none">>               *)
(*      | <<"raiseif", k, e>>   (raise e when the first argument is k)      *)
(* arg == <<"k", i>> | <<"dec", i>> (call skipped when key[i] <= 0)        *)
(*      | <<"c", v>>                                                       *)
(***************************************************************************)
EXTENDS Integers, Sequences, FiniteSets, TLC

NoneV       == -2             \* the value None
RetNoneMark == -3             \* internal: formula executed `return None`
ErrRaise(e) == -(10 + e)      \* raise ValueError("E<e>"), e \in 0..15
ErrNone     == -30            \* NoneReturnedError
ErrDeep     == -31            \* DeepReferenceError
ErrName     == -32            \* NameError / AttributeError
ErrType     == -33            \* TypeError (wrong kind of object, bad arity)
ErrDeleted  == -34            \* DeletedObjectError (a reference to a deleted object was used)
IsErr(v)    == v <= -10
\* raise ops 8..15 raise a BaseException that is not an Exception (GeneratorExit):
\* `except Exception` handlers inside formulas do not catch those
Catchable(v) == IsErr(v) /\ ~(v <= -18 /\ v >= -25)
NoneContrib == 7              \* what a None callee adds to its caller's sum
Fail        == <<>>          \* "no result" for operators whose results are non-empty sequences
MFail       == <<<<>>>>      \* Merge failure (a sequence holding the empty path)

Range(s)   == {s[i] : i \in DOMAIN s}
Last(s)    == s[Len(s)]
Front(s)   == SubSeq(s, 1, Len(s) - 1)
MinOf(S)   == CHOOSE x \in S : \A y \in S : x <= y
PairsToFun(ps) == [k \in {p[1] : p \in Range(ps)} |->
                      (CHOOSE p \in Range(ps) : p[1] = k)[2]]
Upd(f, k, v)   == [x \in DOMAIN f \cup {k} |-> IF x = k THEN v ELSE f[x]]
Drop(f, ks)    == [x \in DOMAIN f \ ks |-> f[x]]

ModelObj   == <<"mo", <<>>, <<>>, "">>
NoObj      == <<"no", <<>>, <<>>, "">>
DeadObj    == <<"dead", <<>>, <<>>, "sp">>   \* handle of a deleted space
DeadCe     == <<"dead", <<>>, <<>>, "ce">>   \* handle of a deleted cells
IsDead(v)  == v[1] = "dead"
IntObj(n)  == <<"int", n, <<>>, "">>
SpObj(p, st) == <<"sp", p, st, "">>
CeObj(p, st, c) == <<"ce", p, st, c>>

-----------------------------------------------------------------------------
(* C3 linearisation, transcribed from the definition (not from the code).  *)

InTail(x, q) == \E i \in 2..Len(q) : q[i] = x

RECURSIVE Merge(_, _)
Merge(seqs, acc) ==
    LET ne == SelectSeq(seqs, LAMBDA q : Len(q) > 0) IN
    IF Len(ne) = 0 THEN acc
    ELSE LET good == {i \in 1..Len(ne) :
                        \A j \in 1..Len(ne) : ~InTail(ne[i][1], ne[j])} IN
         IF good = {} THEN MFail
         ELSE LET c == ne[MinOf(good)][1] IN
              Merge([j \in 1..Len(ne) |->
                        IF ne[j][1] = c THEN Tail(ne[j]) ELSE ne[j]],
                    Append(acc, c))   \* (MFail propagates: it is returned as is)

RECURSIVE C3R(_, _, _)
\* path = spaces on the current chain of the recursion (a cycle yields Fail)
C3R(D, s, path) ==
    IF s \in path \/ s \notin DOMAIN D.bases THEN Fail
    ELSE
    LET bs   == D.bases[s]
        sub  == [i \in 1..Len(bs) |-> C3R(D, bs[i], path \cup {s})] IN
    IF \E i \in 1..Len(bs) : sub[i] = Fail THEN Fail
    ELSE LET m == Merge(sub \o <<bs>>, <<>>) IN
         IF m = MFail THEN Fail ELSE <<s>> \o m
C3(D, s) == C3R(D, s, {})

\* ancestors through the base relation (for acyclicity)
RECURSIVE BaseClosure(_, _, _)
BaseClosure(D, front, seen) ==
    LET nxt == UNION {Range(D.bases[s]) : s \in front \cap DOMAIN D.bases} \ seen IN
    IF nxt = {} THEN seen ELSE BaseClosure(D, nxt, seen \cup nxt)
AllBases(D, s) == BaseClosure(D, {s}, {})
Acyclic(D)     == \A s \in D.sp : s \notin AllBases(D, s)
WellFormed(D)  == /\ Acyclic(D)
                  /\ \A s \in D.sp : Range(D.bases[s]) \subseteq D.sp /\ C3(D, s) # Fail

-----------------------------------------------------------------------------
(* Effective (defined + derived) members of a static space: C03's          *)
(* "derivation from scratch".  kind \in {"cells", "refs"}.                 *)

ENames(D, s, kind) ==
    LET m == C3(D, s) IN UNION {DOMAIN D[kind][m[i]] : i \in 1..Len(m)}
Definer(D, s, kind, n) ==
    LET m == C3(D, s) IN m[MinOf({i \in 1..Len(m) : n \in DOMAIN D[kind][m[i]]})]
EMember(D, s, kind, n) == D[kind][Definer(D, s, kind, n)][n]
IsDerived(D, s, kind, n) == n \notin DOMAIN D[kind][s]

Children(D, s) == {t \in D.sp : Len(t) = Len(s) + 1 /\ SubSeq(t, 1, Len(s)) = s}
ChildNames(D, s) == {Last(t) : t \in Children(D, s)}
IsPrefix(p, q) == Len(p) <= Len(q) /\ SubSeq(q, 1, Len(p)) = p
Subtree(D, s)  == {t \in D.sp : IsPrefix(s, t)}

\* does an object value still denote an existing (static) object?
ObjAlive(D, v) ==
    CASE v[1] = "sp" -> (v[3] = <<>> => v[2] \in D.sp)
      [] v[1] = "ce" -> (v[3] = <<>> => (v[2] \in D.sp /\ v[4] \in ENames(D, v[2], "cells")))
      [] OTHER -> TRUE
Normal(D, v) == IF ObjAlive(D, v) THEN v ELSE IF v[1] = "ce" THEN DeadCe ELSE DeadObj
\* after a structural edit, references to objects that no longer exist hold dead handles
KillDangling(D) ==
    [D EXCEPT !.refs  = [s \in DOMAIN @ |-> [n \in DOMAIN @[s] |-> [@[s][n] EXCEPT !.v = Normal(D, @)]]],
              !.grefs = [n \in DOMAIN @ |-> [@[n] EXCEPT !.v = Normal(D, @)]]]

-----------------------------------------------------------------------------
(* Relative re-binding of an object-valued reference that space `sub`      *)
(* derives from `base` (C10).  Mirrors the documented rule: a target       *)
(* inside the tree of the base (or, when sub and base share trailing       *)
(* names, of the corresponding ancestors) maps to the same relative        *)
(* position under sub; anything else stays absolute.                       *)

RECURSIVE SharedTail(_, _)
SharedTail(a, b) ==           \* longest common suffix of two paths
    IF Len(a) = 0 \/ Len(b) = 0 \/ Last(a) # Last(b) THEN <<>>
    ELSE Append(SharedTail(Front(a), Front(b)), Last(a))

RECURSIVE RelRoots(_, _, _, _)
\* walk down from the roots obtained by stripping the shared tail until the
\* base root is an ancestor-by-inheritance of the sub root
RelRoots(D, subroot, basroot, tail) ==
    IF subroot \in D.sp /\ basroot \in Range(C3(D, subroot)) THEN <<subroot, basroot>>
    ELSE IF Len(tail) = 0 THEN Fail
    ELSE RelRoots(D, Append(subroot, tail[1]), Append(basroot, tail[1]), Tail(tail))

\* path of the object the derived reference denotes, or Fail when the target
\* is outside (reference stays absolute)
RelTarget(D, sub, base, tgt) ==
    LET st == SharedTail(sub, base)
        k  == Len(st)
        rr == RelRoots(D, SubSeq(sub, 1, Len(sub) - k),
                          SubSeq(base, 1, Len(base) - k), st) IN
    IF rr = Fail THEN Fail
    ELSE IF IsPrefix(rr[2], tgt)
         THEN rr[1] \o SubSeq(tgt, Len(rr[2]) + 1, Len(tgt))
         ELSE Fail

\* Effective value of reference n in static space s (object), after rebinding
ERefVal(D, s, n) ==
    LET b  == Definer(D, s, "refs", n)
        r  == D.refs[b][n]
        v  == r.v IN
    IF b = s \/ v[1] \notin {"sp", "ce"} \/ r.mode = "absolute" THEN v
    ELSE LET full == IF v[1] = "ce" THEN Append(v[2], v[4]) ELSE v[2]
             rt   == RelTarget(D, s, b, full) IN
         IF rt = Fail THEN v
         ELSE IF v[1] = "ce" THEN Normal(D, CeObj(Front(rt), <<>>, Last(rt)))
              ELSE Normal(D, SpObj(rt, <<>>))

-----------------------------------------------------------------------------
(* Contexts: static and dynamic spaces.                                    *)

\* the space whose members an ItemSpace of p replicates: p itself, or the space the
\* parameter formula names ({"base": <space>})
PfBase(D, p) ==
    IF p \in DOMAIN D.pf /\ "base" \in DOMAIN D.flib[D.pf[p]] THEN D.flib[D.pf[p]].base ELSE p

RECURSIVE BaseOf(_, _, _)
\* static space whose members the (possibly dynamic) space <<p, steps>> replicates
BaseOf(D, p, steps) ==
    IF Len(steps) = 0 THEN p
    ELSE LET st == steps[1] IN
         IF st[1] = "i" THEN BaseOf(D, PfBase(D, p), Tail(steps))
         ELSE BaseOf(D, Append(p, st[2]), Tail(steps))

CtxBase(D, ctx) == BaseOf(D, ctx[1], ctx[2])
RECURSIVE StepsOK(_, _, _)
StepsOK(D, p, steps) ==
    IF Len(steps) = 0 THEN p \in D.sp
    ELSE IF steps[1][1] = "i"
         THEN /\ p \in D.sp /\ p \in DOMAIN D.pf
              /\ Len(steps[1][3]) = Len(D.flib[D.pf[p]].ps)
              /\ StepsOK(D, PfBase(D, p), Tail(steps))
         ELSE StepsOK(D, Append(p, steps[1][2]), Tail(steps))
CtxExists(D, ctx) == StepsOK(D, ctx[1], ctx[2])

\* arguments visible in a dynamic context, nearest ItemSpace first
RECURSIVE ArgOf(_, _, _, _)
ArgOf(D, p, steps, name) ==      \* returns Obj or NoObj
    IF Len(steps) = 0 THEN NoObj
    ELSE LET inner == ArgOf(D, IF steps[1][1] = "c" THEN Append(p, steps[1][2]) ELSE PfBase(D, p),
                             Tail(steps), name) IN
         IF inner # NoObj THEN inner
         ELSE IF steps[1][1] = "i" /\ p \in DOMAIN D.pf
              THEN LET ps == D.flib[D.pf[p]].ps
                       ix == {i \in 1..Len(ps) : ps[i][1] = name} IN
                   IF ix = {} THEN NoObj ELSE IntObj(steps[1][3][MinOf(ix)])
              ELSE NoObj

\* map an object of the base tree into the dynamic tree rooted at the
\* outermost ItemSpace of ctx (C10, DynTreeBinding)
RootOf(ctx) ==                 \* <<static path of the root's base, steps up to and incl. first "i">>
    LET steps == ctx[2]
        fi == MinOf({i \in 1..Len(steps) : steps[i][1] = "i"}) IN
    <<ctx[1], SubSeq(steps, 1, fi)>>

DynRebind(D, ctx, r, v) ==
    IF v[1] \notin {"sp", "ce"} \/ r.mode = "absolute" \/ Len(ctx[2]) = 0 THEN v
    ELSE LET root == RootOf(ctx)
             rb   == PfBase(D, root[1])     \* static base path of the root item
             full == v[2] IN
         IF v[3] = <<>> /\ IsPrefix(rb, full)
         THEN LET rel == SubSeq(full, Len(rb) + 1, Len(full))
                  st  == root[2] \o [i \in 1..Len(rel) |-> <<"c", rel[i], <<>>>>] IN
              IF v[1] = "ce" THEN CeObj(rb, st, v[4]) ELSE SpObj(rb, st)
         ELSE v

-----------------------------------------------------------------------------
(* Name resolution: what a bare name denotes inside the namespace of a     *)
(* context, and what an attribute of an object denotes.                    *)

\* references an ItemSpace gets from the dict its parameter formula returns
\* ({"refs": {...}}); visible in that ItemSpace only, not in its children
ParentBase(D, ctx) == BaseOf(D, ctx[1], Front(ctx[2]))
ItemRefs(D, ctx) ==
    IF Len(ctx[2]) = 0 \/ Last(ctx[2])[1] # "i" THEN <<>>
    ELSE LET pb == ParentBase(D, ctx) IN
         IF pb \in DOMAIN D.pf /\ "refs" \in DOMAIN D.flib[D.pf[pb]]
         THEN D.flib[D.pf[pb]].refs ELSE <<>>

Look(D, ctx, name) ==
    LET b == CtxBase(D, ctx) IN
    IF name \in ENames(D, b, "cells") THEN CeObj(ctx[1], ctx[2], name)
    ELSE IF Len(ctx[2]) > 0 /\ ArgOf(D, ctx[1], ctx[2], name) # NoObj
         THEN ArgOf(D, ctx[1], ctx[2], name)
    ELSE IF name \in DOMAIN ItemRefs(D, ctx) THEN IntObj(ItemRefs(D, ctx)[name])
    ELSE IF name \in {"_self", "_space"} THEN SpObj(ctx[1], ctx[2])
    ELSE IF name = "_model" THEN ModelObj
    ELSE IF name \in ENames(D, b, "refs")
         THEN DynRebind(D, ctx, EMember(D, b, "refs", name), ERefVal(D, b, name))
    ELSE IF name \in DOMAIN D.grefs THEN D.grefs[name].v
    ELSE IF name \in ChildNames(D, b)
         THEN IF Len(ctx[2]) = 0 THEN SpObj(Append(b, name), <<>>)
              ELSE SpObj(ctx[1], Append(ctx[2], <<"c", name, <<>>>>))
    ELSE NoObj

Attr(D, obj, name) ==
    IF obj[1] = "sp" THEN Look(D, <<obj[2], obj[3]>>, name)
    ELSE IF obj[1] = "mo"
         THEN IF <<name>> \in D.sp THEN SpObj(<<name>>, <<>>)
              ELSE IF name \in DOMAIN D.grefs THEN D.grefs[name].v
              ELSE NoObj
    ELSE IF obj = DeadObj THEN DeadObj      \* attribute of a deleted space: DeletedObjectError
    ELSE NoObj                              \* cells objects (dead or alive) have no such attribute

RECURSIVE WalkFrom(_, _, _, _)
WalkFrom(D, obj, path, i) ==
    IF i > Len(path) \/ obj = NoObj THEN obj
    ELSE WalkFrom(D, Attr(D, obj, path[i]), path, i + 1)
Resolve(D, ctx, path) == WalkFrom(D, Look(D, ctx, path[1]), path, 2)

-----------------------------------------------------------------------------
(* Argument binding (C01: every spelling of a call that binds to the same  *)
(* arguments denotes the same element).                                    *)

BindOK(ps, vals) ==
    /\ Len(vals) <= Len(ps)
    /\ \A i \in (Len(vals) + 1)..Len(ps) : ps[i][2] = 1
Bind(ps, vals) ==
    [i \in 1..Len(ps) |-> IF i <= Len(vals) THEN vals[i] ELSE ps[i][3]]

ArgVal(a, key) == IF a[1] = "k" THEN key[a[2]]
                  ELSE IF a[1] = "dec" THEN key[a[2]] - 1
                  ELSE a[2]
Skipped(args, key) == \E i \in 1..Len(args) : args[i][1] = "dec" /\ key[args[i][2]] <= 0

AllowNoneSp(D, p) ==
    LET RECURSIVE up(_)
        up(q) == IF Len(q) = 0 THEN D.an
                 ELSE IF D.span[q] = 2 THEN TRUE
                 ELSE IF D.span[q] = 1 THEN FALSE
                 ELSE up(Front(q))
    IN up(p)

CellRecOf(D, ctx, c) == EMember(D, CtxBase(D, ctx), "cells", c)
FRec(D, rec) == D.flib[rec.f]
AllowNone(D, ctx, c) ==
    LET r == CellRecOf(D, ctx, c) IN
    IF r.an = 2 THEN TRUE ELSE IF r.an = 1 THEN FALSE
    ELSE AllowNoneSp(D, CtxBase(D, ctx))

-----------------------------------------------------------------------------
(* The denotational evaluator.                                             *)

\* <<"icall", spacepath, keyargs, cellsname, args, spelling>>:  P[k].c(a)
\* the ItemSpace context such an op denotes (Fail when it denotes none)
ItemCtx(D, ctx, key, op) ==
    LET sp == Resolve(D, ctx, op[2]) IN
    IF sp[1] # "sp" THEN Fail
    ELSE LET b == BaseOf(D, sp[2], sp[3]) IN
         IF b \notin D.sp \/ b \notin DOMAIN D.pf THEN Fail
         ELSE LET vals == [i \in 1..Len(op[3]) |-> ArgVal(op[3][i], key)]
                  ps == D.flib[D.pf[b]].ps IN
              IF ~BindOK(ps, vals) THEN Fail
              ELSE <<sp[2], Append(sp[3], <<"i", "", Bind(ps, vals)>>)>>
\* rewritten as an ordinary call op evaluated in that ItemSpace
AsCall(op) == <<"call", <<op[4]>>, op[5], op[6]>>

\* error code of a call op that denotes no element (0 when it denotes one)
CallErr(D, ctx, key, op) ==
    LET tgt == Resolve(D, ctx, op[2]) IN
    IF tgt = NoObj THEN ErrName
    ELSE IF IsDead(tgt) THEN ErrDeleted
    \* calling a space: without a parameter formula there is nothing to call
    \* (AttributeError); with one the result is a space, which is not a number
    ELSE IF tgt[1] = "sp" /\ BaseOf(D, tgt[2], tgt[3]) \in D.sp
            /\ BaseOf(D, tgt[2], tgt[3]) \notin DOMAIN D.pf THEN ErrName
    ELSE IF tgt[1] # "ce" THEN ErrType
    ELSE LET crec == CellRecOf(D, <<tgt[2], tgt[3]>>, tgt[4])
             vals == [i \in 1..Len(op[3]) |-> ArgVal(op[3][i], key)] IN
         IF BindOK(FRec(D, crec).ps, vals) THEN 0 ELSE ErrType
\* the element it denotes (only meaningful when CallErr = 0)
CallTarget(D, ctx, key, op) ==
    LET tgt  == Resolve(D, ctx, op[2])
        crec == CellRecOf(D, <<tgt[2], tgt[3]>>, tgt[4])
        vals == [i \in 1..Len(op[3]) |-> ArgVal(op[3][i], key)] IN
    <<tgt[2], tgt[3], tgt[4], Bind(FRec(D, crec).ps, vals)>>

RECURSIVE Den(_, _), EvOps(_, _, _, _, _, _)

EvOp(D, ctx, key, op) ==
    CASE op[1] = "const" -> op[2]
      [] op[1] = "raise" -> ErrRaise(op[2])
      \* <<"raiseif", k, e>>: the formula raises only for the arguments whose first
      \* component is k (a failure that depends on the arguments)
      [] op[1] = "raiseif" -> IF Len(key) > 0 /\ key[1] = op[2] THEN ErrRaise(op[3]) ELSE 0
      [] op[1] = "none"  -> RetNoneMark
      [] op[1] = "read"  ->
            LET o == Resolve(D, ctx, op[2]) IN
            IF o = NoObj THEN ErrName ELSE IF IsDead(o) THEN ErrDeleted
            ELSE IF o[1] = "int" THEN o[2] ELSE ErrType
      [] op[1] = "call"  ->
            IF Skipped(op[3], key) THEN 0
            ELSE LET ce == CallErr(D, ctx, key, op) IN
                 IF ce # 0 THEN ce
                 ELSE LET v == Den(D, CallTarget(D, ctx, key, op)) IN
                      IF IsErr(v) THEN v ELSE IF v = NoneV THEN NoneContrib ELSE v
      [] op[1] = "icall" ->
            LET ic == ItemCtx(D, ctx, key, op)
                sp == Resolve(D, ctx, op[2]) IN
            IF ic = Fail
            THEN (IF sp = NoObj THEN ErrName
                  ELSE IF IsDead(sp) THEN ErrDeleted
                  ELSE IF sp[1] = "sp" /\ BaseOf(D, sp[2], sp[3]) \in D.sp
                          /\ BaseOf(D, sp[2], sp[3]) \notin DOMAIN D.pf
                  THEN ErrName            \* indexing a space without parameters: AttributeError
                  ELSE ErrType)
            ELSE LET ce == CallErr(D, ic, key, AsCall(op)) IN
                 IF ce # 0 THEN ce
                 ELSE LET v == Den(D, CallTarget(D, ic, key, AsCall(op))) IN
                      IF IsErr(v) THEN v ELSE IF v = NoneV THEN NoneContrib ELSE v

EvOps(D, ctx, key, ops, i, acc) ==
    IF i > Len(ops) THEN acc
    ELSE LET r == EvOp(D, ctx, key, ops[i]) IN
         IF r = RetNoneMark THEN NoneV
         ELSE IF IsErr(r) THEN r
         ELSE EvOps(D, ctx, key, ops, i + 1, acc + r)

Den(D, n) ==
    LET ctx == <<n[1], n[2]>>
        rec == CellRecOf(D, ctx, n[3]) IN
    IF rec.cached /\ n \in DOMAIN D.inp THEN D.inp[n]
    ELSE LET raw == EvOps(D, ctx, n[4], FRec(D, rec).ops, 1, 0)
             r1  == IF Catchable(raw) /\ FRec(D, rec).catch THEN FRec(D, rec).onerr ELSE raw IN
         IF r1 = NoneV /\ ~AllowNone(D, ctx, n[3]) THEN ErrNone ELSE r1

\* what the formula of n evaluates to before its handler (if any) and the None rule apply
RawDen(D, n) ==
    LET ctx == <<n[1], n[2]>>
        rec == CellRecOf(D, ctx, n[3]) IN
    EvOps(D, ctx, n[4], FRec(D, rec).ops, 1, 0)

NodeExists(D, n) ==
    /\ CtxExists(D, <<n[1], n[2]>>)
    /\ n[3] \in ENames(D, CtxBase(D, <<n[1], n[2]>>), "cells")

-----------------------------------------------------------------------------
(* What an evaluation touches (for C06 / C08): the elements a formula      *)
(* calls and the references it reads, up to the point where it stops.      *)

RECURSIVE Reached(_, _, _, _, _)
\* indices of the ops that are executed (evaluation stops after the first
\* op that raises or returns None)
Reached(D, ctx, key, ops, i) ==
    IF i > Len(ops) THEN {}
    ELSE LET r == EvOp(D, ctx, key, ops[i]) IN
         IF r = RetNoneMark \/ IsErr(r) THEN {i}
         ELSE {i} \cup Reached(D, ctx, key, ops, i + 1)

IsInput(D, n) == CellRecOf(D, <<n[1], n[2]>>, n[3]).cached /\ n \in DOMAIN D.inp

\* elements called directly by the formula of n (all attempts, also failed ones)
Called(D, n) ==
    IF IsInput(D, n) THEN {}
    ELSE LET ctx == <<n[1], n[2]>>
             ops == FRec(D, CellRecOf(D, ctx, n[3])).ops
             ix  == Reached(D, ctx, n[4], ops, 1) IN
         {CallTarget(D, ctx, n[4], ops[i]) :
             i \in {j \in ix : ops[j][1] = "call" /\ ~Skipped(ops[j][3], n[4])
                               /\ CallErr(D, ctx, n[4], ops[j]) = 0}}
         \cup
         {CallTarget(D, ItemCtx(D, ctx, n[4], ops[i]), n[4], AsCall(ops[i])) :
             i \in {j \in ix : ops[j][1] = "icall" /\ ItemCtx(D, ctx, n[4], ops[j]) # Fail
                               /\ CallErr(D, ItemCtx(D, ctx, n[4], ops[j]), n[4], AsCall(ops[j])) = 0}}

\* ItemSpaces the formula of n creates/uses directly: nodes <<path, steps, "", key>>
ItemsUsed(D, n) ==
    IF IsInput(D, n) THEN {}
    ELSE LET ctx == <<n[1], n[2]>>
             ops == FRec(D, CellRecOf(D, ctx, n[3])).ops
             ix  == Reached(D, ctx, n[4], ops, 1) IN
         {LET ic == ItemCtx(D, ctx, n[4], ops[i]) IN
            <<ic[1], Front(ic[2]), "", Last(ic[2])[3]>> :
             i \in {j \in ix : ops[j][1] = "icall" /\ ItemCtx(D, ctx, n[4], ops[j]) # Fail}}

\* ... of which those that completed (hold a value if cached)
CalledOK(D, n) == {m \in Called(D, n) : ~IsErr(Den(D, m))}

IsCachedNode(D, n) == CellRecOf(D, <<n[1], n[2]>>, n[3]).cached
ObjKey      == <<-999>>
ObjNode(n)  == <<n[1], n[2], n[3], ObjKey>>

RECURSIVE GraphPreds(_, _)
\* what preds() must list for a computed element n: cached callees, and for
\* uncached callees the cells itself plus what it reached
GraphPreds(D, n) ==
    ItemsUsed(D, n) \cup
    UNION { IF IsCachedNode(D, m) THEN {m}
            ELSE {ObjNode(m)} \cup GraphPreds(D, m) : m \in CalledOK(D, n) }

\* cached elements whose values flow directly into n (through uncached callees)
RECURSIVE CalledThrough(_, _)
CalledThrough(D, n) ==
    UNION { IF IsCachedNode(D, m) THEN {m} ELSE CalledThrough(D, m) : m \in CalledOK(D, n) }

\* ... counting every attempt: a callee that fails under the current definitions may still
\* HOLD a value (known finding KF1), which is then what the caller consumed
RECURSIVE CalledThroughAny(_, _)
CalledThroughAny(D, n) ==
    UNION { IF IsCachedNode(D, m) THEN {m} ELSE CalledThroughAny(D, m) : m \in Called(D, n) }

RECURSIVE TransDeps(_, _, _)
TransDeps(D, front, seen) ==
    LET nxt == UNION {CalledOK(D, m) : m \in front} \ seen IN
    IF nxt = {} THEN seen ELSE TransDeps(D, nxt, seen \cup nxt)
\* every element whose value flows into n
DepsStar(D, n) == TransDeps(D, {n}, {})

\* references read by the formula of n itself: <<owner path or <<>> for the
\* model, name, "name" | "attr">>
RefOwner(D, ctx, name) ==      \* which container a bare name is served from
    LET b == CtxBase(D, ctx) IN
    IF name \in ENames(D, b, "cells") THEN Fail
    ELSE IF name \in ENames(D, b, "refs") THEN <<b, name>>
    ELSE IF name \in DOMAIN D.grefs THEN <<<<>>, name>>
    ELSE Fail

=============================================================================
