CONSTANTS
  SampleMod = 30
  MaxOps = 1
  Scripted = FALSE
  ExcuseKF = FALSE
  Dump = FALSE
INIT Init
NEXT Next
INVARIANT Inv_NoKnownFinding
CHECK_DEADLOCK FALSE
