CONSTANTS
  SampleMod = 90
  MaxOps = 1
  Scripted = FALSE
  ExcuseKF = FALSE
  Dump = FALSE
INIT KFInit
NEXT Next
CONSTRAINT CollectKF
POSTCONDITION PrintKF
CHECK_DEADLOCK FALSE
