\* two models, one name, one location, two values: the COMPLETE reachable state space (histories of any length)
CONSTANTS
  Models = {"M1", "M2"}
  BaseInit = {"M1"}
  Names = {"x"}
  CsvLocs = {"p.csv"}
  ModLocs = {}
  PVals = {1, 2}
  MVals = {}
  OVals = {}
  WithDelSpace = FALSE
  WithChild = FALSE
  OpenFindings = {}
  MaxOps = 99
  Dump = TRUE
VIEW ViewU
INIT Init
NEXT Next
INVARIANT Inv_C18_SpecsEqBoundValues
INVARIANT Inv_C18_NoOrphanSpec
INVARIANT Inv_C18_LocationsUnique
INVARIANT Inv_C18_RejectedLeavesNothing
INVARIANT Inv_C18_SanityChecks
INVARIANT Inv_C18_SavedSpecsRoundTrip
INVARIANT Inv_NoRepairedFinding
CHECK_DEADLOCK FALSE
