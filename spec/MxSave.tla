------------------------------ MODULE MxSave ------------------------------
(***************************************************************************)
(* C14 -- ALGORITHM LAYER: modelx's save / load mechanism at the           *)
(* granularity of single file operations, every one of which may fail.     *)
(*                                                                         *)
(* One action per step of the code (file:line cited at each action):       *)
(*   modelx/serialize/__init__.py   write_model 64-93, _increment_backups  *)
(*                                  28-45, read_model 96-111               *)
(*   modelx/serialize/serializer_6.py  ModelWriter.write_model 308-358,    *)
(*                                  ModelReader.read_model 840-874         *)
(*   modelx/serialize/ziputil.py    make_root 49-58, write_file 201-246,   *)
(*                                  archive_dir 323-338                    *)
(* A "Fail*" twin exists for every step: the operation raises, and control *)
(* continues exactly where Python's try/finally/except sends it.           *)
(*                                                                         *)
(* The property layer (MxSaveProps) is stated over the same state as       *)
(* invariants Inv_C14_*; the history variables safe0, fs0, reg0, fpt, hist *)
(* belong to the property layer / to the spec->code dump only.             *)
(***************************************************************************)
EXTENDS MxSaveProps, TLC, Json

CONSTANTS MaxSaves,        \* saves per behaviour
          MaxLoads,        \* loads per behaviour
          NFiles,          \* files written per save (>= 2)
          CleanupOnFail,   \* TRUE = the code as it is (__init__.py:84-89); FALSE = before that repair
          Swallowed,       \* TRUE = also model the two failures which the zip path of the code
                           \*        swallows (known findings; ZipReopenTruncates, ZipArchiveSkips)
          MaxOps,          \* MBT: public operations per printed history
          Dump             \* MBT: print maximal histories

VARIABLES fs,        \* 0..3 -> slot                       (the files of one model path)
          tmp,       \* the archive being built in the temporary directory (zip format)
          tmpdir,    \* the TemporaryDirectory of a zip save exists
          lastGood,  \* generation of the most recent completely written copy
          gen,       \* generation being written = number of saves started
          fmt, bk,   \* parameters of the save in progress
          pc, todo, written, failed,
          lost,      \* zip: entries already in the temporary archive were lost / left out
          fpt,       \* where the operation in progress failed: <<phase, index>>
          flags,     \* system.serializing / iomanager.serializing are set
          nreg,      \* number of registered models besides the one being saved
          partial,   \* a half-loaded model is registered
          lslot, loads,
          safe0, fs0, reg0,   \* property layer: the state in which the operation started
          hist
files == <<fs, tmp, tmpdir>>
par   == <<gen, fmt, bk>>
ctl   == <<pc, todo, written, failed, lost, fpt>>
sess  == <<flags, nreg, partial>>
ld    == <<lslot, loads>>
hv    == <<safe0, fs0, reg0>>
vars  == <<files, lastGood, par, ctl, sess, ld, hv, hist>>

NoPt == <<"none", 0>>

Init ==
    /\ fs = AllAbsent /\ tmp = Absent /\ tmpdir = FALSE /\ lastGood = 0
    /\ gen = 0 /\ fmt = "dir" /\ bk = TRUE
    /\ pc = "idle" /\ todo = <<>> /\ written = 0 /\ failed = FALSE /\ lost = FALSE /\ fpt = NoPt
    /\ flags = FALSE /\ nreg = 0 /\ partial = FALSE /\ lslot = 0 /\ loads = 0
    /\ safe0 = TRUE /\ fs0 = AllAbsent /\ reg0 = 0 /\ hist = <<>>

\* control moves to p; pt # NoPt: because the current operation raised
Ctl(p, pt) == /\ pc' = p
              /\ IF pt = NoPt THEN UNCHANGED <<failed, fpt>> ELSE failed' = TRUE /\ fpt' = pt
              /\ UNCHANGED <<todo, written, lost>>
Same(v) == UNCHANGED v

-----------------------------------------------------------------------------
(* SAVE                                                                    *)

\* Model.write / Model.zip -> write_model (__init__.py:64-74): the rotation plan
BeginSave(f, b) ==
    /\ pc = "idle" /\ gen < MaxSaves /\ (Dump => Len(hist) < MaxOps)
    /\ gen' = gen + 1 /\ fmt' = f /\ bk' = b
    /\ todo' = RotOps(fs, b) /\ pc' = "rot" /\ written' = 0
    /\ failed' = FALSE /\ lost' = FALSE /\ fpt' = NoPt
    /\ safe0' = Safe(fs, lastGood) /\ fs0' = fs /\ Same(reg0)
    /\ Same(<<files, lastGood, sess, ld, hist>>)

\* one rename / rmtree / unlink of _increment_backups (__init__.py:36-39, :45)
RotStep ==
    /\ pc = "rot" /\ todo # <<>>
    /\ fs' = ApplyRot(fs, Head(todo)) /\ todo' = Tail(todo)
    /\ Same(<<tmp, tmpdir, lastGood, par, pc, written, failed, lost, fpt, sess, ld, hv, hist>>)

\* that operation fails: the rotation is outside every try block, nothing else runs.
\* (shutil.rmtree of a directory may have removed part of it already.)
FailRot ==
    /\ pc = "rot" /\ todo # <<>>
    /\ fs' \in FailedRot(fs, Head(todo))
    /\ pc' = "end" /\ failed' = TRUE
    /\ fpt' = <<"rot", Len(RotOps(fs0, bk)) - Len(todo) + 1>>
    /\ Same(<<tmp, tmpdir, lastGood, par, todo, written, lost, sess, ld, hv, hist>>)

RotDone ==
    /\ pc = "rot" /\ todo = <<>>
    /\ Ctl(IF fmt = "zip" THEN "mktmp" ELSE "setflags", NoPt)
    /\ Same(<<files, lastGood, par, sess, ld, hv, hist>>)

\* zip: TemporaryDirectory() + work_dir.mkdir (serializer_6.py:312-315)
ZipMkTmp ==
    /\ pc = "mktmp" /\ tmpdir' = TRUE /\ Ctl("setflags", NoPt)
    /\ Same(<<fs, tmp, lastGood, par, sess, ld, hv, hist>>)
FailMkTmp ==
    /\ pc = "mktmp" /\ Ctl("fin_flags", <<"mktmp", 1>>)
    /\ Same(<<files, lastGood, par, sess, ld, hv, hist>>)

\* system.serializing = self; iomanager.serializing = True (:317-318)
SetFlags ==
    /\ pc = "setflags" /\ flags' = TRUE /\ Ctl("mkroot", NoPt)
    /\ Same(<<files, lastGood, par, nreg, partial, ld, hv, hist>>)

\* ziputil.make_root (:320 -> ziputil.py:58): the directory appears at <path>, empty
DirMk ==
    /\ pc = "mkroot" /\ fmt = "dir"
    /\ fs' = [fs EXCEPT ![0] = Mk(gen, FALSE, "dir")] /\ Ctl("write", NoPt)
    /\ Same(<<tmp, tmpdir, lastGood, par, sess, ld, hv, hist>>)
\* ziputil.make_root (:320 -> ziputil.py:54): an empty archive in the temporary directory
ZipMkRoot ==
    /\ pc = "mkroot" /\ fmt = "zip"
    /\ tmp' = Mk(gen, FALSE, "zip") /\ Ctl("write", NoPt)
    /\ Same(<<fs, tmpdir, lastGood, par, sess, ld, hv, hist>>)
FailMkRoot ==
    /\ pc = "mkroot" /\ Ctl("fin_flags", <<"mkroot", 1>>)
    /\ Same(<<files, lastGood, par, sess, ld, hv, hist>>)

\* the i-th file of the tree: _system.json, __init__.py, <space>/__init__.py, _data/*.pickle,
\* IO files (:321-343, ziputil.write_file 201-246) written IN PLACE under <path>;
\* the copy is complete with the last one
DirWrite ==
    /\ pc = "write" /\ fmt = "dir" /\ written < NFiles
    /\ written' = written + 1
    /\ IF written + 1 = NFiles
       THEN /\ fs' = [fs EXCEPT ![0] = Mk(gen, TRUE, "dir")]
            /\ lastGood' = gen /\ pc' = "fin_flags"
       ELSE Same(<<fs, lastGood, pc>>)
    /\ Same(<<tmp, tmpdir, par, todo, failed, lost, fpt, sess, ld, hv, hist>>)
\* zip: the same files, each appended to the archive in the temporary directory by re-opening
\* it (ziputil.py:226-239: find_zip_parent, ZipFile(root, "a"))
ZipTmpWrite ==
    /\ pc = "write" /\ fmt = "zip" /\ written < NFiles
    /\ written' = written + 1
    /\ pc' = IF written + 1 = NFiles THEN "archive" ELSE pc
    /\ Same(<<files, lastGood, par, todo, failed, lost, fpt, sess, ld, hv, hist>>)
\* a failing open / mkdir / pickling step of file number written+1
FailWrite ==
    /\ pc = "write" /\ written < NFiles
    /\ Ctl("fin_flags", <<"write", written + 1>>)
    /\ Same(<<files, lastGood, par, sess, ld, hv, hist>>)
\* KNOWN FINDING (Swallowed): the re-opening of the archive for appending fails inside
\* zipfile.ZipFile(root, "a") -- CPython then silently retries with mode "w+b", i.e. re-creates
\* the archive EMPTY; ziputil.write_file goes on, nothing is raised: the entries written so
\* far are lost (harmless for the first file)
ZipReopenTruncates ==
    /\ Swallowed /\ pc = "write" /\ fmt = "zip" /\ written < NFiles
    /\ written' = written + 1
    /\ lost' = (lost \/ written > 0)
    /\ pc' = IF written + 1 = NFiles THEN "archive" ELSE pc
    /\ fpt' = <<"reopen", written + 1>>
    /\ Same(<<files, lastGood, par, todo, failed, sess, ld, hv, hist>>)

\* ziputil.archive_dir(work_dir, temp_root) (:346-348): IO files join the archive, which is
\* complete afterwards (unless entries were lost before)
ZipArchive ==
    /\ pc = "archive" /\ tmp' = [tmp EXCEPT !.ok = ~lost] /\ Ctl("move", NoPt)
    /\ Same(<<fs, tmpdir, lastGood, par, sess, ld, hv, hist>>)
FailArchive ==
    /\ pc = "archive" /\ Ctl("fin_flags", <<"archive", 1>>)
    /\ Same(<<files, lastGood, par, sess, ld, hv, hist>>)
\* KNOWN FINDING (Swallowed): archive_dir lists work_dir with os.walk, which ignores a failing
\* directory listing: the IO files are silently left out, nothing is raised
ZipArchiveSkips ==
    /\ Swallowed /\ pc = "archive"
    /\ lost' = TRUE /\ pc' = "move" /\ fpt' = <<"walk", 1>>
    /\ Same(<<files, lastGood, par, todo, written, failed, sess, ld, hv, hist>>)

\* shutil.move(temp_root, root) (:349-352): one rename on the same file system
ZipMove ==
    /\ pc = "move"
    /\ IF fs[0].p /\ fs[0].kind = "dir"
       THEN /\ Ctl("fin_flags", <<"move", 0>>) /\ Same(<<fs, tmp, lastGood>>)    \* :349-350 IOError
       ELSE /\ fs' = [fs EXCEPT ![0] = tmp] /\ tmp' = Absent
            /\ lastGood' = IF tmp.ok THEN gen ELSE lastGood
            /\ Ctl("fin_flags", NoPt)
    /\ Same(<<tmpdir, par, sess, ld, hv, hist>>)
FailMove ==
    /\ pc = "move" /\ Ctl("fin_flags", <<"move", 1>>)
    /\ Same(<<files, lastGood, par, sess, ld, hv, hist>>)

\* finally: system.serializing = None; iomanager.serializing = None (:354-356)
FlagsReset ==
    /\ pc = "fin_flags" /\ flags' = FALSE
    /\ Ctl(IF fmt = "zip" /\ tmpdir THEN "fin_tmp" ELSE "cleanup", NoPt)
    /\ Same(<<files, lastGood, par, nreg, partial, ld, hv, hist>>)

\* finally: tempdir.cleanup() (:357-358)
TmpCleanup ==
    /\ pc = "fin_tmp" /\ tmp' = Absent /\ tmpdir' = FALSE /\ Ctl("cleanup", NoPt)
    /\ Same(<<fs, lastGood, par, sess, ld, hv, hist>>)
\* it fails: the temporary directory leaks (it is outside <path>: abstracted away here)
FailTmpCleanup ==
    /\ pc = "fin_tmp" /\ tmp' = Absent /\ tmpdir' = FALSE
    /\ Ctl("cleanup", IF failed THEN NoPt ELSE <<"cleanup", 1>>)
    /\ Same(<<fs, lastGood, par, sess, ld, hv, hist>>)

\* except BaseException: if not is_zip and root.is_dir(): rmtree(root) (__init__.py:84-89)
DirCleanup ==
    /\ pc = "cleanup"
    /\ fs' = IF failed /\ CleanupOnFail /\ fmt = "dir" /\ fs[0].p /\ fs[0].kind = "dir"
             THEN [fs EXCEPT ![0] = Absent] ELSE fs
    /\ Ctl("end", NoPt)
    /\ Same(<<tmp, tmpdir, lastGood, par, sess, ld, hv, hist>>)

\* back at the caller: model.path = root on success (:91-93) / the exception on failure.
\* The bookkeeping of the finished save is forgotten (the invariants look at pc = "end").
EndSave ==
    /\ pc = "end" /\ pc' = "idle"
    /\ hist' = IF Dump THEN Append(hist, [op |-> "save", fmt |-> fmt, bk |-> bk, slot |-> 0,
                                          ph |-> fpt[1], ix |-> fpt[2]]) ELSE hist
    /\ todo' = <<>> /\ written' = 0 /\ fmt' = "dir" /\ bk' = TRUE /\ failed' = FALSE
    /\ lost' = FALSE /\ safe0' = TRUE /\ fs0' = AllAbsent /\ fpt' = NoPt
    /\ Same(<<files, lastGood, gen, sess, ld, reg0>>)

-----------------------------------------------------------------------------
(* LOAD                                                                    *)

\* mx.read_model(path) (__init__.py:96-100)
BeginLoad(s) ==
    /\ pc = "idle" /\ fs[s].p /\ loads < MaxLoads /\ (Dump => Len(hist) < MaxOps)
    /\ lslot' = s /\ loads' = loads + 1 /\ pc' = "l_meta" /\ written' = 0
    /\ failed' = FALSE /\ fpt' = NoPt /\ reg0' = nreg
    /\ Same(<<files, lastGood, par, todo, lost, sess, safe0, fs0, hist>>)

\* _get_model_metadata: read <path>/_system.json (__init__.py:48-61, :100)
LoadMeta ==
    /\ pc = "l_meta" /\ Ctl("l_flags", NoPt)
    /\ Same(<<files, lastGood, par, sess, ld, hv, hist>>)
FailLoadMeta ==                                     \* no reader yet, nothing to undo
    /\ pc = "l_meta" /\ Ctl("l_end", <<"meta", 1>>)
    /\ Same(<<files, lastGood, par, sess, ld, hv, hist>>)

\* ModelReader.read_model: system.serializing = self ... (serializer_6.py:843-844)
LoadSetFlags ==
    /\ pc = "l_flags" /\ flags' = TRUE /\ Ctl("l_open", NoPt)
    /\ Same(<<files, lastGood, par, nreg, partial, ld, hv, hist>>)

\* zipfile.is_zipfile, TemporaryDirectory (:847-862): no model exists yet
LoadOpen ==
    /\ pc = "l_open" /\ Ctl("l_new", NoPt)
    /\ Same(<<files, lastGood, par, sess, ld, hv, hist>>)
FailLoadOpen ==
    /\ pc = "l_open" /\ Ctl("l_close", <<"open", 1>>)
    /\ Same(<<files, lastGood, par, sess, ld, hv, hist>>)

\* parse_dir: self.model = mx.new_model() (:900): a new, still empty model is registered
LoadNewModel ==
    /\ pc = "l_new" /\ nreg' = nreg + 1 /\ partial' = TRUE /\ Ctl("l_parse", NoPt)
    /\ Same(<<files, lastGood, par, flags, ld, hv, hist>>)

\* parse_source / read_pickledata / IO files: the i-th file of the saved tree (:876-894);
\* the last file of an incomplete copy cannot be read
LoadStep ==
    /\ pc = "l_parse" /\ written < NFiles /\ (fs[lslot].ok \/ written < NFiles - 1)
    /\ written' = written + 1
    /\ Same(<<files, lastGood, par, pc, todo, failed, lost, fpt, sess, ld, hv, hist>>)
FailLoadStep ==
    /\ pc = "l_parse" /\ written < NFiles /\ Ctl("l_close", <<"parse", written + 1>>)
    /\ Same(<<files, lastGood, par, sess, ld, hv, hist>>)

\* every instruction executed: the model is complete (:894, :874)
LoadDone ==
    /\ pc = "l_parse" /\ written = NFiles /\ partial' = FALSE /\ Ctl("l_fin", NoPt)
    /\ Same(<<files, lastGood, par, flags, nreg, ld, hv, hist>>)

\* except: if self.model: self.model.close(); raise (:865-868)
LoadClose ==
    /\ pc = "l_close" /\ Ctl("l_fin", NoPt)
    /\ IF partial THEN nreg' = nreg - 1 /\ partial' = FALSE ELSE Same(<<nreg, partial>>)
    /\ Same(<<files, lastGood, par, flags, ld, hv, hist>>)

\* finally: system.serializing = None ... (:870-872)
LoadFlagsReset ==
    /\ pc = "l_fin" /\ flags' = FALSE /\ Ctl("l_end", NoPt)
    /\ Same(<<files, lastGood, par, nreg, partial, ld, hv, hist>>)

\* back at the caller.  (The user of a successfully loaded model closes it again -- folded in
\* here to keep nreg bounded; after a FAILED load nothing is touched: nreg is what LoadClose left.)
\* The bookkeeping of the finished operation is forgotten (the invariants look at pc = "l_end").
EndLoad ==
    /\ pc = "l_end" /\ pc' = "idle"
    /\ nreg' = IF failed THEN nreg ELSE reg0
    /\ hist' = IF Dump THEN Append(hist, [op |-> "load", fmt |-> fs[lslot].kind, bk |-> FALSE,
                                          slot |-> lslot, ph |-> fpt[1], ix |-> fpt[2]]) ELSE hist
    /\ written' = 0 /\ failed' = FALSE /\ lslot' = 0 /\ reg0' = 0 /\ fpt' = NoPt
    /\ Same(<<files, lastGood, par, todo, lost, flags, partial, loads, safe0, fs0>>)

-----------------------------------------------------------------------------
Next ==
    \/ \E f \in {"dir", "zip"}, b \in BOOLEAN : BeginSave(f, b)
    \/ RotStep \/ FailRot \/ RotDone
    \/ ZipMkTmp \/ FailMkTmp \/ SetFlags
    \/ DirMk \/ ZipMkRoot \/ FailMkRoot
    \/ DirWrite \/ ZipTmpWrite \/ FailWrite \/ ZipReopenTruncates
    \/ ZipArchive \/ FailArchive \/ ZipArchiveSkips \/ ZipMove \/ FailMove
    \/ FlagsReset \/ TmpCleanup \/ FailTmpCleanup \/ DirCleanup \/ EndSave
    \/ \E s \in SlotIx : BeginLoad(s)
    \/ LoadMeta \/ FailLoadMeta \/ LoadSetFlags \/ LoadOpen \/ FailLoadOpen \/ LoadNewModel
    \/ LoadStep \/ FailLoadStep \/ LoadDone \/ LoadClose \/ LoadFlagsReset \/ EndLoad

Spec == Init /\ [][Next]_vars

-----------------------------------------------------------------------------
(* PROPERTY LAYER on the model: one invariant per predicate of C14.        *)
(* SaveEnd / LoadEnd: the call is about to return or raise to the user --  *)
(* everything the code does on the way out (finally, except) has run.      *)
Idle      == pc = "idle"
SaveEnd   == pc = "end"
LoadEnd   == pc = "l_end"
Quiescent == Idle \/ SaveEnd \/ LoadEnd

\* with backups on, a save (successful or not) that started with the last good copy at
\* <path> or _BAK1 ends with the last good copy at <path> or _BAK1
Inv_C14_LastGoodSafe       == (SaveEnd /\ bk /\ safe0) => Safe(fs, lastGood)
Inv_C14_GenerationsOrdered == Quiescent => Ordered(fs)
Inv_C14_GenerationsKept    == (SaveEnd /\ bk) => Kept(fs0, fs)
\* in EVERY state, also in the middle of a save
Inv_C14_NoPartialZip       == NoPartialZip(fs)
\* nothing of an operation survives its end, and an operation in which nothing failed did its job
Inv_C14_SessionUsable      == /\ Quiescent => ~flags /\ ~partial
                              /\ (SaveEnd /\ ~failed /\ fpt = NoPt) => Good(fs[0], gen) /\ lastGood = gen
                              /\ (LoadEnd /\ ~failed) => fs[lslot].ok /\ nreg = reg0 + 1
Inv_C14_NoHalfLoadedModel  == (LoadEnd /\ failed) => nreg = reg0

\* vacuity witnesses: situations the invariants talk about; the harness requires every one of
\* them to have been reached (registers 101.., printed by the POSTCONDITION; -workers 1)
Witnesses == <<
    \* 1 a failed save over a good one, backups on, <path> gone and the good copy at _BAK1
    SaveEnd /\ bk /\ safe0 /\ failed /\ lastGood # 0 /\ ~fs[0].p /\ Good(fs[1], lastGood),
    \* 2 four complete generations
    Idle /\ \A n \in SlotIx : fs[n].p /\ fs[n].ok,
    \* 3 a failed load after the half-loaded model had been registered
    pc = "l_close" /\ partial,
    \* 4 an archive at <path> over a directory backup
    Idle /\ fs[0].p /\ fs[0].kind = "zip" /\ fs[1].p /\ fs[1].kind = "dir",
    \* 5 a save failed in the rotation after it had moved something
    SaveEnd /\ failed /\ fpt[1] = "rot" /\ fs # fs0,
    \* 6 backups off: the last good copy is deliberately gone after a failed save
    SaveEnd /\ ~bk /\ failed /\ lastGood # 0 /\ ~Safe(fs, lastGood),
    \* 7 the oldest backup was dropped
    SaveEnd /\ bk /\ fs0[3].p /\ fs[3] # fs0[3],
    \* 8 a save that raised although the new copy is complete (failure in the final clean-up)
    SaveEnd /\ failed /\ Good(fs[0], gen),
    \* 9 a successful load
    LoadEnd /\ ~failed,
    \* 10 a removal of the oldest backup directory that failed half way
    SaveEnd /\ failed /\ fs[3].p /\ ~fs[3].ok >>
NWit == 10
WitInit   == \A i \in 1..NWit : TLCSet(100 + i, FALSE)
WitRecord == \A i \in 1..NWit : Witnesses[i] => TLCSet(100 + i, TRUE)
MCInit    == Init /\ WitInit
WitPrint  == \A i \in 1..NWit : PrintT(<<"WITNESS", i, TLCGet(100 + i)>>)

-----------------------------------------------------------------------------
(* spec -> code: print every maximal history of MaxOps public operations   *)
Frontier == pc = "idle" /\ Len(hist) = MaxOps
Bound    == /\ WitRecord
            /\ (Dump /\ Frontier) => PrintT(<<"MBT", ToJson(hist)>>)
=============================================================================
