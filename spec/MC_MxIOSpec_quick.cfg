\* two models, two names, two locations, two values + the space object A: all histories of 3 operations
CONSTANTS
  Models = {"M1", "M2"}
  BaseInit = {"M1"}
  Names = {"x", "y"}
  CsvLocs = {"p.csv", "q.csv"}
  ModLocs = {}
  PVals = {1, 2}
  MVals = {}
  OVals = {101}
  WithDelSpace = FALSE
  WithChild = TRUE
  OpenFindings = {}
  MaxOps = 3
  Dump = TRUE
VIEW View
INIT Init
NEXT Next
INVARIANT Inv_C18_SpecsEqBoundValues
INVARIANT Inv_C18_NoOrphanSpec
INVARIANT Inv_C18_LocationsUnique
INVARIANT Inv_C18_RejectedLeavesNothing
INVARIANT Inv_C18_SanityChecks
INVARIANT Inv_C18_SavedSpecsRoundTrip
INVARIANT Inv_NoRepairedFinding
CHECK_DEADLOCK FALSE
