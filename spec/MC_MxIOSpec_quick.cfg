CONSTANTS
  Models = {"M1", "M2"}
  BaseInit = {"M1"}
  Names = {"x", "y"}
  CsvLocs = {"p.csv", "q.csv"}
  ModLocs = {}
  PVals = {1, 2}
  MVals = {}
  WithDelSpace = FALSE
  MaxOps = 3
  Dump = FALSE
  ExploreTainted = FALSE
INIT Init
NEXT Next
VIEW View
CONSTRAINT Bound
INVARIANT Inv_C18_SpecsEqBoundValues
INVARIANT Inv_C18_NoOrphanSpec
INVARIANT Inv_C18_LocationsUnique
INVARIANT Inv_C18_RejectedLeavesNothing
INVARIANT Inv_C18_SanityChecks
INVARIANT Inv_C18_SavedSpecsRoundTrip
CHECK_DEADLOCK FALSE
