CONSTANTS
  Models = {}
  BaseInit = {}
  Names = {}
  CsvLocs = {}
  ModLocs = {}
  PVals = {}
  MVals = {}
  OVals = {}
  WithDelSpace = FALSE
  WithChild = FALSE
  OpenFindings = {}
  MaxOps = 0
  Dump = FALSE
INIT TInit
NEXT TNext
CONSTRAINT Progress
POSTCONDITION Verdicts
CHECK_DEADLOCK FALSE
