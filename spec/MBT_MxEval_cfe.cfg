CONSTANTS
  MaxOps = 3
  MaxDepthC = 0
  Pattern = "call-flag-edit"
  Dump = TRUE
INIT Init
NEXT Next
CONSTRAINT Bound
CHECK_DEADLOCK FALSE
