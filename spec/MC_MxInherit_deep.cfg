CONSTANTS
  MaxOps = 3
  Dump = FALSE
INIT Init
NEXT Next
CONSTRAINT Bound
INVARIANT Inv_C03
INVARIANT Inv_C10
INVARIANT Inv_C11
INVARIANT Inv_C12
PROPERTY RejectedUnchanged
CHECK_DEADLOCK FALSE
