----------------------------- MODULE MxInherit -----------------------------
(***************************************************************************)
(* Algorithm layer: how modelx maintains derived members incrementally.     *)
(*                                                                         *)
(* State M holds the MATERIALISED members of every space, derived copies   *)
(* included, exactly like the containers of the code (space._cells,        *)
(* space._own_refs with their is_derived flags).  Actions transcribe       *)
(*   SpaceUpdater.add_bases / remove_bases      model.py:1694-1768         *)
(*   UserSpaceImpl.on_inherit (per space, cells then refs)  space.py:1836  *)
(*   SpaceManager.new_cells / del_cells / set_cells_property               *)
(*                new_ref / change_ref / del_ref     model.py:1344-1533    *)
(*   SpaceUpdater.new_space / del_defined_space, SpaceManager.rename_cells *)
(*   SharedSpaceOperations._can_add / _find_name_in_subs   1220-1249       *)
(* including the guards that reject an edit.  The property layer (MxProps  *)
(* DefsLabels) compares the materialised members with the derivation from  *)
(* scratch along C3 (MxSem) from the DEFINED members alone, in every       *)
(* state; a rejected edit must leave M unchanged.  Histories are printed   *)
(* for replay on the real library.                                         *)
(***************************************************************************)
EXTENDS MxProps, Json, IOUtils, SequencesExt

CONSTANTS MaxOps, Dump

Instance == JsonDeserialize(IOEnv.MC_INSTANCE)
NInits   == Len(Instance.inits)
AllOps   == Instance.ops
FLibI    == Instance.inits[1].flib

VARIABLES M,      \* [sp, bases, cm, rm, grefs]
          hist, last
vars == <<M, hist, last>>

-----------------------------------------------------------------------------
(* Views of M                                                              *)

\* definitions = the defined members only
DefOf(MM) ==
    [ sp    |-> MM.sp,
      bases |-> MM.bases,
      cells |-> [s \in MM.sp |-> [n \in {x \in DOMAIN MM.cm[s] : ~MM.cm[s][x].derived} |->
                                    [f |-> MM.cm[s][n].f, cached |-> MM.cm[s][n].cached, an |-> 0]]],
      refs  |-> [s \in MM.sp |-> [n \in {x \in DOMAIN MM.rm[s] : ~MM.rm[s][x].derived} |->
                                    [v |-> MM.rm[s][n].dv, mode |-> MM.rm[s][n].mode]]],
      grefs |-> MM.grefs,
      pf    |-> <<>>, inp |-> <<>>, an |-> FALSE,
      span  |-> [s \in MM.sp |-> 0],
      flib  |-> FLibI ]

\* what the public API would report (same shape as harness/world.py project_defs)
ProjOf(MM) ==
    LET S == SetToSeq(MM.sp) IN
    [ sp     |-> S,
      bases  |-> [i \in 1..Len(S) |-> <<S[i], IF C3(DefOf(MM), S[i]) = Fail THEN <<>> ELSE Tail(C3(DefOf(MM), S[i]))>>],
      dbases |-> [i \in 1..Len(S) |-> <<S[i], MM.bases[S[i]]>>],
      cells  |-> [i \in 1..Len(S) |-> <<S[i], [n \in DOMAIN MM.cm[S[i]] |->
                     [f |-> MM.cm[S[i]][n].f, cached |-> MM.cm[S[i]][n].cached, an |-> 0,
                      derived |-> MM.cm[S[i]][n].derived]]>>],
      refs   |-> [i \in 1..Len(S) |-> <<S[i], [n \in DOMAIN MM.rm[S[i]] |->
                     [v |-> MM.rm[S[i]][n].v, mode |-> MM.rm[S[i]][n].mode,
                      derived |-> MM.rm[S[i]][n].derived]]>>],
      grefs  |-> [n \in DOMAIN MM.grefs |-> [v |-> MM.grefs[n].v]],
      dir    |-> [i \in 1..Len(S) |-> <<S[i], SetToSeq(Visible(DefOf(MM), S[i]))>>],
      badnames |-> <<>> ]

-----------------------------------------------------------------------------
(* Graph helpers (SpaceGraph)                                              *)

Subs(bs, s)  == {t \in DOMAIN bs : s \in BaseClosure([bases |-> bs], {t}, {})}
AcyclicB(bs) == \A s \in DOMAIN bs : s \notin BaseClosure([bases |-> bs], {s}, {})
MroB(bs, s)  == C3([bases |-> bs], s)

RECURSIVE TopoSeq(_, _, _)
\* the spaces of S in an order in which every space comes after its bases
TopoSeq(bs, S, acc) ==
    IF S = {} THEN acc
    ELSE LET ready == {t \in S : BaseClosure([bases |-> bs], {t}, {}) \cap S = {}}
             t == CHOOSE x \in ready : TRUE IN
         TopoSeq(bs, S \ {t}, Append(acc, t))
SubsOrdered(bs, s) == TopoSeq(bs, Subs(bs, s), <<>>)

NamespaceOf(MM, s) ==       \* names a space's namespace holds (cells, refs incl. model-level, children)
    DOMAIN MM.cm[s] \cup DOMAIN MM.rm[s] \cup DOMAIN MM.grefs
    \cup {"_self", "_space", "_model"}
    \cup {Last(t) : t \in {u \in MM.sp : Len(u) = Len(s) + 1 /\ SubSeq(u, 1, Len(s)) = s}}

-----------------------------------------------------------------------------
(* on_inherit of one space against the current members of its bases         *)

FirstDefIdx(MM, mro, kind, n) ==
    LET cont == IF kind = "c" THEN MM.cm ELSE MM.rm
        ix == {i \in 2..Len(mro) : n \in DOMAIN cont[mro[i]] /\ ~cont[mro[i]][n].derived} IN
    IF ix = {} THEN 0 ELSE MinOf(ix)

\* value a derived reference of space s gets from its first defined base b
BoundRef(MM, s, b, n) ==
    LET r == MM.rm[b][n]
        D0 == DefOf(MM) IN
    IF r.dv[1] \in {"int", "dead"} \/ r.mode = "absolute" THEN r.dv
    ELSE LET full == IF r.dv[1] = "ce" THEN Append(r.dv[2], r.dv[4]) ELSE r.dv[2]
             rt   == RelTarget(D0, s, b, full) IN
         IF rt = Fail THEN r.dv
         ELSE IF r.dv[1] = "ce"
              THEN (IF Front(rt) \in MM.sp /\ Last(rt) \in DOMAIN MM.cm[Front(rt)]
                    THEN CeObj(Front(rt), <<>>, Last(rt)) ELSE DeadCe)
              ELSE (IF rt \in MM.sp THEN SpObj(rt, <<>>) ELSE DeadObj)

InheritCells(MM, s) ==
    LET mro == MroB(MM.bases, s)
        bnames == UNION {DOMAIN MM.cm[mro[i]] : i \in 2..Len(mro)}
        keep == {n \in DOMAIN MM.cm[s] : ~MM.cm[s][n].derived \/ n \in bnames}
        all == keep \cup bnames IN
    [MM EXCEPT !.cm[s] = [n \in all |->
        IF n \in DOMAIN MM.cm[s] /\ ~MM.cm[s][n].derived THEN MM.cm[s][n]
        ELSE LET i == FirstDefIdx(MM, mro, "c", n) IN
             IF i = 0 THEN [f |-> "?", cached |-> TRUE, derived |-> TRUE]    \* (code: IndexError)
             ELSE [f |-> MM.cm[mro[i]][n].f, cached |-> MM.cm[mro[i]][n].cached, derived |-> TRUE]]]

InheritRefs(MM, s) ==
    LET mro == MroB(MM.bases, s)
        bnames == UNION {DOMAIN MM.rm[mro[i]] : i \in 2..Len(mro)}
        keep == {n \in DOMAIN MM.rm[s] : ~MM.rm[s][n].derived \/ n \in bnames}
        all == keep \cup bnames IN
    [MM EXCEPT !.rm[s] = [n \in all |->
        IF n \in DOMAIN MM.rm[s] /\ ~MM.rm[s][n].derived THEN MM.rm[s][n]
        ELSE LET i == FirstDefIdx(MM, mro, "r", n) IN
             IF i = 0 THEN [v |-> DeadObj, dv |-> DeadObj, mode |-> "auto", derived |-> TRUE]
             ELSE [v |-> BoundRef(MM, s, mro[i], n), dv |-> MM.rm[mro[i]][n].dv,
                   mode |-> MM.rm[mro[i]][n].mode, derived |-> TRUE]]]

RECURSIVE InheritSeq(_, _, _)
InheritSeq(MM, q, kind) ==
    IF Len(q) = 0 THEN MM
    ELSE InheritSeq(IF kind = "c" THEN InheritCells(MM, q[1]) ELSE InheritRefs(MM, q[1]),
                    Tail(q), kind)
\* references to objects that have disappeared hold dead handles
Dangling(MM, v) ==
    CASE v[1] = "sp" -> v[2] \notin MM.sp
      [] v[1] = "ce" -> v[2] \notin MM.sp \/ v[4] \notin DOMAIN MM.cm[v[2]]
      [] OTHER -> FALSE
Kill(MM) ==
    [MM EXCEPT !.rm = [s \in DOMAIN @ |-> [n \in DOMAIN @[s] |->
        [@[s][n] EXCEPT !.v = IF Dangling(MM, @) THEN (IF @[1] = "ce" THEN DeadCe ELSE DeadObj) ELSE @,
                        !.dv = IF Dangling(MM, @) THEN (IF @[1] = "ce" THEN DeadCe ELSE DeadObj) ELSE @]]]]

\* cells of all affected spaces first, then their references (instruction
\* list); a reference derived from a base reference whose target was deleted
\* meanwhile gets the dead handle
UpdateSpaces(MM, q) == Kill(InheritSeq(Kill(InheritSeq(MM, q, "c")), q, "r"))

-----------------------------------------------------------------------------
(* Public operations                                                       *)

Idle == Len(hist) <= MaxOps
Done(op, res, MM) == /\ hist' = Append(hist, op) /\ last' = [op |-> op, res |-> res] /\ M' = MM

\* name-conflict test of add_bases, per descendant, over its new MRO
Conflict(MM, bs, t) ==
    LET mro == MroB(bs, t)
        cn == UNION {DOMAIN MM.cm[mro[i]] : i \in 1..Len(mro)}
        rn == UNION {DOMAIN MM.rm[mro[i]] : i \in 1..Len(mro)}
        sn == {Last(u) : u \in {w \in MM.sp : Len(w) = Len(t) + 1 /\ SubSeq(w, 1, Len(t)) = t}} IN
    (cn \cap rn) \cup (cn \cap sn) \cup (rn \cap sn) # {}

\* a relative-mode reference that cannot be rebound makes add_bases fail
RelOutOfScope(MM, bs, t) ==
    LET mro == MroB(bs, t)
        MB == [MM EXCEPT !.bases = bs] IN
    \E i \in 2..Len(mro) : \E n \in DOMAIN MM.rm[mro[i]] :
        LET r == MM.rm[mro[i]][n] IN
        /\ ~r.derived /\ r.mode = "relative" /\ r.dv[1] \in {"sp", "ce"}
        /\ ~(n \in DOMAIN MM.rm[t] /\ ~MM.rm[t][n].derived)
        /\ FirstDefIdx(MM, mro, "r", n) = i
        /\ RelTarget(DefOf(MB), t, mro[i],
                     IF r.dv[1] = "ce" THEN Append(r.dv[2], r.dv[4]) ELSE r.dv[2]) = Fail

AddBases(op) ==
    /\ Idle /\ op.op = "add_bases"
    /\ LET s == op.s
           bs == [M.bases EXCEPT ![s] = SelectSeq(@, LAMBDA b : b \notin Range(op.bs)) \o op.bs]
           aff == {s} \cup Subs(bs, s) IN
       IF \/ ~AcyclicB(bs) \/ \E t \in aff : MroB(bs, t) = Fail
          \/ \E t \in aff : Conflict(M, bs, t) \/ RelOutOfScope(M, bs, t)
       THEN Done(op, "rejected", M)
       ELSE Done(op, "ok", Kill(UpdateSpaces([M EXCEPT !.bases = bs], <<s>> \o SubsOrdered(bs, s))))

RemoveBases(op) ==
    /\ Idle /\ op.op = "remove_bases"
    /\ LET s == op.s
           bs == [M.bases EXCEPT ![s] = SelectSeq(@, LAMBDA b : b \notin Range(op.bs))] IN
       IF ~(Range(op.bs) \subseteq Range(M.bases[s])) THEN Done(op, "rejected", M)
       ELSE Done(op, "ok", Kill(UpdateSpaces([M EXCEPT !.bases = bs], <<s>> \o SubsOrdered(bs, s))))

\* SharedSpaceOperations._can_add(parent, name, CellsImpl)
CanAddCells(MM, s, n) ==
    /\ n \notin NamespaceOf(MM, s)
    /\ LET q == SubsOrdered(MM.bases, s)
           hit == {i \in 1..Len(q) : n \in NamespaceOf(MM, q[i])} IN
       hit = {} \/ n \in DOMAIN MM.cm[q[MinOf(hit)]]

NewCells(op) ==
    /\ Idle /\ op.op = "new_cells"
    /\ LET s == op.s  n == op.c IN
       IF ~CanAddCells(M, s, n) THEN Done(op, "rejected", M)
       ELSE LET M1 == [M EXCEPT !.cm[s] = Upd(@, n, [f |-> op.rec.f, cached |-> op.rec.cached, derived |-> FALSE])]
                q == SubsOrdered(M.bases, s)
                \* derived copy where the sub has none; a derived copy whose first
                \* defined base is now the new cells is re-derived; others untouched
                RECURSIVE Loop(_, _)
                Loop(MM, i) ==
                    IF i > Len(q) THEN MM
                    ELSE LET t == q[i]  mro == MroB(MM.bases, t) IN
                         IF n \in DOMAIN MM.cm[t]
                         THEN IF MM.cm[t][n].derived /\ FirstDefIdx(MM, mro, "c", n) # 0
                                 /\ mro[FirstDefIdx(MM, mro, "c", n)] = s
                              THEN Loop([MM EXCEPT !.cm[t][n] = [f |-> op.rec.f, cached |-> op.rec.cached, derived |-> TRUE]], i + 1)
                              ELSE Loop(MM, i + 1)
                         ELSE Loop([MM EXCEPT !.cm[t] = Upd(@, n, [f |-> op.rec.f, cached |-> op.rec.cached, derived |-> TRUE])], i + 1)
            IN Done(op, "ok", Loop(M1, 1))

DelCells(op) ==
    /\ Idle /\ op.op = "del_cells"
    /\ LET s == op.s  n == op.c IN
       IF n \notin DOMAIN M.cm[s] \/ M.cm[s][n].derived THEN Done(op, "rejected", M)
       \* (references to the deleted object die before a namesake is derived from a base)
       ELSE Done(op, "ok", Kill(UpdateSpaces(Kill([M EXCEPT !.cm[s] = Drop(@, {n})]),
                                             <<s>> \o SubsOrdered(M.bases, s))))

\* SpaceManager.set_cells_property: the cells itself becomes defined; derived
\* copies in subs whose first defined base is this cells follow
SetFormula(op) ==
    /\ Idle /\ op.op \in {"set_formula", "set_cached"}
    /\ LET s == op.s  n == op.c IN
       IF n \notin DOMAIN M.cm[s] THEN Done(op, "rejected", M)
       ELSE IF op.op = "set_cached" /\ M.cm[s][n].cached = op.b THEN Done(op, "ok", M)
       ELSE LET new == IF op.op = "set_formula" THEN [M.cm[s][n] EXCEPT !.f = op.f, !.derived = FALSE]
                       ELSE [M.cm[s][n] EXCEPT !.cached = op.b, !.derived = FALSE]
                M1 == [M EXCEPT !.cm[s][n] = new]
                q == SubsOrdered(M.bases, s)
                RECURSIVE Loop(_, _)
                Loop(MM, i) ==
                    IF i > Len(q) THEN MM
                    ELSE LET t == q[i]  mro == MroB(MM.bases, t) IN
                         IF n \in DOMAIN MM.cm[t] /\ MM.cm[t][n].derived
                            /\ FirstDefIdx(MM, mro, "c", n) # 0 /\ mro[FirstDefIdx(MM, mro, "c", n)] = s
                         THEN Loop([MM EXCEPT !.cm[t][n] = [new EXCEPT !.derived = TRUE]], i + 1)
                         ELSE Loop(MM, i + 1)
            IN Done(op, "ok", Loop(M1, 1))

\* space.set_ref / setattr -> ReferenceManager.new_ref | change_ref
SetRef(op) ==
    /\ Idle /\ op.op = "set_ref" /\ Len(op.s) > 0
    /\ LET s == op.s  n == op.n
           q == SubsOrdered(M.bases, s)
           isnew == ~(n \in DOMAIN M.rm[s])
           \* relative mode must be re-bindable in every sub that will derive it
           relbad == op.mode = "relative" /\ op.v[1] \in {"sp", "ce"} /\
                     \E i \in 1..Len(q) :
                        /\ \A j \in 1..i : ~(n \in DOMAIN M.rm[q[j]] /\ ~M.rm[q[j]][n].derived)
                        /\ RelTarget(DefOf(M), q[i], s,
                               IF op.v[1] = "ce" THEN Append(op.v[2], op.v[4]) ELSE op.v[2]) = Fail
       IN
       IF n \in DOMAIN M.cm[s] \/ n \in {Last(t) : t \in {u \in M.sp : Len(u) = Len(s) + 1 /\ SubSeq(u, 1, Len(s)) = s}}
       THEN Done(op, "rejected", M)
       ELSE IF isnew /\ \E i \in 1..Len(q) :
                    \/ n \in DOMAIN M.cm[q[i]]
                    \/ n \in {Last(t) : t \in {u \in M.sp : Len(u) = Len(q[i]) + 1
                                                           /\ SubSeq(u, 1, Len(q[i])) = q[i]}}
       THEN Done(op, "rejected", M)       \* a sub space uses the name for a cells or a space
       ELSE IF relbad THEN Done(op, "rejected", M)
       ELSE LET M1 == [M EXCEPT !.rm[s] = Upd(@, n, [v |-> op.v, dv |-> op.v, mode |-> op.mode, derived |-> FALSE])]
            IN Done(op, "ok", Kill(InheritSeq(M1, q, "r")))

DelRef(op) ==
    /\ Idle /\ op.op = "del_ref" /\ Len(op.s) > 0
    /\ LET s == op.s  n == op.n IN
       IF n \notin DOMAIN M.rm[s] \/ M.rm[s][n].derived THEN Done(op, "rejected", M)
       ELSE Done(op, "ok", Kill(UpdateSpaces([M EXCEPT !.rm[s] = Drop(@, {n})],
                                             <<s>> \o SubsOrdered(M.bases, s))))

\* SpaceUpdater.del_defined_space, model.py:1812-1845: the space and its child tree
\* leave the graph (so every base list loses them), the sub spaces of the removed
\* spaces are re-derived bases first, references to removed objects go dead
SubtreeOf(MM, p) == {t \in MM.sp : Len(t) >= Len(p) /\ SubSeq(t, 1, Len(p)) = p}
DelSpace(op) ==
    /\ Idle /\ op.op = "del_space"
    /\ LET p == op.p IN
       IF p \notin M.sp THEN Done(op, "rejected", M)
       ELSE LET gone == SubtreeOf(M, p)
                keep == M.sp \ gone
                subs == (UNION {Subs(M.bases, g) : g \in gone}) \ gone
                bs   == [t \in keep |-> SelectSeq(M.bases[t], LAMBDA b : b \notin gone)]
                M1   == [M EXCEPT !.sp = keep, !.bases = bs,
                                  !.cm = [t \in keep |-> M.cm[t]], !.rm = [t \in keep |-> M.rm[t]]]
            IN Done(op, "ok", Kill(UpdateSpaces(Kill(M1), TopoSeq(bs, subs, <<>>))))

\* EditableParentImpl.new_space -> SpaceUpdater.new_space (+ add_bases when bases are given):
\* name test against the parent's namespace, then the guards of add_bases for the new space
NewSpace(op) ==
    /\ Idle /\ op.op = "new_space"
    /\ LET p == op.p
           par == Front(p)
           bsq == IF "bases" \in DOMAIN op THEN op.bases ELSE <<>>
           taken == IF Len(par) = 0
                    THEN DOMAIN M.grefs \cup {Last(t) : t \in {u \in M.sp : Len(u) = 1}}
                    ELSE NamespaceOf(M, par)
           M0 == [M EXCEPT !.sp = @ \cup {p},
                           !.bases = [t \in M.sp \cup {p} |-> IF t = p THEN bsq ELSE M.bases[t]],
                           !.cm = [t \in M.sp \cup {p} |-> IF t = p THEN <<>> ELSE M.cm[t]],
                           !.rm = [t \in M.sp \cup {p} |-> IF t = p THEN <<>> ELSE M.rm[t]]]
       IN
       IF \/ p \in M.sp \/ (Len(par) > 0 /\ par \notin M.sp) \/ Last(p) \in taken
          \/ ~(Range(bsq) \subseteq M.sp) \/ p \in Range(bsq)
       THEN Done(op, "rejected", M)
       ELSE IF \/ MroB(M0.bases, p) = Fail \/ Conflict(M0, M0.bases, p) \/ RelOutOfScope(M0, M0.bases, p)
       THEN Done(op, "rejected", M)
       ELSE Done(op, "ok", Kill(UpdateSpaces(M0, <<p>>)))

\* SpaceManager.rename_cells, model.py:1344-1369: only a defined cells, onto a name that
\* is free in the space and in every sub; the object lives on under the new name (so
\* references to it follow), derived copies in subs are deleted and derived anew
RenameCells(op) ==
    /\ Idle /\ op.op = "rename_cells"
    /\ LET s == op.s  c == op.c  c2 == op.c2 IN
       IF \/ c \notin DOMAIN M.cm[s] \/ M.cm[s][c].derived \/ ~CanAddCells(M, s, c2)
          \* "is a sub Cells of ...": a cells that overrides one of a base cannot be renamed
          \/ LET mro == MroB(M.bases, s) IN \E i \in 2..Len(mro) : c \in DOMAIN M.cm[mro[i]]
       THEN Done(op, "rejected", M)
       ELSE LET Rn(v) == IF v = CeObj(s, <<>>, c) THEN CeObj(s, <<>>, c2) ELSE v
                M1 == [M EXCEPT !.cm[s] = Upd(Drop(@, {c}), c2, M.cm[s][c]),
                                !.rm = [t \in DOMAIN @ |-> [n \in DOMAIN @[t] |->
                                          [@[t][n] EXCEPT !.v = Rn(@), !.dv = Rn(@)]]]]
            IN Done(op, "ok", Kill(UpdateSpaces(M1, SubsOrdered(M.bases, s))))

-----------------------------------------------------------------------------
MOfInit(j) ==
    LET D0 == DefsOf(j) IN
    [ sp |-> D0.sp, bases |-> D0.bases, grefs |-> D0.grefs,
      cm |-> [s \in D0.sp |-> [n \in DOMAIN D0.cells[s] |->
                [f |-> D0.cells[s][n].f, cached |-> D0.cells[s][n].cached, derived |-> FALSE]]],
      rm |-> [s \in D0.sp |-> [n \in DOMAIN D0.refs[s] |->
                [v |-> D0.refs[s][n].v, dv |-> D0.refs[s][n].v, mode |-> D0.refs[s][n].mode,
                 derived |-> FALSE]]] ]

Init ==
    /\ \E i \in 1..NInits :
          /\ M = UpdateSpaces(MOfInit(Instance.inits[i]),
                              TopoSeq(DefsOf(Instance.inits[i]).bases, DefsOf(Instance.inits[i]).sp, <<>>))
          /\ hist = <<[op |-> "init", id |-> i]>>
    /\ last = [op |-> [op |-> "init"], res |-> "ok"]

\* an operation naming a space (or object) that no longer exists cannot even be issued
SpacesOK(op) ==
    /\ ("s" \in DOMAIN op => op.s \in M.sp)
    /\ ("bs" \in DOMAIN op => Range(op.bs) \subseteq M.sp)
    /\ (op.op = "set_ref" => ~Dangling(M, op.v))

Next == \E i \in 1..Len(AllOps) : LET op == AllOps[i] IN
            IF ~SpacesOK(op) THEN Idle /\ Done(op, "rejected", M)
            ELSE
            AddBases(op) \/ RemoveBases(op) \/ NewCells(op) \/ DelCells(op)
            \/ SetFormula(op) \/ SetRef(op) \/ DelRef(op)
            \/ DelSpace(op) \/ NewSpace(op) \/ RenameCells(op)

Spec == Init /\ [][Next]_vars

-----------------------------------------------------------------------------
(* Property layer                                                          *)
Labels == DefsLabels(hist, DefOf(M), ProjOf(M)) \ {"DRIFT.RefValue"}

C03Labels == {"C03.SpaceTree", "C03.DerivedCellsNames", "C03.DerivedCellsDefs", "C03.DerivedRefsNames",
              "C03.DerivedRefsDefs", "C03.BasesIsC3", "C03.DirectBases"}
Inv_C03 == Labels \cap C03Labels = {}
Inv_C10 == "C10.ModeBinding" \notin Labels
Inv_C11 == "C11.WellFormed" \notin Labels
Inv_C12 == "C12.NamesUnique" \notin Labels /\ "C12.VisibleEqContainers" \notin Labels
\* a rejected edit changes nothing (C11)
RejectedUnchanged == [][last'.res = "rejected" => M' = M]_vars

Frontier == Len(hist) = MaxOps + 1
DumpHist == (Dump /\ Frontier) => PrintT(<<"MBT", ToJson(hist)>>)
Bound    == DumpHist
=============================================================================
