--------------------------- MODULE MxIOSpecProps ---------------------------
(***************************************************************************)
(* Property layer of C18: "an IOSpec lives exactly as long as a reference  *)
(* to its value".                                                          *)
(*                                                                         *)
(* Everything here is a pure operator over OBSERVATIONS and EVENTS; the    *)
(* same operators judge                                                    *)
(*   - the states of the algorithm-layer model MxIOSpec (TLC, exhaustive), *)
(*   - recorded executions of the real library (MxIOSpecTrace).            *)
(*                                                                         *)
(* Observation O (what the recorder projects after every public call):     *)
(*   O.M[m] = [open, base, sp,                                             *)
(*             refs  : {[sp, n, v, d]}   own references of the model, of   *)
(*                     its spaces (sp = "" for model level); d = derived   *)
(*             v2r   : {[v, sp, n]}      ReferenceManager._valid_to_refs   *)
(*             specs : {[v, loc]}        model.iospecs                     *)
(*             gs    : {[v, loc]}        model.get_spec(value), all values *)
(*            ]                                                            *)
(*   O.ios  = <<[g, loc, v], ...>>       mxsys.iomanager.ios, spec by spec *)
(*   O.sane = mxsys._check_sanity() passed                                 *)
(* Values are small integers given by the harness BY IDENTITY (0 = a plain *)
(* int, -1 = an object the harness never created, -2 = IO object without   *)
(* specs).                                                                 *)
(*                                                                         *)
(* Event e = [op, m, ..., res] with res in {"ok", "rejected"}:             *)
(*   new_spec(m, sp, n, loc, v)   assign(m, sp, n, v)   del_ref(m, sp, n)  *)
(*   update(m, old, new)          add_base(m)  remove_base(m)              *)
(*   del_space(m, sp)   close(m)   write_read(m, rt, rspecs)               *)
(*                                                                         *)
(* Property-layer state P (history variables, computed from the operation  *)
(* ARGUMENTS and the observed references only -- never from what the code  *)
(* reports about specs):                                                   *)
(*   P.io[m]  : {[v, loc]}  specs that must exist: created by an accepted  *)
(*              new_spec, carried to the new value by update, dropped as   *)
(*              soon as no reference of m is bound to the value, dropped   *)
(*              by close                                                   *)
(*   P.taint  : {[m, v, k]} value v of model m went through the specific   *)
(*              situation of known finding k (see KF triggers below)       *)
(***************************************************************************)
EXTENDS Integers, Sequences, FiniteSets, TLC

SeqRange(s) == {s[i] : i \in DOMAIN s}

BoundVals(O, m) == {r.v : r \in O.M[m].refs}
DefRefsOf(O, m, v) == {r \in O.M[m].refs : r.v = v /\ ~r.d}
RefAt(O, m, sp, n) == {r \in O.M[m].refs : r.sp = sp /\ r.n = n}
OpenModels(O) == {m \in DOMAIN O.M : O.M[m].open}

P0(models) == [io |-> [m \in models |-> {}], taint |-> {}]

-----------------------------------------------------------------------------
(* Which specs must exist after event e (from arguments + observed refs)   *)

IoRaw(P, e, m) ==
    IF e.m # m \/ e.res # "ok" THEN P.io[m]
    ELSE CASE e.op = "new_spec" -> P.io[m] \cup {[v |-> e.v, loc |-> e.loc]}
           [] e.op = "update"   -> {[v |-> IF x.v = e.old THEN e.new ELSE x.v, loc |-> x.loc] :
                                        x \in P.io[m]}
           [] e.op = "close"    -> {}
           [] OTHER             -> P.io[m]

IoAfter(P, e, post) ==
    [m \in DOMAIN P.io |-> {x \in IoRaw(P, e, m) : post.M[m].open /\ x.v \in BoundVals(post, m)}]

-----------------------------------------------------------------------------
(* Known findings: the SPECIFIC situations in which modelx is known to     *)
(* break C18.  A value that went through one of them is tainted; a         *)
(* discrepancy that concerns only tainted values is reported under the     *)
(* finding's label, anything else under the property's own label.          *)

KF_Rebind  == "KF:C18.rebind-same-value"
KF_Twice   == "KF:C18.value-registered-twice"
KF_Update  == "KF:C18.update-to-bound-value"
KF_DelSp   == "KF:C18.space-deleted"
KF_Merge   == "KF:C18.update-merges-specs"

HasSpN(e) == e.op \in {"new_spec", "assign", "del_ref"}

\* KF_Rebind: a name is assigned the very value it is already bound to and it
\* is the only defined reference of the model bound to that value
\* (ReferenceManager.change_ref removes the last registered reference before
\* registering the new one, so the spec is deleted: model.py change_ref)
TrigRebind(P, pre, e) ==
    IF e.op \in {"assign", "new_spec"} /\ e.res = "ok"
       /\ \E r \in RefAt(pre, e.m, e.sp, e.n) : r.v = e.v /\ ~r.d
       /\ Cardinality(DefRefsOf(pre, e.m, e.v)) = 1
       /\ e.v \in {x.v : x \in P.io[e.m]} \cup (IF e.op = "new_spec" THEN {e.v} ELSE {})
    THEN {[m |-> e.m, v |-> e.v, k |-> KF_Rebind]} ELSE {}

\* KF_Twice: a second spec is created for a value that already has one in the
\* model (nothing rejects it; iospecs / get_spec / del_ref only ever see the first)
TrigTwice(P, pre, e) ==
    IF e.op = "new_spec" /\ e.res = "ok" /\ e.v \in {x.v : x \in P.io[e.m]}
    THEN {[m |-> e.m, v |-> e.v, k |-> KF_Twice]} ELSE {}

\* KF_Update: update_pandas(old, new) where new is already bound in the model:
\* update_value overwrites _valid_to_refs[id(new)] and forgets those references
BothHaveSpecs(P, e) == {e.old, e.new} \subseteq {x.v : x \in P.io[e.m]}
TrigUpdate(P, pre, e) ==
    IF e.op = "update" /\ e.new # e.old /\ e.new \in BoundVals(pre, e.m)
       /\ e.old \in {t.v : t \in pre.M[e.m].v2r}
       /\ ~BothHaveSpecs(P, e)
    THEN {[m |-> e.m, v |-> e.new, k |-> KF_Update], [m |-> e.m, v |-> e.old, k |-> KF_Update]}
    ELSE {}

\* KF_Merge: update_pandas(old, new) where old AND new each have a spec: the
\* spec of old takes value new (update_spec_value), so two specs share one
\* value; iospecs / get_spec / del_ref only ever see the first and the other
\* one is left in the manager when the value is released
TrigMerge(P, pre, e) ==
    IF e.op = "update" /\ e.res = "ok" /\ e.new # e.old /\ BothHaveSpecs(P, e)
    THEN {[m |-> e.m, v |-> e.new, k |-> KF_Merge]} ELSE {}

\* KF_DelSp: deleting a space does not tell the ReferenceManager: the values
\* its defined references were bound to keep their registration (and spec)
TrigDelSp(P, pre, e) ==
    IF e.op = "del_space" /\ e.res = "ok"
    THEN {[m |-> e.m, v |-> r.v, k |-> KF_DelSp] :
              r \in {r \in pre.M[e.m].refs : r.sp = e.sp /\ ~r.d}}
    ELSE {}

\* a taint ends when nothing of the value is left in the model: no reference,
\* no registration, no entry of the manager's table
Clean(O, m, v) ==
    /\ m \in DOMAIN O.M
    /\ v \notin BoundVals(O, m)
    /\ ~\E t \in O.M[m].v2r : t.v = v
    /\ ~\E y \in SeqRange(O.ios) : y.g = m /\ y.v = v

\* update carries the history of the old value over to the new one
Carried(P, e) ==
    IF e.op = "update" /\ e.res = "ok"
    THEN {[m |-> t.m, v |-> e.new, k |-> t.k] : t \in {t \in P.taint : t.m = e.m /\ t.v = e.old}}
    ELSE {}

\* taints in force while event e is judged / kept afterwards
TaintNow(P, pre, e) ==
    P.taint \cup Carried(P, e) \cup TrigRebind(P, pre, e) \cup TrigTwice(P, pre, e)
            \cup TrigUpdate(P, pre, e) \cup TrigDelSp(P, pre, e) \cup TrigMerge(P, pre, e)
TaintKept(T, post) == {t \in T : ~Clean(post, t.m, t.v)}

\* P2 = state used to judge event e (taints not yet ended); PNext(P2) = state carried on
PAfter(P, pre, e, post) == [io |-> IoAfter(P, e, post), taint |-> TaintNow(P, pre, e)]
PNext(P2, post) == [P2 EXCEPT !.taint = TaintKept(@, post)]

\* label of a discrepancy about value v of model m (a discrepancy about an
\* object the harness cannot identify, v < 0, is attributed to the tainted
\* values of the model, if any)
LabelFor(T, m, v, dflt) ==
    LET ks == {t.k : t \in {t \in T : t.m = m /\ (t.v = v \/ v < 0)}} IN
    IF ks = {} THEN {dflt} ELSE ks

SymD(a, b) == (a \ b) \cup (b \ a)

-----------------------------------------------------------------------------
(* C18.SpecsEqBoundValues: model.iospecs (and get_spec) = the specs whose  *)
(* value is bound to at least one reference of the model                   *)
SpecLabels(P2, post) ==
    UNION { UNION { LabelFor(P2.taint, m, x.v, "C18.SpecsEqBoundValues") :
                      x \in SymD(P2.io[m], post.M[m].specs)
                            \cup SymD(P2.io[m], post.M[m].gs) } : m \in OpenModels(post) }

(* C18.NoOrphanSpec: the manager's table holds exactly those specs         *)
ExpectedIos(P2) == UNION { {[g |-> m, loc |-> x.loc, v |-> x.v] : x \in P2.io[m]} : m \in DOMAIN P2.io }
OrphanLabels(P2, post) ==
    UNION { LabelFor(P2.taint, y.g, y.v, "C18.NoOrphanSpec") :
               y \in SymD(ExpectedIos(P2), SeqRange(post.ios)) }

(* C18.LocationsUnique: no two specs claim the same file location          *)
LocLabels(post) ==
    LET s == SeqRange(post.ios) IN
    IF /\ Len(post.ios) = Cardinality(s)
       /\ \A a \in s, b \in s : (a.g = b.g /\ a.loc = b.loc) => a = b
       /\ \A m \in OpenModels(post) :
             \A a \in post.M[m].specs, b \in post.M[m].specs : a.loc = b.loc => a = b
    THEN {} ELSE {"C18.LocationsUnique"}

(* C18.RejectedLeavesNothing: a raising operation leaves references, specs *)
(* and the manager's table as they were                                    *)
Core(O) == [M |-> [m \in DOMAIN O.M |-> [open |-> O.M[m].open, refs |-> O.M[m].refs,
                                          specs |-> O.M[m].specs, gs |-> O.M[m].gs]],
            ios |-> SeqRange(O.ios)]
ValuesOf(pre, e) ==
    (IF e.op \in {"new_spec", "assign"} THEN {e.v} ELSE {})
    \cup (IF e.op = "update" THEN {e.old, e.new} ELSE {})
    \cup (IF HasSpN(e) THEN {r.v : r \in RefAt(pre, e.m, e.sp, e.n)} ELSE {})
    \cup (IF e.op \in {"close", "write_read", "del_space"} THEN BoundVals(pre, e.m) ELSE {})
RejectedLabels(P2, pre, e, post) ==
    IF e.res = "rejected" /\ Core(pre) # Core(post)
    THEN LET ks == {t.k : t \in {t \in P2.taint : t.m = e.m /\ t.v \in ValuesOf(pre, e)}} IN
         IF ks = {} THEN {"C18.RejectedLeavesNothing"} ELSE ks
    ELSE {}

(* C18.SanityChecks: the library's own consistency checks pass             *)
SanityLabels(post) == IF post.sane THEN {} ELSE {"C18.SanityChecks"}

(* C18.SavedSpecsRoundTrip: on write + read-back every live spec's file    *)
(* exists and the value read back is equal (content compared by TLC) and   *)
(* bound to the same names                                                 *)
RoundTripLabels(P2, e) ==
    IF e.op # "write_read" THEN {}
    ELSE LET exp == P2.io[e.m]
             Good(x) == \E y \in e.rt : /\ y.v = x.v /\ y.loc = x.loc /\ y.exists /\ y.eq
                                        /\ y.src = y.rd /\ y.refs_ok
             bad == {x \in exp : ~Good(x)}
             dl  == SymD({x.loc : x \in exp}, e.rspecs)
             badl == {x \in exp : x.loc \in dl} IN
         IF e.res # "ok"
         THEN \* the save or the load failed as a whole: every live spec is lost; with a
              \* tainted value in the model the failure is attributed to its finding
              IF exp = {} THEN {} ELSE LabelFor(P2.taint, e.m, -1, "C18.SavedSpecsRoundTrip")
         ELSE
         UNION {LabelFor(P2.taint, e.m, x.v, "C18.SavedSpecsRoundTrip") : x \in bad \cup badl}
         \cup (IF e.res = "ok" /\ (dl \ {x.loc : x \in exp}) # {}
               THEN {"C18.SavedSpecsRoundTrip"} ELSE {})
         \* references bound to modelx objects are bound to the corresponding
         \* objects of the copy
         \cup (IF e.res = "ok" /\ ~e.orefs_ok THEN {"C18.SavedSpecsRoundTrip"} ELSE {})

AllLabels(P2, pre, e, post) ==
    SpecLabels(P2, post) \cup OrphanLabels(P2, post) \cup LocLabels(post)
    \cup RejectedLabels(P2, pre, e, post) \cup SanityLabels(post) \cup RoundTripLabels(P2, e)

Judge(P, pre, e, post) ==
    CHOOSE j \in {[P |-> PNext(P2, post), labels |-> AllLabels(P2, pre, e, post)] :
                     P2 \in {PAfter(P, pre, e, post)}} : TRUE

PropLabels == {"C18.SpecsEqBoundValues", "C18.NoOrphanSpec", "C18.LocationsUnique",
               "C18.RejectedLeavesNothing", "C18.SanityChecks", "C18.SavedSpecsRoundTrip"}
KFLabels   == {KF_Rebind, KF_Twice, KF_Update, KF_DelSp, KF_Merge}
=============================================================================
