--------------------------- MODULE MxFormulaBase ---------------------------
(***************************************************************************)
(* C20 -- formula capture (modelx/core/formula.py, cells.py:907-944).      *)
(*                                                                         *)
(* This module holds everything that is a FUNCTION of its arguments:       *)
(*   part 1  abstract sources: the grammar of layouts and the physical     *)
(*           lines Text(lay) of each layout;                               *)
(*   part 2  the meaning of a text (what the function it defines returns); *)
(*   part 3  the capture pipeline of the code, transcribed step by step    *)
(*           over abstract lines (inspect block, textwrap.dedent,          *)
(*           remove_decorator, replace_funcname, compile; lambda           *)
(*           extraction; replace_docstring);                               *)
(*   part 4  the C20 predicates, over OBSERVATIONS (records with the same  *)
(*           shape whether they are projected from the model or recorded   *)
(*           from the real library) and the predicates that describe the   *)
(*           situations of the known findings.                             *)
(* MxFormula.tla runs part 3 as a state machine and checks part 4 as       *)
(* invariants; MxFormulaTrace.tla judges recorded executions with part 4   *)
(* and compares them with part 3 (DRIFT).                                  *)
(*                                                                         *)
(* An abstract source is a sequence of PHYSICAL LINES                      *)
(*      [id, k, col, d]                                                    *)
(*   id  : position in the original text (unique; the rendering puts it in *)
(*         the line so that it can be found again in formula.source)       *)
(*   k   : kind of line (below)                                            *)
(*   col : number of leading white-space characters                        *)
(*   d   : docstring code for "doc"/"one" lines; for "lamB": 1 when the    *)
(*         line break before it is protected by the lambda's own brackets  *)
(*         or a backslash, 0 when only the enclosing call's brackets allow *)
(*         it                                                              *)
(***************************************************************************)
EXTENDS Integers, Sequences, FiniteSets, TLC

Min(S) == CHOOSE x \in S : \A y \in S : x <= y
Max(S) == CHOOSE x \in S : \A y \in S : x >= y
Range(f) == {f[i] : i \in DOMAIN f}

RECURSIVE SumTo(_, _)
SumTo(f, n) == IF n = 0 THEN 0 ELSE f[n] + SumTo(f, n - 1)
SumSeq(f) == SumTo(f, Len(f))

ERR == -1000001              \* "the call raised"

-----------------------------------------------------------------------------
(* part 1: layouts                                                         *)

DefForms == {"deftext", "funcobj"}
LamForms == {"lamtext", "lamobj"}
IsDef(lay) == lay.form \in DefForms
IsObj(lay) == lay.form \in {"funcobj", "lamobj"}

WsKinds == {"s0", "s4", "s8", "t1"}       \* base indentation: 0/4/8 spaces, one tab
Ind(ws)  == CASE ws = "s0" -> 0 [] ws = "s4" -> 4 [] ws = "s8" -> 8 [] ws = "t1" -> 1
Unit(ws) == IF ws = "t1" THEN 1 ELSE 4     \* one more level: 4 spaces / one tab
WsNo(ws) == CASE ws = "s0" -> 0 [] ws = "s4" -> 1 [] ws = "s8" -> 2 [] ws = "t1" -> 3

\* decorator line kinds of the decorated def (deco + 1 indexes the table)
\*   deco1 `@d`   decoc `@d(1)`   decomA/decomB `@d(1,` / `2)`   decocmt: a comment line
DecoTable == << <<>>,
                <<"deco1">>,
                <<"decoc">>,
                <<"decomA", "decomB">>,
                <<"deco1", "decoc">>,
                <<"decoc", "decocmt", "deco1">> >>
NDeco == Len(DecoTable)

\* body recipes (body + 1 indexes the table); the return line follows
BodyTable == << <<>>,
                <<"cmt", "stmt", "blank", "stmttc">>,
                <<"ndeco", "ndefA", "ndefB", "nlam">>,
                <<"nclsA", "nclsB", "compr">>,
                <<"mlA", "mlB", "cmt">>,
                <<"blank", "cmt", "stmt">>,
                <<"strA", "strB", "stmt">>,
                <<"stmt", "c0cmt", "stmt">> >>
NBody == Len(BodyTable)

\* docstrings already in the text: 0 none, 1 'sq', 2 """dq""", 3 three physical lines,
\* 4 '''ends in a quote"''', 5 r"""raw with backslash"""
OrigDocs == 0..6     \* (6: three physical lines like 3, the middle one holding white space only)
OrigDocLen(dc) == IF dc = 0 THEN 0 ELSE IF dc \in {3, 6} THEN 3 ELSE 1

\* documentation strings handed to set_doc: 11 plain, 12 two lines, 13 with ',
\* 14 ending in ", 15 with the two characters \ n, 16 containing """, 17 ending in """
NewDocs == 11..17
NewDocLen(k) == IF k = 12 THEN 2 ELSE 1
EscDoc == 25                     \* doc 15 after Python processed the escape
NEWID == 900                     \* ids of the lines of a new docstring: 901, 902

CommentKinds  == {"lead", "mid", "decocmt", "cmt", "c0cmt", "last"}
DecoLineKinds == {"deco1", "decoc", "decomA", "decomB"}
HdrFirstKinds == {"hdr", "hdrann", "hdrA", "one", "onetc"}
OneKinds      == {"one", "onetc"}
LamKinds      == {"lamA", "lamB"}

L(k, col, d) == [id |-> 0, k |-> k, col |-> col, d |-> d]
Number(T) == [i \in DOMAIN T |-> [T[i] EXCEPT !.id = i]]

DefText(lay) ==
    LET b  == Ind(lay.ws)
        c1 == b + Unit(lay.ws)
        c2 == b + 2 * Unit(lay.ws)
        dk == DecoTable[lay.deco + 1]
        bk == BodyTable[lay.body + 1]
        leadL == IF lay.pre = "both" THEN <<L("lead", b, 0)>> ELSE <<>>
        midL  == IF lay.pre = "both" THEN <<L("mid", b, 0)>> ELSE <<>>
        decoL == [i \in DOMAIN dk |-> L(dk[i], IF dk[i] = "decomB" THEN c2 ELSE b, 0)]
        hdrL  == CASE lay.hdr = "norm" -> <<L("hdr", b, 0)>>
                   [] lay.hdr = "ann"  -> <<L("hdrann", b, 0)>>
                   [] lay.hdr = "ml"   -> <<L("hdrA", b, 0), L("hdrB", b + 6, 0)>>
                   [] lay.hdr = "one"  -> <<L(IF lay.tail = "tc" THEN "onetc" ELSE "one", b, lay.doc)>>
        docL  == IF lay.hdr = "one" THEN <<>>
                 ELSE [i \in 1..OrigDocLen(lay.doc) |-> L("doc", c1, lay.doc)]
        bodyL == [i \in DOMAIN bk |->
                    L(bk[i], CASE bk[i] \in {"ndefB", "nclsB", "mlB"} -> c2
                               [] bk[i] \in {"blank", "c0cmt"} -> 0
                               [] OTHER -> c1, 0)]
        tailL == CASE lay.hdr = "one"     -> <<>>
                   [] lay.tail = "none"   -> <<L("ret", c1, 0)>>
                   [] lay.tail = "tc"     -> <<L("rettc", c1, 0)>>
                   [] lay.tail = "last"   -> <<L("ret", c1, 0), L("last", c1, 0)>>
    IN Number(leadL \o decoL \o midL \o hdrL \o docL \o bodyL \o tailL)

\* lambda statements: lamA/lamB hold the lambda expression, lpre/lpost only other text
\* statements holding SEVERAL lambdas (objects only): one entry per physical line
\*   dict  T = {"a": <lambda>,\n "b": <lambda>,\n "c": <lambda>}     pair  p1, p2 = mk(<lambda>,\n <lambda>)
\*   same  p1, p2 = mk(<lambda>, <lambda>)  on ONE line
\* lay.pick says which of them the cells is made from; the others are "lsib" lines
MultiEmbeds == {"dict", "pair", "same"}
NEntries(e) == IF e = "dict" THEN 3 ELSE 2
MultiText(lay) ==
    LET b == Ind(lay.ws)
        entry(i) == LET c == IF i = 1 THEN b ELSE b + 4 IN
                    IF i # lay.pick THEN <<L("lsib", c, 0)>>
                    ELSE CASE lay.ml = "none"  -> <<L("lamA", c, 1)>>
                           [] lay.ml = "own"   -> <<L("lamA", c, 1), L("lamB", c + 4, 1)>>
                           [] lay.ml = "outer" -> <<L("lamA", c, 1), L("lamB", c + 4, 0)>>
    IN IF lay.embed = "same" THEN <<L("lamA", b, 1)>>
       ELSE IF lay.embed = "pair" THEN entry(1) \o entry(2)
       ELSE entry(1) \o entry(2) \o entry(3)

LamText(lay) ==
    LET b == Ind(lay.ws)
        c == b + 4
    IN Number(CASE lay.embed \in MultiEmbeds -> MultiText(lay)
                [] lay.ml = "none"   -> <<L("lamA", b, 1)>>
                [] lay.ml = "own"    -> <<L("lamA", b, 1), L("lamB", c, 1)>>
                [] lay.ml = "bs"     -> <<L("lamA", b, 1), L("lamB", c, 1)>>
                [] lay.ml = "outer"  -> <<L("lamA", b, 1), L("lamB", c, 0)>>
                [] lay.ml = "before" -> <<L("lpre", b, 0), L("lamA", c, 1), L("lpost", c, 0)>>
                [] lay.ml = "after"  -> <<L("lamA", b, 1), L("lpost", c, 0)>>)

Text(lay) == IF IsDef(lay) THEN DefText(lay) ELSE LamText(lay)

\* --- the product -----------------------------------------------------------
\* (enumerated by MxFormula!Init dimension by dimension; a constant-level set of all the
\*  layouts would be evaluated -- and sorted -- by TLC at every start)
\*   def forms, normal body : form x ws x deco x pre{none,both} x hdr{norm,ann,ml} x doc 0..5
\*                            x body x tail{none,tc,last}
\*   def forms, one-line body: form x ws x deco x pre x doc{0,2} x tail{none,tc}
\*   lambda forms           : form x ws x embed x ml x lbody x lpar x cmt, LamValid
\*   several lambdas (lamobj): ws x embed{dict,pair,same} x pick x ml{none,own,outer} x lbody
\*                            x lpar x cmt, MultiValid
\*   lbody "nest": the body of the lambda contains another lambda (in its second part)
Embeds == {"bare", "assign", "semi", "call", "paren"}
MultiValid(e, m, pk) == pk <= NEntries(e) /\ (e = "same" => m = "none")
MlKinds == {"none", "own", "bs", "outer", "before", "after"}
LamValid(f, e, m) ==
    /\ (m \in {"outer", "before", "after"} => e \in {"call", "paren"})
    /\ (f = "lamobj" => e # "bare")

StrNo(s, seq) == CHOOSE i \in DOMAIN seq : seq[i] = s
\* a number that changes with every dimension (used to spread the derived choices)
Mix(lay) ==
    WsNo(lay.ws) + 3 * lay.deco + 5 * lay.doc + 7 * lay.body
    + 11 * StrNo(lay.pre, <<"none", "both">>)
    + 13 * StrNo(lay.hdr, <<"norm", "ann", "ml", "one", "-">>)
    + 17 * StrNo(lay.tail, <<"none", "tc", "last", "-">>)
    + 19 * StrNo(lay.embed, <<"bare", "assign", "semi", "call", "paren", "dict", "pair", "same", "-">>)
    + 23 * StrNo(lay.ml, <<"none", "own", "bs", "outer", "before", "after", "-">>)
    + 29 * StrNo(lay.lbody, <<"plain", "compr", "pp", "nest", "-">>)
    + 31 * StrNo(lay.lpar, <<"xy", "x", "none", "-">>)
    + (IF lay.cmt THEN 37 ELSE 0) + 43 * lay.pick
    + 41 * StrNo(lay.form, <<"deftext", "funcobj", "lamtext", "lamobj">>)

\* a hash of all the dimensions (sampling)
Digits(lay) ==
    << StrNo(lay.form, <<"deftext", "funcobj", "lamtext", "lamobj">>), WsNo(lay.ws), lay.deco,
       StrNo(lay.pre, <<"none", "both">>), StrNo(lay.hdr, <<"norm", "ann", "ml", "one", "-">>),
       lay.doc, lay.body, StrNo(lay.tail, <<"none", "tc", "last", "-">>),
       StrNo(lay.embed, <<"bare", "assign", "semi", "call", "paren", "dict", "pair", "same", "-">>),
       StrNo(lay.ml, <<"none", "own", "bs", "outer", "before", "after", "-">>),
       StrNo(lay.lbody, <<"plain", "compr", "pp", "nest", "-">>), StrNo(lay.lpar, <<"xy", "x", "none", "-">>),
       IF lay.cmt THEN 1 ELSE 0, lay.pick >>
RECURSIVE HashFrom(_, _, _)
HashFrom(h, ds, i) == IF i > Len(ds) THEN h ELSE HashFrom((h * 31 + ds[i] + 1) % 10007, ds, i + 1)
Hash(lay, seed) == HashFrom(seed % 10007, Digits(lay), 1)

\* how the definition reaches modelx (derived from the layout, so that every layout has one)
\*   new : space.new_cells(name, formula=...)        set : cells.formula = ...
\*   dec : the mx.defcells decorator (function objects only)
Via(lay) ==
    IF lay.form = "funcobj" THEN <<"new", "set", "dec">>[(Mix(lay) % 3) + 1]
    ELSE <<"new", "set">>[(Mix(lay) % 2) + 1]
\* text forms: is there a newline after the last line?
EofNl(lay) == IsObj(lay) \/ (Mix(lay) \div 3) % 2 = 0

\* with the decorator, modelx takes the name of the def unless the call form names it
CellsName(lay) ==
    IF Via(lay) = "dec" /\ DecoTable[lay.deco + 1] # <<>>
          /\ DecoTable[lay.deco + 1][Len(DecoTable[lay.deco + 1])] # "deco1" THEN "foo"
    ELSE IF Via(lay) = "dec" THEN "f" ELSE "foo"

-----------------------------------------------------------------------------
(* part 2: meaning                                                         *)

NoDef == -1
Params(lay) ==
    IF IsDef(lay)
    THEN IF lay.hdr = "norm" THEN <<[n |-> "x", d |-> NoDef], [n |-> "y", d |-> NoDef]>>
         ELSE <<[n |-> "x", d |-> NoDef], [n |-> "y", d |-> 2]>>
    ELSE CASE lay.lpar = "xy"   -> <<[n |-> "x", d |-> NoDef], [n |-> "y", d |-> 2]>>
           [] lay.lpar = "x"    -> <<[n |-> "x", d |-> NoDef]>>
           [] lay.lpar = "none" -> <<>>
ParamNames(lay) == [i \in DOMAIN Params(lay) |-> Params(lay)[i].n]

Samples == << <<1, 2>>, <<3, 0>>, <<4>>, <<>> >>
Coef(n) == IF n = "x" THEN 3 ELSE 5

\* value of f(*A) for f = "sum of Coef(p)*p over the parameters + G + extra"
Apply(P, A, g, extra) ==
    IF Len(A) > Len(P) \/ \E i \in (Len(A) + 1)..Len(P) : P[i].d = NoDef THEN ERR
    ELSE SumSeq([i \in DOMAIN P |-> Coef(P[i].n) * (IF i <= Len(A) THEN A[i] ELSE P[i].d)])
         + g + extra

\* what a body line adds to the returned value (the rendering makes the return expression
\* use every such line: v7, f(0), h9(0), K10.k, len(c11), m12, len(s13))
Contrib(T, i) ==
    CASE T[i].k \in {"stmt", "stmttc", "ndefA", "nlam", "nclsA", "compr", "mlA"} -> T[i].id
      [] T[i].k = "strA" -> 11 + T[i + 1].col     \* len("""a1007\n<col blanks>b1008""")
      [] OTHER -> 0
BodySum(T) == SumSeq([i \in DOMAIN T |-> Contrib(T, i)])

LamExtra(lay) == (IF lay.lbody = "compr" THEN 3 ELSE 0) + (IF lay.lpar = "none" THEN 100 ELSE 0)

\* the values of the function that the text T defines (lambdas: of the layout)
ValsOf(lay, T, g) ==
    [s \in DOMAIN Samples |->
        Apply(Params(lay), Samples[s], g, IF IsDef(lay) THEN BodySum(T) ELSE LamExtra(lay))]

-----------------------------------------------------------------------------
(* part 3: the pipeline of the code over abstract lines                    *)

\* The model follows the code as it is.  Five defects this machinery found (labels KF1..KF5
\* of part 5) have been repaired in modelx; `Fixed` names the repaired ones and the algorithm
\* layer follows the repaired behaviour.  Without a name here the model describes the code
\* BEFORE that repair (the traces then show DRIFT -- never a violation):
\*   "KF1"  a line break inside a lambda that only the enclosing brackets allowed becomes a
\*          backslash continuation (formula.py _get_lambda_text)
\*   "KF2"  dedent takes the indentation of the first statement as the margin; lines indented
\*          less (a comment in column 0) are left as they are (formula.py dedent)
\*   "KF3"  dedent leaves the lines that continue a string literal alone (formula.py dedent)
\*   "KF4"  set_doc on a one-line body without docstring puts `"""doc"""; ` in front of it
\*   "KF5"  set_doc escapes what cannot stand between triple quotes (_quote_docstring)
Fixed == {"KF1", "KF2", "KF3", "KF4", "KF5"}

IsBlank(l)   == l.k = "blank"
IsComment(l) == l.k \in CommentKinds
IsCode(l)    == ~IsBlank(l) /\ ~IsComment(l)
HasKind(T, k) == \E i \in DOMAIN T : T[i].k = k

HdrIdx(T)  == CHOOSE i \in DOMAIN T : T[i].k \in HdrFirstKinds
HdrLast(T) == IF T[HdrIdx(T)].k = "hdrA" THEN HdrIdx(T) + 1 ELSE HdrIdx(T)
IsOne(T)   == T[HdrIdx(T)].k \in OneKinds
\* first statement of the body (normal bodies)
FirstStmt(T) == Min({i \in DOMAIN T : i > HdrLast(T) /\ IsCode(T[i])})

\* inspect.getsource (formula.py:395; inspect.BlockFinder): from the first decorator (or the
\* def) to the last logical line of the block; a comment belongs to the block when it is
\* indented at least like the body; what precedes the first decorator does not.
GetBlock(T) ==
    LET first == Min({i \in DOMAIN T : T[i].k \in DecoLineKinds \cup HdrFirstKinds})
        code  == {i \in DOMAIN T : i >= first /\ IsCode(T[i])}
        cmts  == IF IsOne(T) THEN {}
                 ELSE {i \in DOMAIN T : i > FirstStmt(T) /\ IsComment(T[i])
                                         /\ T[i].col >= T[FirstStmt(T)].col}
    IN SubSeq(T, first, Max(code \cup cmts))

\* textwrap.dedent (what formula.py used: is_funcdef, is_lambda, has_lambda, _init_from_source,
\* _init_from_funcdef): the margin is the common leading white space of ALL non-blank physical
\* lines -- comment lines and the lines inside string literals included (every line of a
\* layout starts with the base indentation or with nothing, so the common prefix is the
\* minimum) -- and it is taken from every line
MarginTW(T) == Min({T[i].col : i \in {j \in DOMAIN T : ~IsBlank(T[j])}})
DedentTW(T) == [i \in DOMAIN T |-> IF IsBlank(T[i]) THEN T[i] ELSE [T[i] EXCEPT !.col = @ - MarginTW(T)]]

\* formula.dedent (formula.py:102-136, the repaired one): the margin is the indentation of the first statement
\* (first line that is neither blank nor a comment); it is taken from the lines that start
\* with it; lines continuing a string literal are not touched
InString(T, i) == T[i].k = "strB" \/ (T[i].k = "doc" /\ i > 1 /\ T[i - 1].k = "doc")
Margin(T) ==
    IF "KF2" \in Fixed THEN T[Min({i \in DOMAIN T : ~IsBlank(T[i]) /\ ~(T[i].k \in {"lead", "mid", "decocmt", "cmt", "c0cmt", "last"})})].col
    ELSE MarginTW(T)
Dedent(T) ==
    [i \in DOMAIN T |->
        IF IsBlank(T[i]) \/ ("KF3" \in Fixed /\ InString(T, i)) \/ T[i].col < Margin(T) THEN T[i]
        ELSE [T[i] EXCEPT !.col = @ - Margin(T)]]

\* ast.parse of a def text (is_funcdef formula.py:139-152; compile :418): the def and its
\* decorators must start in column 0; a one-line body into which a docstring was glued
\* without a separator (d = -1) is not Python
ParseErr(T) ==
    IF \E i \in DOMAIN T : T[i].k \in (DecoLineKinds \ {"decomB"}) \cup HdrFirstKinds /\ T[i].col # 0
    THEN "IndentationError"
    ELSE IF \E i \in DOMAIN T : T[i].k \in OneKinds /\ T[i].d = -1 THEN "SyntaxError"
    ELSE ""

\* remove_decorator (formula.py:170-187): the physical lines from the `@` of the first
\* decorator to the line of the token that follows the last decorator are cut -- whatever
\* lies between two decorators goes with them; what precedes or follows stays
RemoveDecorator(T) ==
    LET D == {i \in DOMAIN T : T[i].k \in DecoLineKinds}
    IN IF D = {} THEN T ELSE SubSeq(T, 1, Min(D) - 1) \o SubSeq(T, Max(D) + 1, Len(T))

\* _init_from_funcdef (formula.py:407-423) on a text: [err, lines]
\* (replace_funcname :190-215 changes the token after the first `def` only: lines are
\*  unchanged, the name is part of the result record built by the caller)
PipelineDef(T) ==
    IF ParseErr(Dedent(T)) # "" THEN [err |-> ParseErr(Dedent(T)), lines |-> <<>>]
    ELSE [err |-> "", lines |-> RemoveDecorator(Dedent(T))]

\* extract_lambda_from_source / _from_func (formula.py:319-351, _get_lambda_text :296-316):
\* the characters from the `lambda` token to the last token of the lambda node; text forms
\* were dedented first (:402), for objects the slice is taken from the file as it is
ExtractLambda(T) ==
    LET S == SelectSeq(T, LAMBDA l : l.k \in LamKinds)
    IN [i \in DOMAIN S |-> IF S[i].k = "lamA" THEN [S[i] EXCEPT !.col = 0] ELSE S[i]]
\* _init_from_lambda (formula.py:425-440): exec("_lambdafunc = " + src) needs every line
\* break inside src to be protected by src itself (before the repair KF1 it was not when
\* only the enclosing brackets allowed it; now such a break gets a backslash)
\* extract_lambda_from_func (formula.py:330-351) looks for the Lambda nodes that START on the
\* line of the function's code object: the lambda itself, a lambda nested in it when it
\* starts on that line (the nested one sits in the second part of the body: on that line
\* unless a line break precedes it), a sibling on the same line.  More than one: ValueError
\* "more than 1 lambda expressions found" -- the documented limit of the object forms.
\* (Texts: extract_lambda_from_source takes the first Lambda of ast.walk, the outermost.)
LambdasOnLine(lay) ==
    1 + (IF lay.lbody = "nest" /\ lay.ml \notin {"own", "bs", "outer"} THEN 1 ELSE 0)
      + (IF lay.embed = "same" THEN 1 ELSE 0)
Unsupported(lay) == lay.form = "lamobj" /\ LambdasOnLine(lay) > 1

LamExecErr(T) ==
    IF "KF1" \notin Fixed /\ \E i \in DOMAIN T : T[i].k = "lamB" /\ T[i].d = 0 THEN "SyntaxError" ELSE ""
PipelineLam(lay, T) ==
    LET X == ExtractLambda(IF lay.form = "lamobj" THEN T ELSE Dedent(T))
    IN IF Unsupported(lay) THEN [err |-> "ValueError", lines |-> <<>>]
       ELSE IF LamExecErr(X) # "" THEN [err |-> LamExecErr(X), lines |-> <<>>]
       ELSE [err |-> "", lines |-> X]

\* docstring of a def text: [code, exact, cont]
DocRun(T, s) == Max({e \in s..Len(T) : \A j \in s..e : T[j].k = "doc"})
DocCodeOf(T) ==
    IF IsOne(T) THEN T[HdrIdx(T)].d
    ELSE IF T[FirstStmt(T)].k = "doc" THEN T[FirstStmt(T)].d ELSE 0

\* the abstract formula of a cells
NoDoc == [code |-> 0, exact |-> TRUE, cont |-> 0]
Rejected(err) == [ok |-> FALSE, err |-> err, islam |-> FALSE, name |-> "", lines |-> <<>>, doc |-> NoDoc]

\* Formula(text, name) for a def text
FormulaFromDefText(T, name, doc) ==
    LET r == PipelineDef(T)
    IN IF r.err # "" THEN Rejected(r.err)
       ELSE [ok |-> TRUE, err |-> "", islam |-> FALSE, name |-> name, lines |-> r.lines, doc |-> doc]

\* Capture: what new_cells / the formula setter / defcells make of a layout
CaptureFn(lay, T0, name) ==
    IF IsDef(lay)
    THEN LET T == IF lay.form = "funcobj" THEN GetBlock(T0) ELSE T0
         IN FormulaFromDefText(T, name, [code |-> lay.doc, exact |-> FALSE, cont |-> 0])
    ELSE LET r == PipelineLam(lay, T0)
         IN IF r.err # "" THEN Rejected(r.err)
            ELSE [ok |-> TRUE, err |-> "", islam |-> TRUE, name |-> name, lines |-> r.lines, doc |-> NoDoc]

\* a new cells from formula.source of `cur` (a text: formula.py:397-405)
RecreateFn(cur) ==
    IF cur.islam
    THEN LET X == ExtractLambda(Dedent(cur.lines))
         IN IF LamExecErr(X) # "" THEN Rejected(LamExecErr(X)) ELSE [cur EXCEPT !.lines = X, !.doc = NoDoc]
    ELSE FormulaFromDefText(cur.lines, cur.name, cur.doc)

\* on_rename (cells.py:921-944): Formula(self.formula, name=name) for a def, only
\* func.__name__ for a lambda
RenameFn(cur, new) ==
    IF cur.islam THEN [cur EXCEPT !.name = new]
    ELSE FormulaFromDefText(cur.lines, new, cur.doc)

\* replace_docstring (formula.py:226-279) on a def text
NewDocLines(k, ii, c) ==
    [j \in 1..NewDocLen(k) |-> [id |-> NEWID + j, k |-> "doc", col |-> IF j = 1 \/ ii THEN c ELSE 0, d |-> k]]
ReplaceDocstring(T, k, ii) ==
    IF IsOne(T)
    THEN \* :266-279 "single line": the docstring token is replaced in place, or the new one
         \* is put directly in front of the first statement
         [T EXCEPT ![HdrIdx(T)].d = IF T[HdrIdx(T)].d = 0 /\ "KF4" \notin Fixed THEN -1 ELSE k]
    ELSE \* :244-264: the text from the start of the first statement's line to the end of the
         \* docstring token is replaced, or the new lines are put in front of that line
         LET s == FirstStmt(T)
             new == NewDocLines(k, ii, T[s].col)
         IN IF T[s].k = "doc" THEN SubSeq(T, 1, s - 1) \o new \o SubSeq(T, DocRun(T, s) + 1, Len(T))
            ELSE SubSeq(T, 1, s - 1) \o new \o SubSeq(T, s, Len(T))
\* _quote_docstring (formula.py:218-223; before the repair KF5: '"""' + docstr + '"""',
\* nothing escaped)
QuoteErr(k) == IF "KF5" \notin Fixed /\ k \in {14, 16, 17} THEN "SyntaxError" ELSE ""
ReadBack(k) == IF "KF5" \notin Fixed /\ k = 15 THEN EscDoc ELSE k
\* set_doc (cells.py:907-919)
SetDocFn(cur, k, ii) ==
    IF cur.islam THEN [cur EXCEPT !.doc = [code |-> k, exact |-> TRUE, cont |-> 0]]
    ELSE LET T == ReplaceDocstring(cur.lines, k, ii)
             c == IF IsOne(T) THEN 0 ELSE T[FirstStmt(T)].col
             doc == [code |-> ReadBack(k), exact |-> NewDocLen(k) = 1 \/ ~ii \/ c = 0,
                     cont |-> IF NewDocLen(k) > 1 /\ ii THEN c ELSE 0]
         IN IF QuoteErr(k) # "" THEN Rejected(QuoteErr(k))
            ELSE FormulaFromDefText(T, cur.name, doc)

\* an operation that raised leaves the cells as it was
KeepOld(cur, new) == IF new.ok THEN new ELSE cur

-----------------------------------------------------------------------------
(* part 4: observations and predicates                                     *)
(* An observation (recorded from the library or projected from the model): *)
(*   ok, err, islam, cname, defname, decos, lines (<<id, col>> pairs, 0 for *)
(*   a blank line, -1 for a line that is not a line of the layout), nl,     *)
(*   compiles, defines, params, vals, savals, doc [code, exact, cont], hash *)

Project(lay, cur, g) ==
    [ok |-> cur.ok, err |-> cur.err, islam |-> cur.islam, cname |-> cur.name,
     defname |-> IF cur.islam THEN "" ELSE cur.name,
     decos |-> Cardinality({i \in DOMAIN cur.lines : cur.lines[i].k \in DecoLineKinds}),
     lines |-> [i \in DOMAIN cur.lines |->
                  IF IsBlank(cur.lines[i]) THEN <<0, 0>> ELSE <<cur.lines[i].id, cur.lines[i].col>>],
     nl |-> ~cur.islam, compiles |-> TRUE, defines |-> TRUE,
     params |-> ParamNames(lay),
     vals |-> ValsOf(lay, cur.lines, g), savals |-> ValsOf(lay, cur.lines, g),
     doc |-> cur.doc, hash |-> 0]
ProjectRejected(err) ==
    [ok |-> FALSE, err |-> err, islam |-> FALSE, cname |-> "", defname |-> "", decos |-> 0,
     lines |-> <<>>, nl |-> FALSE, compiles |-> FALSE, defines |-> FALSE, params |-> <<>>,
     vals |-> <<>>, savals |-> <<>>, doc |-> NoDoc, hash |-> 0]

IdsOf(T, kinds) == {T[i].id : i \in {j \in DOMAIN T : T[j].k \in kinds}}
\* lines that do not belong to a docstring (docIds: ids of the docstring lines of the layout)
NonDocLines(docIds, lines) == SelectSeq(lines, LAMBDA p : p[1] <= NEWID /\ p[1] \notin docIds)

\* T0 is always the text of the layout, Text(lay)
P_NoDecoratorLeft(T0, o) ==
    LET decoIds == IdsOf(T0, DecoLineKinds)
    IN /\ o.decos = 0
       /\ \A i \in DOMAIN o.lines : o.lines[i][1] \notin decoIds

P_NameIsCellsName(lay, cname, o) ==
    /\ o.cname = cname
    /\ IF IsDef(lay) THEN ~o.islam /\ o.defname = cname ELSE o.islam

\* from the def line on, formula.source consists of exactly the lines of the layout, in
\* order, each indented relative to the def as it was (a line left of the def -- a comment
\* in column 0 -- counts as being at the def's column; docstring lines apart: DocInert; the
\* white space in front of a line that continues a string literal is part of the string:
\* BehavesLikeFunction speaks about it, not this predicate)
P_BodyUntouched(lay, T0, o) ==
    IF IsDef(lay)
    THEN LET h   == HdrIdx(T0)
             docIds == IdsOf(T0, {"doc"})
             inStr  == IdsOf(T0, {"strB"})
             exp == [i \in 1..(Len(T0) - h + 1) |->
                        IF IsBlank(T0[h + i - 1]) \/ T0[h + i - 1].k = "strB" THEN <<T0[h + i - 1].id * (IF IsBlank(T0[h + i - 1]) THEN 0 ELSE 1), 0>>
                        ELSE <<T0[h + i - 1].id, IF T0[h + i - 1].col < T0[h].col THEN 0
                                                  ELSE T0[h + i - 1].col - T0[h].col>>]
             at  == {i \in DOMAIN o.lines : o.lines[i][1] = T0[h].id}
         IN /\ Cardinality(at) = 1
            /\ LET oh  == CHOOSE i \in at : TRUE
                   got == [i \in 1..(Len(o.lines) - oh + 1) |->
                              IF o.lines[oh + i - 1][1] = 0 THEN <<0, 0>>
                              ELSE IF o.lines[oh + i - 1][1] \in inStr THEN <<o.lines[oh + i - 1][1], 0>>
                              ELSE <<o.lines[oh + i - 1][1], IF o.lines[oh + i - 1][2] < o.lines[oh][2] THEN 0
                                                             ELSE o.lines[oh + i - 1][2] - o.lines[oh][2]>>]
               IN NonDocLines(docIds, got) = NonDocLines(docIds, exp)
            /\ \A i \in DOMAIN o.lines : o.lines[i][1] # -1
    ELSE LET X == SelectSeq(T0, LAMBDA l : l.k \in LamKinds)
         IN /\ [i \in DOMAIN o.lines |-> o.lines[i][1]] = [i \in DOMAIN X |-> X[i].id]
            /\ Len(o.lines) > 0 /\ o.lines[1][2] = 0

\* ev: the values of the function as the user wrote it (ExpVals)
P_SelfContained(ev, o) == o.compiles /\ o.defines /\ o.savals = ev
P_BehavesLikeFunction(ev, o) == o.vals = ev
P_ParamsKept(lay, o) == o.params = ParamNames(lay)

P_Idempotent(p, o) ==
    /\ o.ok /\ o.lines = p.lines /\ o.hash = p.hash /\ o.nl = p.nl
    /\ o.vals = p.vals /\ o.params = p.params /\ o.defname = p.defname /\ o.islam = p.islam

P_RenameInert(lay, new, p, o) ==
    /\ o.cname = new /\ (IsDef(lay) => o.defname = new)
    /\ o.lines = p.lines /\ o.nl = p.nl /\ o.decos = p.decos
    /\ o.vals = p.vals /\ o.params = p.params /\ o.doc = p.doc /\ o.islam = p.islam

\* only the docstring changed, and cells.doc returns what was given (with insert_indents the
\* following lines are indented like the body: documented, cells.py:550-600)
P_DocInert(T0, k, code, ii, p, o) ==
    LET docIds == IdsOf(T0, {"doc"}) IN
    /\ NonDocLines(docIds, o.lines) = NonDocLines(docIds, p.lines)
    /\ o.cname = p.cname /\ o.defname = p.defname /\ o.nl = p.nl /\ o.decos = p.decos
    /\ o.vals = p.vals /\ o.params = p.params /\ o.islam = p.islam
    /\ o.doc.code = code
    /\ LET first == {i \in DOMAIN o.lines : o.lines[i][1] = NEWID + 1}
           c == IF first = {} THEN 0 ELSE o.lines[CHOOSE i \in first : TRUE][2]
       IN IF ii /\ NewDocLen(k) > 1 /\ ~o.islam /\ c > 0 THEN o.doc.cont = c ELSE o.doc.exact

\* an operation that raised must leave the cells as it was
P_Unchanged(p, o) ==
    /\ o.lines = p.lines /\ o.hash = p.hash /\ o.nl = p.nl /\ o.decos = p.decos
    /\ o.cname = p.cname /\ o.defname = p.defname /\ o.islam = p.islam
    /\ o.vals = p.vals /\ o.params = p.params /\ o.doc = p.doc

\* --- the situations of the known findings (each a predicate of the case, not of the
\*     property): the normal label is raised for anything else
KF_LamOuter(lay)   == ~IsDef(lay) /\ lay.ml = "outer"
KF_Col0(lay, T0)      == IsDef(lay) /\ HasKind(T0, "c0cmt") /\ Ind(lay.ws) > 0
KF_DedentStr(lay, T0) == IsDef(lay) /\ HasKind(T0, "strA") /\ Ind(lay.ws) > 0
KF_OneLineDoc(cur) == cur.ok /\ ~cur.islam /\ IsOne(cur.lines) /\ DocCodeOf(cur.lines) = 0
KF_DocQuote(k)     == k \in {14, 15, 16, 17}

-----------------------------------------------------------------------------
(* part 5: the labels an observed (or projected) operation earns           *)
(*   op  : "capture" | "setref" | "recreate" | "rename" | "setdoc"         *)
(*   arg : [name, k, ii, g]      cn : the name the cells must have now     *)
(*   p   : observation of the cells before the operation                   *)
(*   o   : observation after it (recreate: of the NEW cells); when the     *)
(*         operation raised, o.ok = FALSE and the rest shows the cells as  *)
(*         it is now (capture: nothing)                                    *)

KF1 == "KF:C20.lambda-continued-in-outer-brackets"
KF2 == "KF:C20.dedent-blocked-by-col0-comment"
KF3 == "KF:C20.dedent-alters-multiline-string"
KF4 == "KF:C20.setdoc-oneline-body"
KF5 == "KF:C20.setdoc-doc-not-escaped"
KFNames == {KF1, KF2, KF3, KF4, KF5}

Lab(cond, name) == IF cond THEN {} ELSE {name}

\* about the formula the cells has now
\*   ev: values of the function as written; dv: the values if only dedent interfered
StateLabels(lay, T0, cn, ev, dv, o) ==
    Lab(P_NoDecoratorLeft(T0, o), "C20.NoDecoratorLeft")
    \cup Lab(P_NameIsCellsName(lay, cn, o), "C20.NameIsCellsName")
    \cup Lab(P_BodyUntouched(lay, T0, o), "C20.BodyUntouched")
    \cup Lab(P_ParamsKept(lay, o), "C20.ParamsKept")
    \cup (IF P_SelfContained(ev, o) THEN {}
          ELSE IF KF_DedentStr(lay, T0) /\ o.compiles /\ o.defines /\ o.savals = dv THEN {KF3}
          ELSE {"C20.SelfContained"})
    \cup (IF P_BehavesLikeFunction(ev, o) THEN {}
          ELSE IF KF_DedentStr(lay, T0) /\ o.vals = dv THEN {KF3}
          ELSE {"C20.BehavesLikeFunction"})

OpLabels(lay, T0, op, arg, cn, g, p, o) ==
    LET ev == ValsOf(lay, T0, g)
        dv == ValsOf(lay, DedentTW(T0), g)      \* the values if textwrap.dedent interfered
    IN
    CASE op = "capture" ->
            IF o.ok THEN StateLabels(lay, T0, cn, ev, dv, o)      \* (Unsupported: rejected or right)
            ELSE IF Unsupported(lay) /\ o.err = "ValueError" THEN {}   \* the documented limit
            ELSE IF KF_LamOuter(lay) /\ o.err = "SyntaxError" THEN {KF1}
            ELSE IF KF_Col0(lay, T0) /\ o.err = "IndentationError" THEN {KF2}
            ELSE {"C20.Accepted"}
      [] op = "setref" -> StateLabels(lay, T0, cn, ev, dv, o)
      [] op = "recreate" ->
            IF o.ok THEN Lab(P_Idempotent(p, o), "C20.Idempotent") ELSE {"C20.Idempotent"}
      [] op = "rename" ->
            IF o.ok THEN Lab(P_RenameInert(lay, cn, p, o), "C20.RenameInert")
                         \cup StateLabels(lay, T0, cn, ev, dv, o)
            ELSE {"C20.RenameInert"}
      [] op = "setdoc" ->
            IF o.ok
            THEN (IF P_DocInert(T0, arg.k, arg.k, arg.ii, p, o) THEN {}
                  ELSE IF arg.k = 15 /\ P_DocInert(T0, arg.k, EscDoc, arg.ii, p, o) THEN {KF5}
                  ELSE {"C20.DocInert"})
                 \cup StateLabels(lay, T0, cn, ev, dv, o)
            ELSE Lab(P_Unchanged(p, o), "C20.DocInert")
                 \cup (IF lay.hdr = "one" /\ p.doc.code = 0 /\ o.err = "SyntaxError" THEN {KF4}
                       ELSE IF arg.k \in {14, 16, 17} /\ o.err = "SyntaxError" THEN {KF5}
                       ELSE {"C20.DocInert"})

\* algorithm layer vs. observation (never a violation: DRIFT)
SameAsModel(m, o) ==
    /\ m.ok = o.ok /\ m.err = o.err
    /\ (m.ok => /\ m.islam = o.islam /\ m.cname = o.cname /\ m.defname = o.defname
                /\ m.decos = o.decos /\ m.lines = o.lines /\ m.nl = o.nl
                /\ m.params = o.params /\ m.vals = o.vals /\ m.savals = o.savals
                /\ m.doc.code = o.doc.code)
=============================================================================
