CONSTANTS
  MaxN = 3
  AllOrders = FALSE
  WithInputs = TRUE
  Dump = TRUE
INIT Init
NEXT Next
CONSTRAINT DumpCase
CHECK_DEADLOCK FALSE
