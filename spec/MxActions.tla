----------------------------- MODULE MxActions -----------------------------
(***************************************************************************)
(* Algorithm layer for C16: Model.generate_actions / Model.execute_actions *)
(* (modelx/core/model.py:575-743, TraceManager.get_calcsteps :781-845) as  *)
(* a state machine over the abstract cache of MxActionsBase.               *)
(*                                                                         *)
(* Init + Setup = every case of the quantifier:                            *)
(*    every DAG on 1..n (n <= MaxN; edges i -> j, j < i: every DAG has such*)
(*    a numbering)  x  every non-empty target set  x  every step size      *)
(*    1..n+1  x  EVERY topological order of the nodes the targets need     *)
(*    (modelx takes whatever networkx.topological_sort returns)            *)
(*    [x every set of input nodes, targets included, when WithInputs].     *)
(* One action per step of the code (Setup only completes the case):        *)
(*    GenTrace      model.py:596-606  evaluate one target under trace_stack*)
(*                                    and collect the ENTERed nodes        *)
(*    GenPlan       model.py:608-609  get_calcsteps (Plan)                 *)
(*    GenClear      model.py:611-613  clear_value_at for one traced node   *)
(*    ExecCalc      model.py:718-721  one node of a calc step              *)
(*    ExecPasteGet  model.py:725-729  read one node of a paste step        *)
(*    ExecPasteSet  model.py:730-731  assign one node of a paste step      *)
(*    ExecClear     model.py:733-736  one node of a clear step             *)
(* The C16 predicates (MxActionsBase, part 1) are the invariants.          *)
(***************************************************************************)
EXTENDS MxActionsBase, TLC, Json

CONSTANTS MaxN,        \* largest number of nodes
          AllOrders,   \* TRUE: every topological order; FALSE: the ascending one only
          WithInputs,  \* TRUE: also every set of input nodes (a target may be an input)
          Dump         \* TRUE: print every case once (spec -> code), explore nothing

VARIABLES n, deps, inv0, T, step, ord,     \* the case (fixed once Setup has run)
          pc,          \* "setup" | "gen_trace" | "gen_plan" | "gen_clear" | "exec" | "done"
          cache,       \* the abstract cache
          todo,        \* targets still to trace / traced nodes still to clear
          calculated,  \* nodes ENTERed while tracing (model.py:594,604)
          plan,        \* the action list returned by generate_actions
          left,        \* get_calcsteps' `pasted` when it returns (model.py:844)
          prog, ip,    \* execute_actions: micro-operations and position
          buf          \* node_value_pairs of the current paste step (model.py:724)

case == <<n, deps, inv0, T, step, ord>>
vars == <<n, deps, inv0, T, step, ord, pc, cache, todo, calculated, plan, left, prog, ip, buf>>

Edges(k) == {<<i, j>> \in (1..k) \X (1..k) : j < i}

\* every topological order of the node set R (dependencies first)
RECURSIVE TopOrders(_, _)
TopOrders(dp, R) ==
    IF R = {} THEN {<<>>}
    ELSE UNION {{Append(s, m) : s \in TopOrders(dp, R \ {m})} :
                    m \in {x \in R : \A y \in R : x \notin dp[y]}}

InVal(i) == 50 + i       \* the value assigned to input node i (differs from any formula value nearby)

\* Initial states: every DAG x every non-empty target set.  The rest of the case
\* (step size, inputs, the topological order networkx happens to return) is
\* chosen by Setup, so that TLC's workers share the enumeration.
Init ==
    /\ n \in 1..MaxN
    /\ \E E \in SUBSET Edges(n) : deps = [i \in 1..n |-> {j \in 1..n : <<i, j>> \in E}]
    /\ T \in (SUBSET (1..n)) \ {{}}
    /\ pc = "setup"
    /\ step = 0 /\ inv0 = <<>> /\ ord = <<>>
    /\ cache = NewCache(1..n, <<>>)
    /\ todo = T
    /\ calculated = {}
    /\ plan = <<>> /\ left = <<>> /\ prog = <<>> /\ ip = 0 /\ buf = <<>>

Setup ==
    /\ pc = "setup"
    /\ step' \in 1..(n + 1)
    /\ \E I \in (IF WithInputs THEN SUBSET (1..n) ELSE {{}}) : inv0' = [i \in I |-> InVal(i)]
    /\ ord' \in (IF AllOrders THEN TopOrders(deps, Needed(deps, inv0', T))
                 ELSE {SortedSeq(Needed(deps, inv0', T))})
    /\ cache' = NewCache(1..n, inv0')
    /\ pc' = "gen_trace"
    /\ UNCHANGED <<n, deps, T, todo, calculated, plan, left, prog, ip, buf>>

MinOf(S) == CHOOSE x \in S : \A y \in S : x <= y

\* model.py:596-606.  The targets are traced one after the other (here in
\* ascending order; as sets, what is held and what was entered do not depend
\* on the order).  A target that is an input is skipped (:598).
GenTrace ==
    /\ pc = "gen_trace"
    /\ LET t == MinOf(todo) IN
       /\ IF t \in cache.inp
          THEN UNCHANGED <<cache, calculated>>
          ELSE /\ cache' = Eval(deps, cache, t)
               /\ calculated' = calculated \cup Behind(deps, Held(cache), t)
       /\ todo' = todo \ {t}
       /\ pc' = IF todo' = {} THEN "gen_plan" ELSE "gen_trace"
    /\ UNCHANGED <<case, plan, left, prog, ip, buf>>

\* model.py:608-609 -> get_calcsteps(calc_targets, calculated, step_size)
GenPlan ==
    /\ pc = "gen_plan"
    /\ plan' = Plan(deps, T \ cache.inp, step, ord)
    /\ left' = PlanLeft(deps, T \ cache.inp, step, ord)
    /\ todo' = calculated
    /\ pc' = IF calculated = {} THEN "exec" ELSE "gen_clear"
    /\ prog' = IF calculated = {} THEN Prog(plan') ELSE prog
    /\ ip' = IF calculated = {} THEN 1 ELSE ip
    /\ UNCHANGED <<case, cache, calculated, buf>>

\* model.py:611-613 (finally): clear_value_at for every traced node.  After the
\* last one execute_actions starts; executions are counted from there.
GenClear ==
    /\ pc = "gen_clear"
    /\ LET x  == MinOf(todo)
           c2 == ClearAt(cache, x) IN
       /\ todo' = todo \ {x}
       /\ IF todo' = {}
          THEN /\ pc' = "exec"
               /\ prog' = Prog(plan) /\ ip' = 1
               /\ cache' = [c2 EXCEPT !.cnt = [m \in DOMAIN @ |-> 0]]
          ELSE /\ cache' = c2
               /\ UNCHANGED <<pc, prog, ip>>
    /\ UNCHANGED <<case, calculated, plan, left, buf>>

Advance ==
    /\ ip' = ip + 1
    /\ pc' = IF ip + 1 > Len(prog) THEN "done" ELSE "exec"
    /\ UNCHANGED <<case, todo, calculated, plan, left, prog>>

Cur == prog[ip]
Ready(o) == pc = "exec" /\ ip <= Len(prog) /\ Cur.op = o

ExecCalc ==                                        \* model.py:718-721
    /\ Ready("calc")
    /\ cache' = Eval(deps, cache, Cur.n)
    /\ UNCHANGED buf
    /\ Advance

ExecPasteGet ==                                    \* model.py:725-729
    /\ Ready("pget")
    /\ cache' = Eval(deps, cache, Cur.n)
    /\ buf' = Upd(buf, Cur.n, cache'.val[Cur.n])
    /\ Advance

ExecPasteSet ==                                    \* model.py:730-731
    /\ Ready("pset")
    /\ cache' = Assign(cache, Cur.n, buf[Cur.n])
    /\ UNCHANGED buf
    /\ Advance

ExecClear ==                                       \* model.py:733-736
    /\ Ready("clear")
    /\ cache' = ClearAt(cache, Cur.n)
    /\ UNCHANGED buf
    /\ Advance

\* an empty program (no calculated node at all) ends at once
ExecNothing ==
    /\ pc = "exec" /\ ip > Len(prog)
    /\ pc' = "done"
    /\ UNCHANGED <<case, cache, todo, calculated, plan, left, prog, ip, buf>>

Next == Setup \/ GenTrace \/ GenPlan \/ GenClear
        \/ ExecCalc \/ ExecPasteGet \/ ExecPasteSet \/ ExecClear \/ ExecNothing

Spec == Init /\ [][Next]_vars

-----------------------------------------------------------------------------
(* Property layer bound to the state.                                      *)
Planned == pc \in {"gen_clear", "exec", "done"}

Inv_C16_TargetsHoldDirectValues ==
    pc = "done" => P_TargetsHoldDirectValues(deps, inv0, T, cache.val)
Inv_C16_NothingElseLeft ==
    pc = "done" => P_NothingElseLeft(inv0, T, cache.val, cache.inp)
Inv_C16_NoRecompute ==
    pc \in {"exec", "done"} => P_NoRecompute(cache.cnt)
JustPlanned == Planned /\ todo = calculated          \* the state GenPlan leads to (plan never changes later)
Inv_C16_EachDepOnceAfterPreds ==
    JustPlanned => P_EachDepOnceAfterPreds(deps, inv0, T, plan)
Inv_C16_GenerateLeavesNothing ==
    (pc = "exec" /\ ip = 1) => P_GenerateLeavesNothing(inv0, cache.val, cache.inp)

(* Consistency of the algorithm layer itself.                              *)
Inv_AssertNotPasted == Planned => left = <<>>                \* model.py:844 never fires
Inv_OrdOrdersTraced ==                                       \* `ord` is an order of what was traced
    pc = "gen_plan" => Range(ord) = calculated /\ IsTopological(deps, ord)
Inv_GraphEqCache ==
    /\ cache.inp \subseteq Held(cache)
    /\ \A e \in cache.tg : e[1] \in Held(cache) /\ e[2] \in Held(cache)
Inv_ValuesAreDirect ==                                       \* nothing stale is ever held
    pc # "setup" => \A m \in Held(cache) : cache.val[m] = Direct(deps, inv0, m)

-----------------------------------------------------------------------------
(* spec -> code: every case printed once; nothing is explored.             *)
CaseJson ==
    [n       |-> n,
     deps    |-> [i \in 1..n |-> SortedSeq(deps[i])],
     targets |-> SortedSeq(T),
     step    |-> step,
     inputs  |-> [i \in 1..Len(SortedSeq(DOMAIN inv0)) |->
                    <<SortedSeq(DOMAIN inv0)[i], inv0[SortedSeq(DOMAIN inv0)[i]]>>]]

DumpCase == IF Dump /\ pc = "gen_trace" THEN PrintT(<<"MBT", ToJson(CaseJson)>>) /\ FALSE ELSE TRUE
=============================================================================
