INIT TInit
NEXT TNext
CONSTRAINT Progress
POSTCONDITION Verdicts
CHECK_DEADLOCK FALSE
