CONSTANTS
  MaxOps = 5
  MaxModels = 3
  Dump = FALSE
  BaseNames = {"A", "A_BAK1"}
  BadNames = {"1x"}
  NFiles = 1
  EditKinds = {}
  Linking = FALSE
  StaleOps = TRUE
INIT Init
NEXT Next
VIEW View
CONSTRAINT Bound
INVARIANT Inv_C19_NamesUniqueAndCurrent
INVARIANT Inv_C19_HandlesFollow
INVARIANT Inv_C19_NoModelDropped
INVARIANT Inv_C19_CloseRemovesExactlyOne
INVARIANT Inv_C19_Isolation
INVARIANT Inv_Algo_NoPanic
INVARIANT Inv_KF_StaleHandleClose
CHECK_DEADLOCK FALSE
