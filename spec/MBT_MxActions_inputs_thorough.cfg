CONSTANTS
  MaxN = 4
  AllOrders = FALSE
  WithInputs = TRUE
  Dump = TRUE
INIT Init
NEXT Next
CONSTRAINT DumpCase
CHECK_DEADLOCK FALSE
