CONSTANTS
  MaxOps = 10
  Dump = TRUE
INIT Init
NEXT Next
CONSTRAINT Bound
CHECK_DEADLOCK FALSE
