INIT XInit
NEXT XNext
CONSTRAINT Progress
POSTCONDITION Verdicts
CHECK_DEADLOCK FALSE
