------------------------------ MODULE MxRegistry ------------------------------
(***************************************************************************)
(* C19 -- the session's model registry.                                    *)
(*                                                                         *)
(* ALGORITHM LAYER (part 1): what modelx does, operator by operator, each   *)
(* one transcribing one function / critical section of the code:           *)
(*                                                                         *)
(*   GetNext            modelx/core/util.py    AutoNamer.get_next (29-39)  *)
(*   ImplRename         modelx/core/model.py   ModelImpl.rename  (893-902) *)
(*   SysNewModel        modelx/core/system.py  System.new_model  (601-608) *)
(*                      with ModelImpl.__init__ (model.py 868-873: automatic*)
(*                      name / ValueError for an invalid name)             *)
(*   SysRenameModel     modelx/core/system.py  System.rename_model(610-623)*)
(*   SysRenameSameName  modelx/core/system.py  System._rename_samename     *)
(*                                             (625-632)                   *)
(*   SysCloseModel      modelx/core/system.py  System.close_model(657-661) *)
(*   ReaderReadModel    modelx/serialize/__init__.py read_model (96-111),  *)
(*                      serializer_6.py ModelReader.read_model (840-874),  *)
(*                      parse_dir (900: mx.new_model()), RenameParser      *)
(*                      (1056-1083: model.rename(val, rename_old=True))    *)
(*   ApiRename/ApiClose modelx/core/model.py   Model.rename (324-327),     *)
(*                                             Model.close  (350-352)      *)
(*   ApiEdit/ApiXref/ApiEval : every ModelImpl owns its tracegraph,        *)
(*                      refgraph, SpaceManager, ReferenceManager           *)
(*                      (model.py 868-891): an edit / evaluation touches   *)
(*                      the model it is made on and, through references    *)
(*                      between models, the models linked to it.           *)
(*                                                                         *)
(* The state S is a record; the functions above are operators from states  *)
(* to states because the library is sequential: the public call is the     *)
(* atomic step (one TLA+ action per public operation), its sub-steps are   *)
(* composed exactly in the order of the code.                              *)
(*                                                                         *)
(* PROPERTY LAYER (part 2): C19 as predicates over OBSERVATIONS            *)
(*   (mx.get_models() as {<<key, model id, the model's own name>>}, the    *)
(*    names reported through the handles, per model a projection of its    *)
(*    definitions and of its held values)                                  *)
(* plus a ghost (which models the user opened and did not close, which     *)
(* references between models the user made).  They never look at S.        *)
(*                                                                         *)
(* Part 3 model-checks part 1 against part 2: every transition computes    *)
(* bad' = the labels of the part-2 predicates that are false on            *)
(* (Obs(S), ghost, operation, Obs(S')), and each predicate has its own      *)
(* INVARIANT "label \notin bad".  Part 4 judges recorded executions of the  *)
(* real library with part 2 and compares them with part 1 (disagreement    *)
(* there is DRIFT, not a verdict).                                         *)
(***************************************************************************)
EXTENDS Naturals, Integers, Sequences, FiniteSets, TLC, Json, IOUtils, TLCExt

CONSTANTS MaxOps,      \* bound on the number of public operations of a history
          MaxModels,   \* bound on the number of models created in a history
          Dump,        \* TRUE: print one history per explored transition (spec -> code)
          BaseNames,   \* names the user passes explicitly
          BadNames,    \* names that util.is_valid_name refuses
          NFiles,      \* how many of the saved models the model checker reads
          EditKinds,   \* which abstract edits the model checker enumerates ({"defs","value"})
          Linking,     \* TRUE: references between models and evaluations are enumerated
          StaleOps     \* TRUE: close is also made through handles of models closed before

VARIABLES S,      \* algorithm-layer state (expected state when validating a trace)
          nops,   \* number of public operations so far (model checking)
          bad,    \* labels of the C19 predicates that the last transition violated
          gh,     \* ghost: [open, links]
          last,   \* last public operation with its outcome
          hist,   \* history (only when Dump)
          tid, l, viol, pobs   \* trace validation: trace, next event, labels, previous observation
vars == <<S, nops, bad, gh, last, hist, tid, l, viol, pobs>>

Traces == JsonDeserialize(IOEnv.TRACE_FILE)

Range(f)     == {f[x] : x \in DOMAIN f}
EmptyF       == [x \in {} |-> 0]
Upd(f, k, v) == [x \in DOMAIN f \cup {k} |-> IF x = k THEN v ELSE f[x]]
Drop(f, K)   == [x \in DOMAIN f \ K |-> f[x]]
Max(a, b)    == IF a >= b THEN a ELSE b
Front(s)     == SubSeq(s, 1, Len(s) - 1)

\* the two saved models of a case: their stored names (files 1 and 2)
StoredMC == <<"A", "A_BAK1">>
Stored   == IF tid = 0 THEN StoredMC ELSE Traces[tid].hdr.stored
Bad      == IF tid = 0 THEN BadNames ELSE Range(Traces[tid].hdr.bad)
MaxK     == IF tid = 0 THEN 24 ELSE Traces[tid].hdr.bctr + Len(Traces[tid].ev) + 16

\* util.is_valid_name (51-61) on the vocabulary: everything the drivers use is an
\* identifier except the names listed as bad
Valid(n) == n \notin Bad

-----------------------------------------------------------------------------
(* PART 1 -- algorithm layer                                               *)

InitState(m0, b0) ==
    [reg   |-> EmptyF,     \* System._models : name -> ModelImpl          (system.py 495)
     nm    |-> <<>>,       \* ModelImpl.name of every model created so far (id = index)
     mctr  |-> m0,         \* System._modelnamer  (AutoNamer "Model")      (system.py 492)
     bctr  |-> b0,         \* System._backupnamer (AutoNamer "_BAK")       (system.py 493)
     cur   |-> 0,          \* System.currentmodel
     d     |-> <<>>,       \* per model: abstract definitions
     v     |-> <<>>,       \* per model: abstract held values (0 none, 1 calculated, 2 input)
     into  |-> <<>>,       \* per model: the models it holds references into
     panic |-> FALSE,      \* _rename_samename reached its "Failed to create" branch
     dead  |-> FALSE]      \* (trace validation) the code left the modelled behaviour

\* AutoNamer.get_next (util.py 29-39): the counter is incremented until
\* prefix + basename + counter is free; skipped numbers are never reused.
RECURSIVE GetNext(_, _, _)
GetNext(ctr, existing, prefix) ==
    LET c == ctr + 1
        n == prefix \o ToString(c)
    IN IF n \in existing THEN GetNext(c, existing, prefix) ELSE [name |-> n, ctr |-> c]

\* ModelImpl.rename (model.py 893-902)
ImplRename(s, m, name) ==
    IF ~Valid(name) THEN [s |-> s, r |-> "ValueError"]                     \* 895, 901-902
    ELSE IF name \in DOMAIN s.reg THEN [s |-> s, r |-> "false"]            \* 896, 899-900
    ELSE [s |-> [s EXCEPT !.nm[m] = name], r |-> "true"]                   \* 897-898

RECURSIVE SysRenameModel(_, _, _, _), SysRenameSameName(_, _)

\* System.rename_model (system.py 610-623)
SysRenameModel(s, new, old, ro) ==
    IF new = old THEN [s |-> s, r |-> "false"]                             \* 612-613
    ELSE LET s1 == IF ro /\ new \in DOMAIN s.reg
                   THEN SysRenameSameName(s, new) ELSE s                   \* 615-616
             m  == s1.reg[old]                                             \* 618 self.models[old_name]
             r  == ImplRename(s1, m, new)                                  \* 618
         IN IF r.r = "true"
            THEN [s |-> [r.s EXCEPT !.reg = Upd(Drop(@, {old}), new, m)],  \* 620
                  r |-> "true"]
            ELSE r                                                         \* 622-623 / exception

\* System._rename_samename (system.py 625-632)
SysRenameSameName(s, name) ==
    LET g == GetNext(s.bctr, DOMAIN s.reg, name \o "_BAK")                 \* 626
        r == SysRenameModel([s EXCEPT !.bctr = g.ctr], g.name, name, FALSE)\* 627
    IN IF r.r = "true" THEN r.s ELSE [r.s EXCEPT !.panic = TRUE]           \* 631-632

\* System.new_model (system.py 601-608) with ModelImpl.__init__ (model.py 868-873)
SysNewModel(s, name) ==
    LET s1 == IF name # "" /\ name \in DOMAIN s.reg
              THEN SysRenameSameName(s, name) ELSE s                       \* 603-604
    IN IF name # "" /\ ~Valid(name)
       THEN [s |-> s1, r |-> "ValueError", id |-> 0]                       \* model.py 872-873
       ELSE LET g  == IF name = ""                                         \* model.py 870-871
                      THEN GetNext(s1.mctr, DOMAIN s1.reg, "Model")
                      ELSE [name |-> name, ctr |-> s1.mctr]
                id == Len(s1.nm) + 1
            IN [s |-> [s1 EXCEPT !.mctr = g.ctr,
                                 !.nm   = Append(@, g.name),
                                 !.reg  = Upd(@, g.name, id),              \* 607
                                 !.cur  = id,                              \* 606
                                 !.d    = Append(@, 0),
                                 !.v    = Append(@, 0),
                                 !.into = Append(@, {})],
                r |-> "ok", id |-> id]

\* System.close_model (system.py 657-661).  The registry entry is found through the
\* model's NAME: for an open model that is its own entry; through the handle of a model
\* that was closed before it is a KeyError or -- when another model took the name
\* since -- the entry of that other model (KF:C19.StaleHandleCloseDropsNamesake).
\* Repaired (fix: 9b6a51e): the entry is removed only when it IS this model; a second
\* close through the handle of a closed model returns silently.
SysCloseModel(s, m) ==
    IF s.nm[m] \notin DOMAIN s.reg \/ s.reg[s.nm[m]] # m THEN s           \* 658-659 already closed
    ELSE [s EXCEPT !.reg = Drop(@, {s.nm[m]}),                             \* 659 del self.models[model.name]
                   !.cur = IF @ = m THEN 0 ELSE @]                         \* 660-661

\* read_model: a model with an automatic name is created first, then renamed
\* to the requested / stored name with rename_old=True; when that raises the
\* half-read model is closed again (serializer_6.py 865-868).  The user never
\* gets a handle to it, so it is forgotten here (no id is consumed).
ReaderReadModel(s, k, name) ==
    LET a      == SysNewModel(s, "")                                       \* serializer_6.py 900
        id     == a.id
        target == IF name # "" THEN name ELSE Stored[k]                    \* 1072-1075
        r      == SysRenameModel(a.s, target, a.s.nm[id], TRUE)            \* 1077-1083
    IN IF r.r = "ValueError"
       THEN LET c == SysCloseModel(r.s, id) IN                             \* 865-868
            [s |-> [c EXCEPT !.nm = Front(@), !.d = Front(@), !.v = Front(@),
                             !.into = Front(@)],
             r |-> "ValueError", id |-> 0]
       ELSE [s |-> [r.s EXCEPT !.d[id] = k], r |-> "ok", id |-> id]

\* Model.rename (model.py 324-327): the return value of rename_model is dropped,
\* so a refused rename (name taken, rename_old=False) is silent.
ApiRename(s, m, name, ro) ==
    LET r == SysRenameModel(s, name, s.nm[m], ro)
    IN [s |-> r.s, r |-> IF r.r = "ValueError" THEN "ValueError" ELSE "ok", id |-> 0]

ApiClose(s, m) == [s |-> SysCloseModel(s, m), r |-> "ok", id |-> 0]

\* models reachable from X through references between models
RECURSIVE ReachFrom(_, _)
ReachFrom(into, X) ==
    LET Y == X \cup UNION {into[i] : i \in X}
    IN IF Y = X THEN X ELSE ReachFrom(into, Y)
DependsOn(s, i, m) == m \in ReachFrom(s.into, {i})

\* an edit of model m: its own definitions / values change; values that were
\* computed through a reference into m are discarded (the dependency edge is
\* recorded across models); nothing else is touched.
ApiEdit(s, m, kind) ==
    LET clr == [i \in DOMAIN s.v |-> IF i # m /\ DependsOn(s, i, m) THEN 0 ELSE s.v[i]]
    IN [s |-> IF kind = "value"
              THEN [s EXCEPT !.v = [clr EXCEPT ![m] = 2]]
              ELSE [s EXCEPT !.d[m] = (@ + 1) % 4, !.v = [clr EXCEPT ![m] = 0]],
        r |-> "ok", id |-> 0]

\* model m gets a reference whose value is (an object of) model t
ApiXref(s, m, t) ==
    LET e == ApiEdit(s, m, "defs").s
    IN [s |-> [e EXCEPT !.into[m] = @ \cup {t}], r |-> "ok", id |-> 0]

\* an evaluation in m computes values in m and in the models m refers to
ApiEval(s, m) ==
    [s |-> [s EXCEPT !.v = [i \in DOMAIN s.v |->
                               IF DependsOn(s, m, i) THEN Max(s.v[i], 1) ELSE s.v[i]]],
     r |-> "ok", id |-> 0]

Apply(s, o) ==
    CASE o.op = "new_model"  -> SysNewModel(s, o.name)
      [] o.op = "read_model" -> ReaderReadModel(s, o.file, o.name)
      [] o.op = "rename"     -> ApiRename(s, o.m, o.name, o.ro)
      [] o.op = "close"      -> ApiClose(s, o.m)
      [] o.op = "edit"       -> ApiEdit(s, o.m, o.kind)
      [] o.op = "xref"       -> ApiXref(s, o.m, o.t)
      [] o.op = "eval"       -> ApiEval(s, o.m)

Obs(s) == [models  |-> {<<n, s.reg[n], s.nm[s.reg[n]]>> : n \in DOMAIN s.reg},
           handles |-> {<<i, s.nm[i]>> : i \in 1..Len(s.nm)},
           cur     |-> s.cur,
           defs    |-> s.d,
           vals    |-> s.v]

-----------------------------------------------------------------------------
(* PART 2 -- property layer: C19 over observations + ghost                 *)

\* e : the operation with its observed outcome (e.res, e.new = id of the model it returned, 0 if none)
GhostAfter(g, e) ==
    [open  |-> (g.open \cup (IF e.new > 0 THEN {e.new} ELSE {}))
                 \ (IF e.op = "close" THEN {e.m} ELSE {}),
     links |-> g.links \cup (IF e.op = "xref" /\ e.res = "ok" THEN {<<e.m, e.t>>} ELSE {})]

Ids(o)      == {t[2] : t \in o.models}
RegOf(o)    == {<<t[1], t[2]>> : t \in o.models}
Creates(e)  == e.op \in {"new_model", "read_model"}
Subject(e)  == IF Creates(e) THEN e.new ELSE e.m
Displacing(e) == Creates(e) \/ (e.op = "rename" /\ e.ro)
Target(e)   == IF e.op = "read_model" /\ e.name = "" THEN Stored[e.file] ELSE e.name
IsBackupOf(n2, n) == \E k \in 1..MaxK : n2 = n \o "_BAK" \o ToString(k)

\* models connected by references (in either direction, transitively)
RECURSIVE Comp(_, _)
Comp(links, X) ==
    LET Y == X \cup {p[2] : p \in {q \in links : q[1] \in X}}
                 \cup {p[1] : p \in {q \in links : q[2] \in X}}
    IN IF Y = X THEN X ELSE Comp(links, Y)
Linked(links, i, j) == j \in Comp(links, {i})

\* the registry maps each open model's current name to that model; names unique
\* (o, g : observation and ghost after the operation)
NamesUniqueAndCurrent(o, g) ==
    /\ \A t \in o.models : t[3] = t[1]
    /\ \A t1, t2 \in o.models : (t1[1] = t2[1] \/ t1[2] = t2[2]) => t1 = t2
    /\ Ids(o) \subseteq g.open

\* a handle to an open model reports the name under which the model is registered
HandlesFollow(o, g) ==
    \A h \in o.handles : (h[1] \in g.open /\ h[1] \in Ids(o)) =>
        \E t \in o.models : t[2] = h[1] /\ t[1] = h[2]

\* no operation drops or overwrites a model: everything opened and not closed is
\* registered, and a model other than the one operated on keeps its name, except
\* that a creation / read / rename(rename_old) under its name moves it to
\* <name>_BAK<k>
\* ... and when such an operation returns normally the former holder of the name
\* HAS been moved to a backup name (the new model is not silently given another one).
NoModelDropped(po, g2, e, o) ==
    /\ g2.open \subseteq Ids(o)
    /\ \A t \in po.models : (t[2] # Subject(e) /\ t[2] \in g2.open) =>
          \E u \in o.models :
             /\ u[2] = t[2]
             /\ \/ u[1] = t[1] /\ ~(Displacing(e) /\ e.res = "ok" /\ t[1] = Target(e))
                \/ Displacing(e) /\ t[1] = Target(e) /\ IsBackupOf(u[1], t[1])

CloseRemovesExactlyOne(po, e, o) ==
    e.op = "close" => RegOf(o) = {p \in RegOf(po) : p[2] # e.m}

\* (g : ghost BEFORE the operation)
Isolation(po, g, e, o) ==
    \A i \in (DOMAIN po.defs) \cap (DOMAIN o.defs) : i # Subject(e) =>
        /\ o.defs[i] = po.defs[i]
        /\ o.vals[i] = po.vals[i] \/ Linked(g.links, i, Subject(e))

\* KNOWN FINDING, classified exactly: close() through the handle of a model that was
\* closed before, while ANOTHER model is registered under the name the stale handle
\* still reports, removes that other model's entry and nothing else
\* (System.close_model deletes self.models[model.name]).
KF_StaleHandleClose(po, g, e, o) ==
    /\ e.op = "close" /\ e.m \notin g.open
    /\ \E h \in po.handles : h[1] = e.m
    /\ \E t \in po.models :
          /\ t[2] # e.m
          /\ t[1] = (CHOOSE h \in po.handles : h[1] = e.m)[2]
          /\ RegOf(o) = RegOf(po) \ {<<t[1], t[2]>>}

PropLabels(po, g, g2, e, o) ==
    LET base ==
           (IF NamesUniqueAndCurrent(o, g2)       THEN {} ELSE {"C19.NamesUniqueAndCurrent"})
      \cup (IF HandlesFollow(o, g2)               THEN {} ELSE {"C19.HandlesFollow"})
      \cup (IF NoModelDropped(po, g2, e, o)       THEN {} ELSE {"C19.NoModelDropped"})
      \cup (IF CloseRemovesExactlyOne(po, e, o)   THEN {} ELSE {"C19.CloseRemovesExactlyOne"})
      \cup (IF Isolation(po, g, e, o)             THEN {} ELSE {"C19.Isolation"})
    IN IF base \cap {"C19.NoModelDropped", "C19.CloseRemovesExactlyOne"} # {}
          /\ KF_StaleHandleClose(po, g, e, o)
       THEN (base \ {"C19.NoModelDropped", "C19.CloseRemovesExactlyOne"})
                \cup {"KF:C19.StaleHandleCloseDropsNamesake"}
       ELSE base

-----------------------------------------------------------------------------
(* PART 3 -- exhaustive model checking of part 1 against part 2            *)

NoOp == [op |-> "init", name |-> "", m |-> 0, t |-> 0, file |-> 0, ro |-> FALSE,
         kind |-> "", res |-> "ok", new |-> 0]
Op(op, name, m, t, file, ro, kind) ==
    [op |-> op, name |-> name, m |-> m, t |-> t, file |-> file, ro |-> ro, kind |-> kind]

Init == /\ S = InitState(0, 0)
        /\ nops = 0 /\ bad = {}
        /\ gh = [open |-> {}, links |-> {}]
        /\ last = NoOp
        /\ hist = <<>>
        /\ tid = 0 /\ l = 0 /\ viol = {} /\ pobs = <<>>

\* one public operation = one step.  Everything is bound to concrete values once
\* (\E over singleton sets) and the property layer is evaluated on
\* (observation before, ghost, operation, observation after) of THIS transition.
Do(o) ==
    /\ nops < MaxOps
    /\ \E r \in {Apply(S, o)} :
       \E e \in {[op |-> o.op, name |-> o.name, m |-> o.m, t |-> o.t, file |-> o.file,
                  ro |-> o.ro, kind |-> o.kind, res |-> r.r, new |-> r.id]} :
       \E g2 \in {GhostAfter(gh, e)} :
       \E po \in {Obs(S)} : \E o2 \in {Obs(r.s)} :
          /\ S' = r.s
          /\ nops' = nops + 1
          /\ last' = e
          /\ gh' = g2
          /\ bad' = PropLabels(po, gh, g2, e, o2)
          /\ hist' = IF Dump THEN Append(hist, e) ELSE hist
          /\ UNCHANGED <<tid, l, viol, pobs>>

CanCreate == Len(S.nm) < MaxModels
GivenNames == BaseNames \cup BadNames \cup {""}        \* "" : no name given

NewModel(n)       == CanCreate /\ Do(Op("new_model", n, 0, 0, 0, FALSE, ""))
ReadModel(k, n)   == CanCreate /\ Do(Op("read_model", n, 0, 0, k, FALSE, ""))
Rename(m, n, ro)  == Do(Op("rename", n, m, 0, 0, ro, ""))
Close(m)          == Do(Op("close", "", m, 0, 0, FALSE, ""))
Edit(m, kind)     == Do(Op("edit", "", m, 0, 0, FALSE, kind))
Xref(m, t)        == m # t /\ t \notin S.into[m] /\ Do(Op("xref", "", m, t, 0, FALSE, ""))
Eval(m)           == Do(Op("eval", "", m, 0, 0, FALSE, ""))

Next ==
    \/ \E nn \in GivenNames : NewModel(nn)
    \/ \E k \in 1..NFiles, nn \in GivenNames : ReadModel(k, nn)
    \/ \E m \in gh.open, nn \in BaseNames \cup BadNames \cup DOMAIN S.reg, ro \in BOOLEAN :
          Rename(m, nn, ro)
    \/ \E m \in (IF StaleOps THEN 1..Len(S.nm) ELSE gh.open) : Close(m)
    \/ \E m \in gh.open, kind \in EditKinds : Edit(m, kind)
    \/ Linking /\ \E m \in gh.open, t \in gh.open : Xref(m, t)
    \/ Linking /\ \E m \in gh.open : Eval(m)

Spec == Init /\ [][Next]_vars

\* The history and the last operation are not part of a state's identity: every
\* TRANSITION is still generated and judged (bad' is part of the identity of the
\* successor).  Nor are the current model (nothing reads it) and what is left of closed models
\* (their last name, definitions, values): no operation is made on a closed
\* model and nothing in the registry depends on them.
OpenOnly(f, dflt) == [i \in DOMAIN f |-> IF i \in gh.open THEN f[i] ELSE dflt]
View == <<nops, bad, S.reg, OpenOnly(S.nm, ""), S.mctr, S.bctr, OpenOnly(S.d, 0), OpenOnly(S.v, 0),
          S.into, S.panic, gh>>

\* one INVARIANT per predicate of the property layer
Inv_C19_NamesUniqueAndCurrent  == "C19.NamesUniqueAndCurrent"  \notin bad
Inv_C19_HandlesFollow          == "C19.HandlesFollow"          \notin bad
Inv_C19_NoModelDropped         == "C19.NoModelDropped"         \notin bad
Inv_C19_CloseRemovesExactlyOne == "C19.CloseRemovesExactlyOne" \notin bad
Inv_C19_Isolation              == "C19.Isolation"              \notin bad
Inv_KF_StaleHandleClose        == "KF:C19.StaleHandleCloseDropsNamesake" \notin bad
Inv_Algo_NoPanic               == ~S.panic

\* spec -> code: print the history of every explored transition
DumpHist == (Dump /\ Len(hist) > 0) => PrintT(<<"MBT", ToJson(hist)>>)
Bound    == DumpHist

-----------------------------------------------------------------------------
(* PART 4 -- recorded executions of the real library, judged by TLC        *)

Tr  == Traces[tid]
NEv == Len(Tr.ev)
Ev  == Tr.ev[l]

PairsToFun(sq) ==
    [i \in {p[1] : p \in Range(sq)} |-> (CHOOSE p \in Range(sq) : p[1] = i)[2]]

ObsOfPost(p) ==
    [models  |-> {<<t[1], t[2], t[3]>> : t \in Range(p.models)},
     handles |-> {<<h[1], h[2]>> : h \in Range(p.handles)},
     cur     |-> p.cur,
     defs    |-> PairsToFun(p.defs),
     vals    |-> PairsToFun(p.vals)]

\* the operation can be applied to the expected state
WellFormed(s, e) ==
    CASE e.op \in {"new_model"} -> TRUE
      [] e.op = "read_model" -> e.file \in 1..Len(Stored)
      [] e.op = "rename" ->
            e.m \in 1..Len(s.nm) /\ s.nm[e.m] \in DOMAIN s.reg /\ s.reg[s.nm[e.m]] = e.m
      [] e.op = "close" -> e.m \in 1..Len(s.nm)
      [] e.op \in {"edit", "eval"} -> e.m \in 1..Len(s.nm)
      [] e.op = "xref" -> e.m \in 1..Len(s.nm) /\ e.t \in 1..Len(s.nm)
      [] OTHER -> FALSE

RegistryOp(e) == e.op \in {"new_model", "read_model", "rename", "close"}

\* disagreement between the code and the algorithm layer (never a verdict)
DriftLabels(r, e, o) ==
       (IF RegistryOp(e) /\ r.r # e.res THEN {"DRIFT:result"} ELSE {})
  \cup (IF r.id # e.new /\ Creates(e) THEN {"DRIFT:newid"} ELSE {})
  \cup (IF {<<n, r.s.reg[n]>> : n \in DOMAIN r.s.reg} # RegOf(o) THEN {"DRIFT:registry"} ELSE {})
  \cup (IF RegistryOp(e) /\ r.s.cur # o.cur THEN {"DRIFT:cur"} ELSE {})
  \cup (IF r.s.panic THEN {"DRIFT:panic"} ELSE {})

TInit ==
    /\ tid \in 1..Len(Traces)
    /\ l = 1
    /\ viol = {}
    /\ S = InitState(Traces[tid].hdr.mctr, Traces[tid].hdr.bctr)
    /\ gh = [open |-> {}, links |-> {}]
    /\ pobs = ObsOfPost(Traces[tid].hdr.post)
    /\ last = NoOp /\ hist = <<>> /\ nops = 0 /\ bad = {}
    /\ TLCSet(tid, <<0, {}>>)

TNext ==
    /\ l <= NEv
    /\ LET e     == Ev
           o     == ObsOfPost(e.post)
           g2    == GhostAfter(gh, e)
           wf    == ~S.dead /\ WellFormed(S, e)
           r     == IF wf THEN Apply(S, e) ELSE [s |-> S, r |-> e.res, id |-> e.new]
           dl    == IF S.dead THEN {}
                    ELSE IF ~wf THEN {"DRIFT:op"}
                    ELSE DriftLabels(r, e, o)
           new   == PropLabels(pobs, gh, g2, e, o) \cup dl
           known == {x[1] : x \in viol}
       IN /\ viol' = viol \cup {<<x, l>> : x \in new \ known}
          \* (creating a space makes its model the current one, parent.py 128: which edits
          \*  do is not modelled, the current model is adopted after an edit)
          /\ S' = IF dl # {} THEN [r.s EXCEPT !.dead = TRUE]
                  ELSE IF RegistryOp(e) THEN r.s ELSE [r.s EXCEPT !.cur = o.cur]
          /\ gh' = g2
          /\ pobs' = o
    /\ l' = l + 1
    /\ UNCHANGED <<tid, last, hist, nops, bad>>

TSpec == TInit /\ [][TNext]_vars

Progress == IF l - 1 >= TLCGet(tid)[1] THEN TLCSet(tid, <<l - 1, viol>>) ELSE TRUE

Verdicts ==
    \A t \in 1..Len(Traces) :
        PrintT(<<"VERDICT", t, TLCGet(t)[1], Len(Traces[t].ev), TLCGet(t)[2]>>)
=============================================================================
