------------------------------- MODULE MxEval -------------------------------
(***************************************************************************)
(* Algorithm layer: how modelx evaluates and invalidates.                   *)
(*                                                                         *)
(* One action per critical section of the code (modelx/core/system.py,     *)
(* cells.py, model.py, space.py) -- written to be bound to it:             *)
(*   TopCall          Cells.__call__ -> eval_node -> _start_exec           *)
(*   Step             one operation of the formula on top of the call      *)
(*                    stack: constant, reference read (get_attr pushes     *)
(*                    attribute-read references on the refstack), call     *)
(*                    (cache hit: edge to the nearest cached caller;       *)
(*                    miss: CallStack.append, depth check)                 *)
(*   Return           on_eval_formula / _store_value / CallStack.pop       *)
(*   Unwind           CallStack.rollback, frame by frame; a frame whose    *)
(*                    formula catches the exception resumes                *)
(*   SetValue ClearAt Clear ClearAll   cells.py:781-826                    *)
(*   SetRef DelRef    namespace-change notification per space (or for all  *)
(*                    spaces for model-level references) +                 *)
(*                    clear_attr_referrers                                  *)
(*   SetFormula SetCached   clear_obj                                      *)
(* TLC checks that every reachable state satisfies the property layer      *)
(* (MxProps) -- and prints every maximal history so that the harness can   *)
(* replay it on the real library (spec -> code).                           *)
(***************************************************************************)
EXTENDS MxProps, Json, IOUtils

CONSTANTS MaxOps,       \* bound on the number of public operations in a history
          MaxDepthC,    \* configured recursion limit (0 = unlimited for this instance)
          Dump,         \* TRUE: print maximal histories for replay
          Pattern       \* which histories to explore: "any" | "call-edit-edit" | "call-flag-edit"

\* The instance (initial definitions and the vocabulary of operations) is a
\* JSON file written by harness/instances.py -- the same file the harness
\* uses to replay the histories TLC prints, so both sides share one source.
Instance == JsonDeserialize(IOEnv.MC_INSTANCE)
NInits   == Len(Instance.inits)
AllOps   == Instance.ops

VARIABLES D, data, tgn, tge, rge, stack, refstack, rolled, mode, exc, last, hist,
          taint    \* known finding KF1: values computed while a handler swallowed a callee's failure
vars == <<D, data, tgn, tge, rge, stack, refstack, rolled, mode, exc, last, hist, taint>>

Restrict(f, S) == [x \in (DOMAIN f) \cap S |-> f[x]]
Top == stack[Len(stack)]
FrameRec(fr) == FRec(D, CellRecOf(D, <<fr.n[1], fr.n[2]>>, fr.n[3]))

RECURSIVE NearestCached(_)
\* CallStack.idxstack: index of the nearest cached frame at or below i (0 = none)
NearestCached(i) == IF i = 0 THEN 0
                    ELSE IF IsCachedNode(D, stack[i].n) THEN i ELSE NearestCached(i - 1)

-----------------------------------------------------------------------------
(* Dependency-graph operations (TraceGraph / ReferenceGraph / TraceManager) *)

RECURSIVE Desc(_, _)
Desc(front, seen) ==
    LET nxt == {e[2] : e \in {e \in tge : e[1] \in front}} \ seen IN
    IF nxt = {} THEN seen ELSE Desc(nxt, seen \cup nxt)
WithDescs(ns) == LET s == ns \cap tgn IN Desc(s, s)

\* TraceManager.clear_with_descs / clear_obj applied to a set of seed nodes
ClearNodes(seeds) ==
    LET gone == WithDescs(seeds) IN
    /\ data' = Restrict(data, DOMAIN data \ gone)
    /\ tgn'  = tgn \ gone
    /\ tge'  = {e \in tge : e[1] \notin gone /\ e[2] \notin gone}
    /\ rge'  = {e \in rge : e[2] \notin gone}
    /\ D'    = [D EXCEPT !.inp = Drop(@, gone)]
    /\ taint' = taint \ gone

\* Deviation switch for a design-level control (MC_MxEval_stale71.cfg overrides it with
\* StaleOn): TraceManager.clear_attr_referrers as it was before repair #71 -- the elements
\* cleared as DEPENDENTS of a reader of the edited reference stayed in the reference graph.
StaleRefEdges == FALSE
StaleOn == TRUE

\* seeds: cleared through clear_with_descs / clear_obj;  attr: the readers of an edited
\* reference (ReferenceGraph.remove_with_descs), cleared through clear_attr_referrers
ClearNodesAttr(seeds, attr, D2) ==
    LET gone == WithDescs(seeds \cup attr)
        forgotten == IF StaleRefEdges THEN WithDescs(seeds) \cup attr ELSE gone IN
    /\ data' = Restrict(data, DOMAIN data \ gone)
    /\ tgn'  = tgn \ gone
    /\ tge'  = {e \in tge : e[1] \notin gone /\ e[2] \notin gone}
    /\ rge'  = {e \in rge : e[2] \notin forgotten}
    /\ D'    = [D2 EXCEPT !.inp = Drop(@, gone)]
    /\ taint' = taint \ gone

ClearNodesD(seeds, D2) == ClearNodesAttr(seeds, {}, D2)   \* same as ClearNodes, when the definitions change as well

NodesOfCells(p, c) == {n \in tgn : n[1] = p /\ n[2] = <<>> /\ n[3] = c}

-----------------------------------------------------------------------------
(* References traversed by attribute access (BaseSpaceImpl.get_attr pushes  *)
(* them on the refstack); a bare name pushes nothing.                       *)

RECURSIVE AttrRefs(_, _, _)
AttrRefs(ctx, path, i) ==
    IF i > Len(path) THEN {}
    ELSE LET obj == WalkFrom(D, Look(D, ctx, path[1]), SubSeq(path, 1, i - 1), 2) IN
         (IF obj[1] # "sp" THEN {}
          ELSE LET own == RefOwner(D, <<obj[2], obj[3]>>, path[i]) IN
               IF own = Fail THEN {} ELSE {own})
         \cup AttrRefs(ctx, path, i + 1)
PathRefs(ctx, path) == AttrRefs(ctx, path, 2)

Contrib(v) == IF v = NoneV THEN NoneContrib ELSE v

-----------------------------------------------------------------------------
(* Public operations are recorded in hist exactly as the harness replays   *)
(* them (same record shape as the trace events).                           *)

Idle     == mode = "idle" /\ Len(hist) <= MaxOps
Record(op) == hist' = Append(hist, op)

TopCall(op) ==
    /\ Idle /\ op.op = "call" /\ Record(op)
    /\ LET n == <<op.c[1], op.c[2], op.c[3],
                 Bind(FRec(D, CellRecOf(D, <<op.c[1], op.c[2]>>, op.c[3])).ps, op.args)>> IN
       IF IsCachedNode(D, n) /\ n \in DOMAIN data
       THEN /\ last' = [n |-> n, res |-> data[n], tb |-> <<>>, fx |-> <<>>, t |-> n \in taint]
            /\ UNCHANGED <<D, data, tgn, tge, rge, stack, refstack, rolled, mode, exc, taint>>
       ELSE /\ stack' = <<[n |-> n, pc |-> 1, acc |-> 0, t |-> FALSE]>>
            /\ mode' = "run" /\ rolled' = <<>> /\ exc' = 0
            /\ last' = [n |-> n, res |-> 0, tb |-> <<>>, fx |-> <<<<"enter", n>>>>, t |-> FALSE]
            /\ UNCHANGED <<D, data, tgn, tge, rge, refstack, taint>>

\* the frame on top raises `code`: caught by its own handler, or it unwinds
RaiseInTop(code) ==
    IF FrameRec(Top).catch /\ Catchable(code)
    THEN /\ stack' = [stack EXCEPT ![Len(stack)] =
                         [@ EXCEPT !.pc = Len(FrameRec(Top).ops) + 1, !.acc = FrameRec(Top).onerr]]
         /\ UNCHANGED <<mode, exc>>
    ELSE /\ mode' = "unwind" /\ exc' = code /\ UNCHANGED stack

Advance(add) ==
    stack' = [stack EXCEPT ![Len(stack)] = [@ EXCEPT !.acc = @ + add, !.pc = @ + 1]]

\* completion of the frame on top with value v (CellsImpl.on_eval_formula ->
\* _store_value -> CallStack.pop)
Return(v) ==
    LET fr == Top  n == fr.n  ch == IsCachedNode(D, n)
        ctx == <<n[1], n[2]>>
        k == Len(stack) IN
    IF v = NoneV /\ ~AllowNone(D, ctx, n[3])
    THEN \* NoneReturnedError raised by modelx after the formula returned
         /\ mode' = "unwind0" /\ exc' = ErrNone
         /\ last' = [last EXCEPT !.fx = Append(@, <<"exit", n, v>>)]
         /\ UNCHANGED <<D, data, tgn, tge, rge, stack, refstack, rolled, hist, taint>>
    ELSE LET pred == NearestCached(k - 1)
             me   == IF ch THEN n ELSE ObjNode(n)
             mine == {r[2] : r \in {x \in refstack : x[1] = k}} IN
         /\ data' = IF ch THEN Upd(data, n, v) ELSE data
         /\ taint' = IF ch /\ fr.t THEN taint \cup {n} ELSE taint
         /\ IF k > 1 /\ pred > 0
            THEN /\ tge' = tge \cup {<<me, stack[pred].n>>}
                 /\ tgn' = tgn \cup {me, stack[pred].n}
            ELSE /\ tge' = tge
                 /\ tgn' = IF ch THEN tgn \cup {n} ELSE tgn
         /\ IF ch
            THEN /\ rge' = rge \cup {<<r, n>> : r \in mine}
                 /\ refstack' = {x \in refstack : x[1] # k}
            ELSE \* uncached: pending attribute reads are handed to the nearest cached caller
                 /\ rge' = rge
                 /\ refstack' = IF k > 1 /\ pred > 0
                                THEN {IF x[1] = k THEN <<pred, x[2]>> ELSE x : x \in refstack}
                                ELSE {x \in refstack : x[1] # k}
         /\ last' = [last EXCEPT !.fx = Append(@, <<"exit", n, v>>),
                                 !.res = IF k = 1 THEN v ELSE @,
                                 !.t = IF k = 1 THEN fr.t ELSE @]
         /\ IF k = 1
            THEN /\ stack' = <<>> /\ mode' = "idle"
            ELSE /\ stack' = [Front(stack) EXCEPT ![k - 1] =
                                 [@ EXCEPT !.acc = @ + Contrib(v), !.pc = @ + 1, !.t = @ \/ fr.t]]
                 /\ mode' = "run"
         /\ UNCHANGED <<D, rolled, exc, hist>>

Step ==
    /\ mode = "run"
    /\ LET fr == Top  n == fr.n  ctx == <<n[1], n[2]>>  key == n[4]
           ops == FrameRec(fr).ops IN
       IF fr.pc > Len(ops) THEN Return(fr.acc)
       ELSE LET op == ops[fr.pc] IN
         CASE op[1] = "const" ->
                /\ Advance(op[2])
                /\ UNCHANGED <<D, data, tgn, tge, rge, refstack, rolled, mode, exc, last, hist, taint>>
           [] op[1] = "none" -> Return(NoneV)
           [] op[1] = "raise" ->
                /\ RaiseInTop(ErrRaise(op[2]))
                /\ UNCHANGED <<D, data, tgn, tge, rge, refstack, rolled, last, hist, taint>>
           [] op[1] = "read" ->
                LET o == Resolve(D, ctx, op[2]) IN
                IF o[1] = "int"
                THEN /\ Advance(o[2])
                     /\ refstack' = refstack \cup {<<Len(stack), r>> : r \in PathRefs(ctx, op[2])}
                     /\ UNCHANGED <<D, data, tgn, tge, rge, rolled, mode, exc, last, hist, taint>>
                ELSE /\ RaiseInTop(IF o = NoObj THEN ErrName ELSE ErrType)
                     /\ UNCHANGED <<D, data, tgn, tge, rge, refstack, rolled, last, hist, taint>>
           [] op[1] = "call" ->
                IF Skipped(op[3], key)
                THEN /\ Advance(0)
                     /\ UNCHANGED <<D, data, tgn, tge, rge, refstack, rolled, mode, exc, last, hist, taint>>
                ELSE IF CallErr(D, ctx, key, op) # 0
                THEN /\ RaiseInTop(CallErr(D, ctx, key, op))
                     /\ UNCHANGED <<D, data, tgn, tge, rge, refstack, rolled, last, hist, taint>>
                ELSE LET m == CallTarget(D, ctx, key, op)
                         pushed == refstack \cup {<<Len(stack), r>> : r \in PathRefs(ctx, op[2])} IN
                     IF IsCachedNode(D, m) /\ m \in DOMAIN data
                     THEN \* cache hit inside a formula (system.py:54-63)
                          LET pred == NearestCached(Len(stack)) IN
                          /\ stack' = [stack EXCEPT ![Len(stack)] =
                                 [@ EXCEPT !.acc = @ + Contrib(data[m]), !.pc = @ + 1,
                                           !.t = @ \/ (m \in taint)]]
                          /\ IF pred > 0
                             THEN /\ tge' = tge \cup {<<m, stack[pred].n>>}
                                  /\ tgn' = tgn \cup {m, stack[pred].n}
                             ELSE UNCHANGED <<tge, tgn>>
                          /\ refstack' = pushed
                          /\ UNCHANGED <<D, data, rge, rolled, mode, exc, last, hist, taint>>
                     ELSE IF MaxDepthC > 0 /\ Len(stack) > MaxDepthC
                     THEN \* CallStack.append refuses: DeepReferenceError in the caller's frame
                          /\ RaiseInTop(ErrDeep)
                          /\ refstack' = pushed
                          /\ UNCHANGED <<D, data, tgn, tge, rge, rolled, last, hist, taint>>
                     ELSE /\ stack' = Append(stack, [n |-> m, pc |-> 1, acc |-> 0, t |-> FALSE])
                          /\ refstack' = pushed
                          /\ last' = [last EXCEPT !.fx = Append(@, <<"enter", m>>)]
                          /\ UNCHANGED <<D, data, tgn, tge, rge, rolled, mode, exc, hist, taint>>

\* CallStack.rollback of the frame on top, then the exception reaches the
\* caller's formula
Unwind ==
    /\ mode \in {"unwind", "unwind0"}
    /\ LET n == Top.n  k == Len(stack)
           caught == k > 1 /\ Catchable(exc)
                     /\ FRec(D, CellRecOf(D, <<stack[k - 1].n[1], stack[k - 1].n[2]>>, stack[k - 1].n[3])).catch IN
       /\ rolled' = IF caught THEN <<>> ELSE Append(rolled, n)
       /\ tgn' = tgn \ {n}
       /\ tge' = {e \in tge : e[1] # n /\ e[2] # n}
       /\ refstack' = {x \in refstack : x[1] # k}
       /\ last' = [last EXCEPT
                     !.fx = IF mode = "unwind0" THEN @
                            ELSE Append(@, <<"unwind", n, "", 0>>),
                     !.res = IF k = 1 THEN exc ELSE @,
                     !.tb  = IF k = 1
                             THEN [i \in 1..(Len(rolled) + 1) |-> Append(rolled, n)[Len(rolled) + 2 - i]]
                             ELSE @]
       /\ IF k = 1
          THEN /\ stack' = <<>> /\ mode' = "idle" /\ UNCHANGED exc
          ELSE LET caller == stack[k - 1]
                   crec == FRec(D, CellRecOf(D, <<caller.n[1], caller.n[2]>>, caller.n[3])) IN
               IF crec.catch /\ Catchable(exc)
               THEN /\ stack' = [Front(stack) EXCEPT ![k - 1] =
                                    [@ EXCEPT !.pc = Len(crec.ops) + 1, !.acc = crec.onerr, !.t = TRUE]]
                    /\ mode' = "run" /\ exc' = 0
               ELSE /\ stack' = Front(stack) /\ mode' = "unwind" /\ UNCHANGED exc
    /\ UNCHANGED <<D, data, rge, hist, taint>>

-----------------------------------------------------------------------------
(* Edits                                                                   *)

NodeOfOp(op) == <<op.c[1], op.c[2], op.c[3],
                  Bind(FRec(D, CellRecOf(D, <<op.c[1], op.c[2]>>, op.c[3])).ps, op.args)>>

SetValue(op) ==
    /\ Idle /\ op.op = "set_value" /\ Record(op)
    /\ LET n == NodeOfOp(op)
           gone == WithDescs({n}) IN
       /\ data' = Upd(Restrict(data, DOMAIN data \ gone), n, op.v)
       /\ tgn'  = (tgn \ gone) \cup {n}
       /\ tge'  = {e \in tge : e[1] \notin gone /\ e[2] \notin gone}
       /\ rge'  = {e \in rge : e[2] \notin gone}
       /\ D'    = [D EXCEPT !.inp = Upd(Drop(@, gone), n, op.v)]
       /\ taint' = taint \ (gone \cup {n})
    /\ last' = [n |-> <<>>, res |-> 0, tb |-> <<>>, fx |-> <<>>, t |-> FALSE]
    /\ UNCHANGED <<stack, refstack, rolled, mode, exc>>

ClearAt(op) ==
    /\ Idle /\ op.op = "clear_at" /\ Record(op)
    /\ ClearNodes({NodeOfOp(op)} \cap DOMAIN data)
    /\ last' = [n |-> <<>>, res |-> 0, tb |-> <<>>, fx |-> <<>>, t |-> FALSE]
    /\ UNCHANGED <<stack, refstack, rolled, mode, exc>>

ClearCells(op) ==       \* cells.clear() / cells.clear_all()
    /\ Idle /\ op.op \in {"clear", "clear_all"} /\ Record(op)
    /\ ClearNodes({n \in DOMAIN data :
                      /\ <<n[1], n[2], n[3]>> = <<op.c[1], op.c[2], op.c[3]>>
                      /\ (op.op = "clear_all" \/ n \notin DOMAIN D.inp)})
    /\ last' = [n |-> <<>>, res |-> 0, tb |-> <<>>, fx |-> <<>>, t |-> FALSE]
    /\ UNCHANGED <<stack, refstack, rolled, mode, exc>>

\* what the namespace-change notification of static space p clears: the
\* calculated values of its cells and the object nodes of its uncached cells
NsSeeds(p) ==
    {n \in DOMAIN data : n[1] = p /\ n[2] = <<>> /\ n \notin DOMAIN D.inp}
    \cup {n \in tgn : n[1] = p /\ n[2] = <<>> /\ n[4] = ObjKey}
AllNsSeeds == UNION {NsSeeds(p) : p \in D.sp}
AttrReferrers(rid) == {e[2] : e \in {x \in rge : x[1] = rid}}

SetRef(op) ==
    /\ Idle /\ op.op = "set_ref" /\ Record(op)
    /\ LET rid == <<op.s, op.n>>
           D2 == IF Len(op.s) = 0
                 THEN [D EXCEPT !.grefs = Upd(@, op.n, [v |-> op.v, mode |-> "auto"])]
                 ELSE [D EXCEPT !.refs[op.s] = Upd(@, op.n, [v |-> op.v, mode |-> op.mode])]
           \* a new space-level reference may shadow a model-level one that
           \* formulas reached through this space by attribute
           shadowed == IF Len(op.s) > 0 /\ op.n \notin DOMAIN D.refs[op.s] /\ op.n \in DOMAIN D.grefs
                       THEN AttrReferrers(<<<<>>, op.n>>) ELSE {}
           seeds == (IF Len(op.s) = 0 THEN AllNsSeeds ELSE NsSeeds(op.s)) IN
       ClearNodesAttr(seeds, AttrReferrers(rid) \cup shadowed, D2)
    /\ last' = [n |-> <<>>, res |-> 0, tb |-> <<>>, fx |-> <<>>, t |-> FALSE]
    /\ UNCHANGED <<stack, refstack, rolled, mode, exc>>

DelRef(op) ==
    /\ Idle /\ op.op = "del_ref" /\ Record(op)
    /\ LET rid == <<op.s, op.n>>
           D2 == IF Len(op.s) = 0 THEN [D EXCEPT !.grefs = Drop(@, {op.n})]
                 ELSE [D EXCEPT !.refs[op.s] = Drop(@, {op.n})]
           seeds == (IF Len(op.s) = 0 THEN AllNsSeeds ELSE NsSeeds(op.s)) IN
       ClearNodesAttr(seeds, AttrReferrers(rid), D2)
    /\ last' = [n |-> <<>>, res |-> 0, tb |-> <<>>, fx |-> <<>>, t |-> FALSE]
    /\ UNCHANGED <<stack, refstack, rolled, mode, exc>>

SetCellsProp(op) ==     \* formula or cached flag: clear_obj(cells)
    /\ Idle /\ op.op \in {"set_formula", "set_cached"} /\ Record(op)
    /\ LET rec == D.cells[op.s][op.c]
           D2 == [D EXCEPT !.cells[op.s][op.c] =
                     IF op.op = "set_formula" THEN [rec EXCEPT !.f = op.f]
                     ELSE [rec EXCEPT !.cached = op.b]] IN
       ClearNodesD(NodesOfCells(op.s, op.c), D2)
    /\ last' = [n |-> <<>>, res |-> 0, tb |-> <<>>, fx |-> <<>>, t |-> FALSE]
    /\ UNCHANGED <<stack, refstack, rolled, mode, exc>>

\* del model.<space> (BaseSpaceImpl.on_delete, space.py:1556-1568): every value of the
\* cells of the removed spaces goes, inputs included, with its dependents; so do the
\* values that reached a reference of the removed spaces -- or a model-level reference
\* through any space -- by attribute access (clear_ref_referrers)
DelSpace(op) ==
    /\ Idle /\ op.op = "del_space" /\ Record(op)
    /\ LET gone == Subtree(D, op.p)
           keep == D.sp \ gone
           D2 == KillDangling([D EXCEPT !.sp = keep,
                    !.bases = [t \in keep |-> SelectSeq(D.bases[t], LAMBDA b : b \notin gone)],
                    !.cells = Drop(@, gone), !.refs = Drop(@, gone), !.span = Drop(@, gone),
                    !.pf = Drop(@, gone),
                    !.inp = Drop(@, {n \in DOMAIN @ : n[1] \in gone})])
           seeds == {n \in tgn : n[1] \in gone}
                    \cup UNION {AttrReferrers(<<t, r>>) : t \in gone, r \in UNION {DOMAIN D.refs[u] : u \in gone}}
                    \cup UNION {AttrReferrers(<<<<>>, g>>) : g \in DOMAIN D.grefs} IN
       ClearNodesD(seeds, D2)
    /\ last' = [n |-> <<>>, res |-> 0, tb |-> <<>>, fx |-> <<>>, t |-> FALSE]
    /\ UNCHANGED <<stack, refstack, rolled, mode, exc>>

\* space.rename(name) (UserSpaceImpl.on_rename, space.py): the same invalidation as a
\* deletion -- values and inputs of the renamed tree, values computed through its cells
\* (cached or not) and through its references or model-level references reached by
\* attribute -- and the definitions live on under the new path
RenameSpace(op) ==
    /\ Idle /\ op.op = "rename_space" /\ Record(op)
    /\ LET gone == Subtree(D, op.p)
           new  == Append(Front(op.p), op.nm)
           R(q) == IF IsPrefix(op.p, q) THEN new \o SubSeq(q, Len(op.p) + 1, Len(q)) ELSE q
           nsp  == {R(q) : q \in D.sp}
           Old(q) == CHOOSE x \in D.sp : R(x) = q
           Rv(v) == IF v[1] \in {"sp", "ce"} THEN <<v[1], R(v[2]), v[3], v[4]>> ELSE v
           D2 == [D EXCEPT !.sp = nsp,
                    !.bases = [q \in nsp |-> [i \in 1..Len(D.bases[Old(q)]) |-> R(D.bases[Old(q)][i])]],
                    !.cells = [q \in nsp |-> D.cells[Old(q)]],
                    !.refs  = [q \in nsp |-> [n \in DOMAIN D.refs[Old(q)] |->
                                  [D.refs[Old(q)][n] EXCEPT !.v = Rv(@)]]],
                    !.grefs = [n \in DOMAIN @ |-> [@[n] EXCEPT !.v = Rv(@)]],
                    !.span  = [q \in nsp |-> D.span[Old(q)]],
                    !.pf    = [q \in {R(x) : x \in DOMAIN D.pf} |-> D.pf[Old(q)]],
                    !.inp   = Drop(@, {n \in DOMAIN @ : n[1] \in gone})]
           seeds == {n \in tgn : n[1] \in gone}
                    \cup UNION {AttrReferrers(<<t, r>>) : t \in gone, r \in UNION {DOMAIN D.refs[u] : u \in gone}}
                    \cup UNION {AttrReferrers(<<<<>>, g>>) : g \in DOMAIN D.grefs} IN
       ClearNodesD(seeds, D2)
    /\ last' = [n |-> <<>>, res |-> 0, tb |-> <<>>, fx |-> <<>>, t |-> FALSE]
    /\ UNCHANGED <<stack, refstack, rolled, mode, exc>>

-----------------------------------------------------------------------------
\* which operations of the vocabulary make sense in the current definitions
Applicable(op) ==
    CASE op.op \in {"call", "set_value", "clear_at", "clear", "clear_all"} ->
            /\ op.c[1] \in D.sp /\ op.c[3] \in DOMAIN D.cells[op.c[1]]
            /\ (op.op \in {"set_value", "clear_at"} => D.cells[op.c[1]][op.c[3]].cached)
      [] op.op = "set_ref" ->
            IF Len(op.s) = 0 THEN ~(op.n \in DOMAIN D.grefs /\ D.grefs[op.n].v = op.v)
            ELSE op.s \in D.sp /\ ~(op.n \in DOMAIN D.refs[op.s] /\ D.refs[op.s][op.n].v = op.v)
      [] op.op = "del_ref" ->
            IF Len(op.s) = 0 THEN op.n \in DOMAIN D.grefs
            ELSE op.s \in D.sp /\ op.n \in DOMAIN D.refs[op.s]
      [] op.op = "set_formula" -> op.s \in D.sp /\ op.c \in DOMAIN D.cells[op.s] /\ D.cells[op.s][op.c].f # op.f
      [] op.op = "set_cached"  -> op.s \in D.sp /\ op.c \in DOMAIN D.cells[op.s] /\ D.cells[op.s][op.c].cached # op.b
      [] op.op = "del_space"   -> op.p \in D.sp
      [] op.op = "rename_space" -> op.p \in D.sp /\ Append(Front(op.p), op.nm) \notin D.sp
      [] OTHER -> FALSE

Init ==
    /\ \E i \in 1..NInits : /\ D = DefsOf(Instance.inits[i])
                             /\ hist = <<[op |-> "init", id |-> i]>>
    /\ data = <<>> /\ tgn = {} /\ tge = {} /\ rge = {}
    /\ stack = <<>> /\ refstack = {} /\ rolled = <<>> /\ mode = "idle" /\ exc = 0 /\ taint = {}
    /\ last = [n |-> <<>>, res |-> 0, tb |-> <<>>, fx |-> <<>>, t |-> FALSE]

Next ==
    \/ \E i \in 1..Len(AllOps) : LET op == AllOps[i] IN Applicable(op) /\ (
          TopCall(op) \/ SetValue(op) \/ ClearAt(op) \/ ClearCells(op) \/ SetRef(op)
          \/ DelRef(op) \/ SetCellsProp(op) \/ DelSpace(op) \/ RenameSpace(op))
    \/ (Step /\ UNCHANGED hist)
    \/ Unwind

Spec == Init /\ [][Next]_vars

-----------------------------------------------------------------------------
(* The property layer, evaluated in every quiescent state.                 *)

Labels ==
    IF mode # "idle" THEN {}
    ELSE StateLabels(hist, D, data, DOMAIN D.inp, tgn, tge,
                     stack = <<>> /\ refstack = {}, TRUE, TRUE, taint)

\* the last top-level call, judged like a recorded call event
CallOK ==
    (mode = "idle" /\ last.n # <<>>) =>
        /\ last.res = ErrDeep \/ last.res = Den(D, last.n) \/ last.t
        /\ IsErr(last.res) => Unwound(last.fx) \cap DOMAIN data = {}
        /\ (last.res = ErrDeep) => (MaxDepthC > 0 /\ MaxDepth(last.fx) >= MaxDepthC + 1)

\* traceback = chain of frames the escaping exception unwound (C17)
TracebackOK ==
    (mode = "idle" /\ last.n # <<>> /\ IsErr(last.res)) =>
        LET chain == ChainOf(last.fx) IN
        /\ Len(last.tb) = Len(chain) + (IF last.res = ErrNone THEN 1 ELSE 0)
        /\ \A i \in 1..Len(chain) : last.tb[i] = chain[i][1]

\* preds() for every computed element = what the oracle says it called
PredsOK ==
    mode = "idle" =>
        \A n \in (DOMAIN data \ DOMAIN D.inp) \ taint :
            {e[1] : e \in {x \in tge : x[2] = n}} = GraphPreds(D, n)

Inv_C02_NoStale      == "C02.NoStale" \notin Labels
Inv_C08_GraphEqCache == "C08.GraphEqCache" \notin Labels
Inv_C08_Acyclic      == "C08.Acyclic" \notin Labels /\ "C08.EdgesInNodes" \notin Labels
Inv_C09_Uncached     == "C09.UncachedHoldNothing" \notin Labels
Inv_C05_Idle         == "C05.ExecutorIdle" \notin Labels
Inv_C06_Inputs       == "C06.InputWins" \notin Labels /\ "C06.InputsPersist" \notin Labels
Inv_C01_C05_Call     == CallOK
Inv_C17_Traceback    == TracebackOK
Inv_C08_Preds        == PredsOK

\* C06 as an action property: a value edit discards exactly the dependents
ExactDiscard ==
    [][(mode = "idle" /\ mode' = "idle" /\ Len(hist') > Len(hist)
        /\ Last(hist').op \in {"set_value", "clear_at"}) =>
          LET op == Last(hist')
              n == <<op.c[1], op.c[2], op.c[3],
                     Bind(FRec(D, CellRecOf(D, <<op.c[1], op.c[2]>>, op.c[3])).ps, op.args)>>
              gone == {x \in DOMAIN data : x # n /\ ~IsInput(D, x) /\ n \in DepsStar(D, x)} IN
          DOMAIN data' \ taint = (IF op.op = "set_value" THEN (DOMAIN data \ gone) \cup {n}
                                  ELSE DOMAIN data \ (gone \cup {n})) \ taint]_vars

\* C06, inputs persist: an edit of a reference, or the assignment of another element,
\* never takes an assigned value away (D.inp is the model's own record of the assigned
\* values, so this is stated on the transition, not against the oracle)
InputsKept ==
    [][(Len(hist') > Len(hist) /\ Last(hist').op \in {"set_ref", "del_ref", "set_value"})
          => DOMAIN D.inp \subseteq DOMAIN D'.inp]_vars

-----------------------------------------------------------------------------
(* spec -> code: print every maximal history once (BFS) for replay          *)
\* shapes of histories worth replaying one level deeper than the exhaustive bound:
\* an evaluation followed by two edits (the final sweep of the harness re-queries)
KindOK(i, k) ==
    CASE Pattern = "any" -> TRUE
      [] Pattern = "call-edit-edit" -> (i = 2) = (k = "call")
      [] Pattern = "call-flag-edit" -> IF i = 2 THEN k = "call"
                                       ELSE IF i = 3 THEN k = "set_cached" ELSE k # "call"
      [] OTHER -> TRUE
PrefixOK == \A i \in 2..Len(hist) : KindOK(i, hist[i].op)
Frontier == mode = "idle" /\ Len(hist) = MaxOps + 1
DumpHist == (Dump /\ Frontier) => PrintT(<<"MBT", ToJson(hist)>>)
Bound    == PrefixOK /\ DumpHist
=============================================================================
