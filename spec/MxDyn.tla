------------------------------- MODULE MxDyn -------------------------------
(***************************************************************************)
(* Algorithm layer: life cycle of ItemSpaces (C07).                         *)
(*                                                                         *)
(* A parametrised space P (with child space P.C) and the instances P[k]    *)
(* the code keeps in `param_spaces`.  Actions transcribe                   *)
(*   ItemSpaceParent.get_itemspace / on_eval_formula   space.py:1259-1327  *)
(*        (instance created through the executor; the interface object of  *)
(*         a discarded instance is re-attached through `dynamic_cache`     *)
(*         when a handle to it is still held: 1314-1326, 1990-1992)        *)
(*   DynamicBase.clear_subs_rootitems                  space.py:1570-1573  *)
(*        (new_cells / set_cells_property / del_cells discard the root     *)
(*         instances of every dynamic sub of the edited space)             *)
(*   ItemSpaceParent.on_namespace_change -> del_all_itemspaces 1199-1257   *)
(*   dynamic cells observing the base's references: values cleared in      *)
(*         place, the instance survives                                    *)
(*   set_formula / del_formula of the space                1213-1239       *)
(* Values inside instances are abstracted to "computed under definition    *)
(* version v": every edit of the base bumps the version of what it         *)
(* affects; the property is that no instance ever holds a value or a       *)
(* member set of an older version, that equal arguments give the same      *)
(* instance, and that every handle is dead or denotes the current one.     *)
(***************************************************************************)
EXTENDS Integers, Sequences, FiniteSets, TLC, Json

CONSTANTS MaxOps, Keys, Dump

VARIABLES
    pf,        \* number of parameters of P's formula: 0 (none), 1, or 2 (second has a default)
    ver,       \* [member |-> version] for "Pcells", "Prefs", "Ccells", "Crefs", "gref"
    inst,      \* [key |-> [id, mver (member-set versions seen at creation), vals]]:
               \*    vals : [where |-> version the held value was computed under] , where \in {"P","C"}
    nextid,    \* next fresh interface id
    cache,     \* dynamic_cache: [key |-> id] (weak: entry lives while a handle is held)
    handles,   \* set of <<id, key>> the user still holds
    callers,   \* static cells values that used P[k]: set of keys (dependents of the item node)
    hist
vars == <<pf, ver, inst, nextid, cache, handles, callers, hist>>

Members == {"Pcells", "Prefs", "Ccells", "Crefs", "gref"}
NoDefault == 1

\* ---- argument binding (node.py:_bind_args): P[k] and P[k, d] with d the default ----
Bind(args) == IF pf = 2 /\ Len(args) = 1 THEN <<args[1], NoDefault>> ELSE args
Spellable(args) == pf > 0 /\ (Len(args) = pf \/ (pf = 2 /\ Len(args) = 1))

Idle == Len(hist) <= MaxOps
Rec(op) == hist' = Append(hist, op)

CurVals == [w \in {"P", "C"} |-> 0]

\* ---- get_itemspace ------------------------------------------------------------
GetItem(args) ==
    /\ Idle /\ Spellable(args)
    /\ LET k == Bind(args) IN
       /\ Rec([op |-> "get_item", s |-> <<"P">>, st |-> <<>>, key |-> args, sp |-> "call"])
       /\ IF k \in DOMAIN inst
          THEN /\ handles' = handles \cup {<<inst[k].id, k>>}
               /\ UNCHANGED <<inst, nextid, cache>>
          ELSE LET reuse == k \in DOMAIN cache /\ \E h \in handles : h = <<cache[k], k>>
                   id == IF reuse THEN cache[k] ELSE nextid IN
               /\ inst' = [x \in DOMAIN inst \cup {k} |->
                             IF x = k THEN [id |-> id,
                                            mver |-> [m \in {"Pcells", "Ccells"} |-> ver[m]],
                                            vals |-> <<>>]
                             ELSE inst[x]]
               /\ nextid' = IF reuse THEN nextid ELSE nextid + 1
               /\ cache' = [x \in DOMAIN cache \cup {k} |-> IF x = k THEN id ELSE cache[x]]
               /\ handles' = handles \cup {<<id, k>>}
    /\ UNCHANGED <<pf, ver, callers>>

\* a handle is dropped by the user (the weak cache entry may then vanish)
DropHandle(h) ==
    /\ Idle /\ h \in handles
    /\ handles' = handles \ {h}
    /\ cache' = [x \in {y \in DOMAIN cache : \E g \in handles' : g = <<cache[y], y>>
                                              \/ (y \in DOMAIN inst /\ inst[y].id = cache[y])} |-> cache[x]]
    /\ UNCHANGED <<pf, ver, inst, nextid, callers, hist>>

\* evaluation of a cells inside P[k] (w = "P") or P[k].C (w = "C"): computed under
\* the current versions of everything it can read
EvalIn(k, w) ==
    /\ Idle /\ k \in DOMAIN inst
    /\ Rec([op |-> "call_dyn", key |-> k, w |-> w])
    /\ inst' = [inst EXCEPT ![k].vals =
                   [x \in DOMAIN @ \cup {w} |->
                       IF x = w THEN [m \in Members |-> ver[m]] ELSE @[x]]]
    /\ UNCHANGED <<pf, ver, nextid, cache, handles, callers>>

\* a static cells evaluates P[k].x(): the item node gets a dependent
UseFromStatic(args) ==
    /\ Idle /\ Spellable(args) /\ Bind(args) \in DOMAIN inst
    /\ Rec([op |-> "call_static", key |-> Bind(args)])
    /\ callers' = callers \cup {Bind(args)}
    /\ UNCHANGED <<pf, ver, inst, nextid, cache, handles>>

\* ---- discarding ----------------------------------------------------------------
Discard(ks) ==
    /\ inst' = [x \in DOMAIN inst \ ks |-> inst[x]]
    /\ callers' = callers \ ks
    /\ cache' = [x \in {y \in DOMAIN cache : y \notin ks \/ \E g \in handles : g = <<cache[y], y>>} |-> cache[x]]

DelItem(k) ==
    /\ Idle /\ k \in DOMAIN inst
    /\ Rec([op |-> "del_item", s |-> <<"P">>, st |-> <<>>, key |-> k, via |-> "del"])
    /\ Discard({k})
    /\ UNCHANGED <<pf, ver, nextid, handles>>

\* ---- edits of the base ----------------------------------------------------------
\* cells created / deleted / formula changed in P or in its child C:
\* clear_subs_rootitems discards every root instance
EditCells(m) ==
    /\ Idle /\ m \in {"Pcells", "Ccells"}
    /\ Rec([op |-> "edit_cells", m |-> m])
    /\ ver' = [ver EXCEPT ![m] = @ + 1]
    /\ Discard(DOMAIN inst)
    /\ UNCHANGED <<pf, nextid, handles>>

\* reference of P changed: namespace change of P -> del_all_itemspaces
EditPRef ==
    /\ Idle
    /\ Rec([op |-> "edit_ref", m |-> "Prefs"])
    /\ ver' = [ver EXCEPT !["Prefs"] = @ + 1]
    /\ Discard(DOMAIN inst)
    /\ UNCHANGED <<pf, nextid, handles>>

\* reference of the child C created / deleted / changed: UserSpaceImpl.on_create_ref and
\* on_del_ref discard the root instances that replicate C (clear_subs_rootitems; repaired
\* behaviour, fix: 78110ff -- before, the instances survived with C's old names)
EditCRef ==
    /\ Idle
    /\ Rec([op |-> "edit_ref", m |-> "Crefs"])
    /\ ver' = [ver EXCEPT !["Crefs"] = @ + 1]
    /\ Discard(DOMAIN inst)
    /\ UNCHANGED <<pf, nextid, handles>>

\* a model-level reference changed: the dynamic cells drop their values; the instances survive
EditOtherRef(m) ==
    /\ Idle /\ m = "gref"
    /\ Rec([op |-> "edit_ref", m |-> m])
    /\ ver' = [ver EXCEPT ![m] = @ + 1]
    /\ inst' = [k \in DOMAIN inst |-> [inst[k] EXCEPT !.vals = <<>>]]
    /\ callers' = {}
    /\ UNCHANGED <<pf, nextid, cache, handles>>

SetPf(n) ==
    /\ Idle /\ n \in 0..2 /\ n # pf
    /\ Rec([op |-> "set_pf", n |-> n])
    /\ pf' = n
    /\ Discard(DOMAIN inst)
    /\ UNCHANGED <<ver, nextid, handles>>

Init ==
    /\ pf \in {1, 2}
    /\ ver = [m \in Members |-> 0]
    /\ inst = <<>> /\ nextid = 1 /\ cache = <<>> /\ handles = {} /\ callers = {}
    /\ hist = <<[op |-> "init", pf |-> pf]>>

Next ==
    \/ \E a \in Keys : GetItem(<<a>>)
    \/ \E a \in Keys, b \in {NoDefault, 0} : GetItem(<<a, b>>)
    \/ \E h \in handles : DropHandle(h)
    \/ \E k \in DOMAIN inst, w \in {"P", "C"} : EvalIn(k, w)
    \/ \E a \in Keys : UseFromStatic(<<a>>)
    \/ \E k \in DOMAIN inst : DelItem(k)
    \/ \E m \in {"Pcells", "Ccells"} : EditCells(m)
    \/ EditPRef
    \/ EditCRef
    \/ EditOtherRef("gref")
    \/ \E n \in 0..2 : SetPf(n)

Spec == Init /\ [][Next]_vars

-----------------------------------------------------------------------------
(* Property layer (C07)                                                    *)

\* what a value computed in `w` may depend on
Sees(w) == IF w = "P" THEN {"Pcells", "Prefs", "gref"} ELSE {"Ccells", "Crefs", "Pcells", "Prefs", "gref"}

\* an instance never serves a value or a member set that does not reflect the current definitions
Inv_C07_InstanceFresh ==
    \A k \in DOMAIN inst :
        /\ \A m \in {"Pcells", "Ccells"} : inst[k].mver[m] = ver[m]
        /\ \A w \in DOMAIN inst[k].vals : \A m \in Sees(w) : inst[k].vals[w][m] = ver[m]

\* arguments that bind equally denote the same instance; different keys, different instances
Inv_C07_SameArgsSameInstance ==
    /\ \A k \in DOMAIN inst : Len(k) = pf
    /\ \A j, k \in DOMAIN inst : inst[j].id = inst[k].id => j = k

\* a handle obtained earlier is dead or denotes the re-created instance for its key
Inv_C07_HandleDeadOrCurrent ==
    \A h \in handles : \A k \in DOMAIN inst : inst[k].id = h[1] => k = h[2]

\* a static value that used P[k] never outlives that instance
Inv_C07_CallersFollow == callers \subseteq DOMAIN inst

Frontier == Len(hist) = MaxOps + 1
DumpHist == (Dump /\ Frontier) => PrintT(<<"MBT", ToJson(hist)>>)
Bound == DumpHist
=============================================================================
